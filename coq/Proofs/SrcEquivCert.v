(* Refinement theorem: HSMCertificate.validate_and_get_values of admin/certificate_v1.py (also inherited by
   the version-2 class), as translated from the Python source text, computes the verdict map of the model
   (Model/Cert.v: chain_up / validate_down / validate_target) for every certificate whose element names are
   strings and whose targets have a path to the root (which loading guarantees).  The element methods
   is_valid / get_value / get_tweak are oracles. *)
From PowHsm Require Import Gen.Src Model.Cert.
From PowHsm Require Import Proofs.ValLemmas.
From PowHsm Require Import Proofs.ValLemmasLoop.

Section WithOracles.
Variable link_ok : celem -> certifier -> bool.     (* element.is_valid(certifier) *)
Variable value_of : celem -> pr pv.                (* element.get_value(): may raise *)
Variable tweak_of : celem -> pr pv.                (* element.get_tweak() *)
Variable root_pv : pv.                             (* the root-of-trust object handed in by the caller *)
Variable call_method : string -> pv -> list pv -> pr pv.

(* how an element appears to the translated code: an object with the two attributes the walk reads, and the
   remaining fields so that different elements are different objects *)
Definition kind_pv (k : ekind) : pv :=
  VInt (match k with KV1 => 0 | KQuote => 1 | KAttKey => 2 | KX509 => 3 end)%Z.

Definition elem_pv (e : celem) : pv :=
  VObj "element" [("name", of_json (ce_name e)); ("signed_by", of_json (ce_signed_by e));
                  ("kind", kind_pv (ce_kind e));
                  ("tweak", match ce_tweak e with Some t => VStr t | None => VNone end);
                  ("message", VStr (ce_message e)); ("signature", VStr (ce_signature e));
                  ("extra1", VStr (ce_extra1 e)); ("extra2", VStr (ce_extra2 e))].

Definition certifier_pv (cf : certifier) : pv :=
  match cf with ByRoot => root_pv | ByElem e => elem_pv e end.

(* the assumed behaviour of the three element methods *)
Definition oracle_ok : Prop :=
  (forall e cf, call_method "is_valid" (elem_pv e) [certifier_pv cf] = POk (VBool (link_ok e cf))) /\
  (forall e, call_method "get_value" (elem_pv e) [] = value_of e) /\
  (forall e, call_method "get_tweak" (elem_pv e) [] = tweak_of e).

Definition key_str (k : json) : str := match k with JStr x => x | _ => [] end.
Definition is_jstr_b (k : json) : bool := match k with JStr _ => true | _ => false end.

(* the certificate object: _elements is a dict from names to element objects, _targets a list of names *)
Definition cert_pv (c : cert) : pv :=
  VObj "HSMCertificate"
       [("_elements", VDict (map (fun p => (key_str (fst p), elem_pv (snd p))) (c_elems c)));
        ("_targets", VList (map of_json (c_targets c)))].

(* what the walk must return, in terms of the model's verdicts: a dict target -> (True, value, tweak) |
   (False, failing element's name), built in target order (a later duplicate overwrites in place) *)
Definition entry_of (v : verdict) : pr pv :=
  match v with
  | Valid e => pbind (value_of e) (fun val => pbind (tweak_of e) (fun tw => POk (VList [VBool true; val; tw])))
  | Invalid n => POk (VList [VBool false; of_json n])
  end.

Fixpoint spec_results (c : cert) (targets : list json) (acc : list (str * pv)) : pr pv :=
  match targets with
  | [] => POk (VDict acc)
  | tg :: r =>
      match validate_target link_ok c tg with
      | Some v => pbind (entry_of v) (fun en => spec_results c r (vassoc_set (key_str tg) en acc))
      | None => PStuck
      end
  end.

(* names are strings: every key of the table, every element's own name (as stored under its key) and every
   target *)
Definition str_named (c : cert) : Prop :=
  Forall (fun p => is_jstr_b (fst p) = true /\ is_jstr_b (ce_signed_by (snd p)) = true /\
                   is_jstr_b (ce_name (snd p)) = true) (c_elems c) /\
  Forall (fun t => is_jstr_b t = true) (c_targets c).

(* every target resolves (what _parse checks at load time) *)
Definition targets_resolve (c : cert) : Prop :=
  Forall (fun tg => validate_target link_ok c tg <> None) (c_targets c).

(* ---------- the translated walk, with the root name as a parameter and its loop bodies named ---------- *)

Definition walk_body1 (root : str) (v_self : pv) : pv -> pr pv :=
  fun st_ => match st_ with VList [v_chain; v_current] =>
  pif (pbind (py_getattr v_current "signed_by") (fun t2_ => vbool (py_eq t2_ (VStr root))))
    (POk (VList [VBool false; VList [v_chain; v_current]]))
    (pbind (POk v_current) (fun t3_ => pbind (py_list_append v_chain t3_) (fun v_chain =>
  pbind (pbind (py_getattr v_self "_elements") (fun t4_ => pbind (py_getattr v_current "signed_by") (fun t5_ => py_getitem t4_ t5_))) (fun v_current =>
  POk (VList [VBool true; VList [v_chain; v_current]])))))
   | _ => PStuck end.

Definition walk_body2 (v_target : pv) : pv -> pr pv :=
  fun st_ => match st_ with VList [v_result; v_current_certifier; v_current; v_chain] =>
  pif (py_not (call_method "is_valid" v_current [v_current_certifier]))
    (pbind (pbind (py_getattr v_current "name") (fun t8_ => POk (VList [(VBool false); t8_]))) (fun t6_ => pbind (POk v_target) (fun t7_ => pbind (py_setitem v_result t7_ t6_) (fun v_result =>
  POk (VList [VBool false; VList [v_result; v_current_certifier; v_current; v_chain]])))))
    (pif (pbind (py_len v_chain) (fun t9_ => vbool (py_eq t9_ (VInt (0)%Z))))
    (pbind (pbind (call_method "get_value" v_current []) (fun t12_ => pbind (call_method "get_tweak" v_current []) (fun t13_ => POk (VList [(VBool true); t12_; t13_])))) (fun t10_ => pbind (POk v_target) (fun t11_ => pbind (py_setitem v_result t11_ t10_) (fun v_result =>
  POk (VList [VBool false; VList [v_result; v_current_certifier; v_current; v_chain]])))))
    (pbind (POk v_current) (fun v_current_certifier =>
  pbind (py_list_pop v_chain) (fun p_ => match p_ with VList [v_current; v_chain] =>
  POk (VList [VBool true; VList [v_result; v_current_certifier; v_current; v_chain]])
   | _ => PStuck end))))
   | _ => PStuck end.

Definition walk_cont2 : pv -> pr pv :=
  fun st_ => match st_ with VList [v_result; v_current_certifier; v_current; v_chain] =>
  POk (VList [v_chain; v_current; v_current_certifier; v_result])
   | _ => PStuck end.

Definition walk_cont1 (fuel_ : nat) (v_root_of_trust v_target v_result : pv) : pv -> pr pv :=
  fun st_ => match st_ with VList [v_chain; v_current] =>
  pbind (POk v_root_of_trust) (fun v_current_certifier =>
  pbind (py_loop fuel_ (VList [v_result; v_current_certifier; v_current; v_chain]) (walk_body2 v_target))
    walk_cont2)
   | _ => PStuck end.

Definition walk_iter (root : str) (fuel_ : nat) (v_self v_root_of_trust : pv) : pv -> pv -> pr pv :=
  fun st_ v_target => match st_ with VList [v_chain; v_current; v_current_certifier; v_result] => pbind (POk (VList [])) (fun v_chain =>
  pbind (pbind (py_getattr v_self "_elements") (fun t1_ => py_getitem t1_ v_target)) (fun v_current =>
  pbind (py_loop fuel_ (VList [v_chain; v_current]) (walk_body1 root v_self))
    (walk_cont1 fuel_ v_root_of_trust v_target v_result))) | _ => PStuck end.

Definition walk_fin : pv -> pr pv :=
  fun st_ => match st_ with VList [v_chain; v_current; v_current_certifier; v_result] => POk v_result | _ => PStuck end.

Definition walk (root : str) (fuel_ : nat) (v_self v_root_of_trust : pv) : pr pv :=
  pbind (POk (VDict [])) (fun v_result =>
  pbind (py_getattr v_self "_targets") (fun t14_ => pbind (py_for t14_ (VList [VNone; VNone; VNone; v_result])
    (walk_iter root fuel_ v_self v_root_of_trust)) walk_fin)).

Lemma src_v1_is_walk (fuel_ : nat) (v_self v_rot : pv) :
  src_HSMCertificate__validate_and_get_values fuel_ call_method v_self v_rot = walk (s "root") fuel_ v_self v_rot.
Proof. reflexivity. Qed.

Lemma src_v2_is_walk (fuel_ : nat) (v_self v_rot : pv) :
  src_HSMCertificateV2__validate_and_get_values fuel_ call_method v_self v_rot = walk (s "sgx_root") fuel_ v_self v_rot.
Proof. reflexivity. Qed.

(* ---------- attribute and table lookups ---------- *)

Lemma getattr_signed_by (e : celem) : py_getattr (elem_pv e) "signed_by" = POk (of_json (ce_signed_by e)).
Proof. reflexivity. Qed.

Lemma getattr_name (e : celem) : py_getattr (elem_pv e) "name" = POk (of_json (ce_name e)).
Proof. reflexivity. Qed.

Lemma getattr_elements (c : cert) :
  py_getattr (cert_pv c) "_elements" = POk (VDict (map (fun p => (key_str (fst p), elem_pv (snd p))) (c_elems c))).
Proof. reflexivity. Qed.

Lemma getattr_targets (c : cert) : py_getattr (cert_pv c) "_targets" = POk (VList (map of_json (c_targets c))).
Proof. reflexivity. Qed.

Definition elem_named (p : json * celem) : Prop :=
  is_jstr_b (fst p) = true /\ is_jstr_b (ce_signed_by (snd p)) = true /\ is_jstr_b (ce_name (snd p)) = true.

Lemma vassoc_elems (k : str) (t : etable) :
  Forall elem_named t ->
  vassoc k (map (fun p => (key_str (fst p), elem_pv (snd p))) t) = option_map elem_pv (tbl_get (JStr k) t).
Proof.
  induction t as [|[k' e] r IH]; intros HF; [reflexivity|].
  inversion HF as [|p l Hp Hr]; subst. destruct Hp as (Hk & _).
  cbn [fst] in Hk. destruct k'; try discriminate Hk.
  cbn [map fst snd vassoc tbl_get key_str key_eqb].
  destruct (str_eqb k x); [reflexivity|apply IH; exact Hr].
Qed.

Lemma tbl_get_named (k : json) (t : etable) (e : celem) :
  Forall elem_named t -> tbl_get k t = Some e -> is_jstr_b (ce_signed_by e) = true.
Proof.
  induction t as [|[k' e'] r IH]; intros HF H; [discriminate H|].
  inversion HF as [|p l Hp Hr]; subst. cbn [tbl_get] in H.
  destruct (key_eqb k k').
  - inversion H; subst. destruct Hp as (_ & Hs & _). exact Hs.
  - apply IH; assumption.
Qed.

Lemma chain_up_length (f : nat) (root : str) (t : etable) :
  forall cur up, chain_up f root t cur = Some up -> (length up <= f)%nat.
Proof.
  induction f as [|f IH]; intros cur up H; [discriminate H|].
  cbn [chain_up] in H. destruct (Json.py_eq_str (ce_signed_by cur) root).
  - inversion H; subst. cbn [length]. lia.
  - destruct (tbl_get (ce_signed_by cur) t) as [nxt|]; [|discriminate H].
    destruct (chain_up f root t nxt) as [l|] eqn:El; [|discriminate H].
    inversion H; subst. cbn [length]. apply IH in El. lia.
Qed.

(* ---------- first loop ---------- *)

Section Walk.
Variable c : cert.
Variable root : str.
Hypothesis Horacle : oracle_ok.
Hypothesis Hnamed : Forall elem_named (c_elems c).

Lemma body1_stop (acc : list pv) (cur : celem) :
  is_jstr_b (ce_signed_by cur) = true -> Json.py_eq_str (ce_signed_by cur) root = true ->
  walk_body1 root (cert_pv c) (VList [VList acc; elem_pv cur]) =
  POk (VList [VBool false; VList [VList acc; elem_pv cur]]).
Proof.
  intros Hs He. unfold walk_body1. rewrite getattr_signed_by.
  destruct (ce_signed_by cur) as [| | | |x| |]; try discriminate Hs.
  cbn [Json.py_eq_str] in He. cbn [of_json pbind]. rewrite ValLemmas.py_eq_str, He. reflexivity.
Qed.

Lemma body1_step (acc : list pv) (cur nxt : celem) :
  is_jstr_b (ce_signed_by cur) = true -> Json.py_eq_str (ce_signed_by cur) root = false ->
  tbl_get (ce_signed_by cur) (c_elems c) = Some nxt ->
  walk_body1 root (cert_pv c) (VList [VList acc; elem_pv cur]) =
  POk (VList [VBool true; VList [VList (acc ++ [elem_pv cur]); elem_pv nxt]]).
Proof.
  intros Hs He Ht. unfold walk_body1. rewrite !getattr_signed_by, getattr_elements.
  destruct (ce_signed_by cur) as [| | | |x| |]; try discriminate Hs.
  cbn [Json.py_eq_str] in He. cbn [of_json pbind]. rewrite ValLemmas.py_eq_str, He.
  cbn [vbool pmap pif py_truth pbind py_list_append py_getitem].
  rewrite (vassoc_elems x (c_elems c) Hnamed), Ht. reflexivity.
Qed.

Lemma loop1_ok (f : nat) :
  forall cur up, chain_up f root (c_elems c) cur = Some up ->
  is_jstr_b (ce_signed_by cur) = true ->
  forall fuel acc, (f <= fuel)%nat ->
  exists top rest, rev up = top :: rest /\
    py_loop fuel (VList [VList acc; elem_pv cur]) (walk_body1 root (cert_pv c)) =
    POk (VList [VList (acc ++ map elem_pv (rev rest)); elem_pv top]).
Proof.
  induction f as [|f IH]; intros cur up H Hs fuel acc Hf; [discriminate H|].
  destruct fuel as [|fuel]; [lia|]. cbn [chain_up] in H.
  destruct (Json.py_eq_str (ce_signed_by cur) root) eqn:He.
  - inversion H; subst. exists cur, []. split; [reflexivity|].
    rewrite (py_loop_break _ _ _ _ (body1_stop acc cur Hs He)).
    cbn [rev map]. rewrite app_nil_r. reflexivity.
  - destruct (tbl_get (ce_signed_by cur) (c_elems c)) as [nxt|] eqn:Ht; [|discriminate H].
    destruct (chain_up f root (c_elems c) nxt) as [l|] eqn:El; [|discriminate H].
    inversion H; subst.
    destruct (IH nxt l El (tbl_get_named _ _ _ Hnamed Ht) fuel (acc ++ [elem_pv cur]) ltac:(lia))
      as (top & rest & Hr & Hl).
    exists top, (rest ++ [cur]). split.
    + cbn [rev]. rewrite Hr. reflexivity.
    + rewrite (py_loop_continue _ _ _ _ (body1_step acc cur nxt Hs He Ht)), Hl.
      rewrite rev_app_distr. cbn [rev app map]. rewrite <- app_assoc. reflexivity.
Qed.

(* ---------- second loop ---------- *)

Variable key : str.

Lemma is_valid_ok (e : celem) (cf : certifier) :
  py_not (call_method "is_valid" (elem_pv e) [certifier_pv cf]) = POk (VBool (negb (link_ok e cf))).
Proof. destruct Horacle as (H & _). rewrite H. reflexivity. Qed.

Lemma body2_invalid (res : list (str * pv)) (cf : certifier) (e : celem) (ch : pv) :
  link_ok e cf = false ->
  walk_body2 (VStr key) (VList [VDict res; certifier_pv cf; elem_pv e; ch]) =
  POk (VList [VBool false; VList [VDict (vassoc_set key (VList [VBool false; of_json (ce_name e)]) res);
                                  certifier_pv cf; elem_pv e; ch]]).
Proof.
  intros Hl. unfold walk_body2. rewrite is_valid_ok, Hl, getattr_name. reflexivity.
Qed.

Lemma body2_valid (res : list (str * pv)) (cf : certifier) (e : celem) :
  link_ok e cf = true ->
  walk_body2 (VStr key) (VList [VDict res; certifier_pv cf; elem_pv e; VList []]) =
  pbind (entry_of (Valid e)) (fun en =>
    POk (VList [VBool false; VList [VDict (vassoc_set key en res); certifier_pv cf; elem_pv e; VList []]])).
Proof.
  intros Hl. unfold walk_body2. rewrite is_valid_ok, Hl, py_len_list_is_zero_nil.
  destruct Horacle as (_ & Hv & Ht). rewrite Hv, Ht.
  cbn [negb pif py_truth entry_of].
  destruct (value_of e); [|reflexivity|reflexivity]. cbn [pbind].
  destruct (tweak_of e); reflexivity.
Qed.

Lemma body2_down (res : list (str * pv)) (cf : certifier) (e e' : celem) (xs : list pv) :
  link_ok e cf = true ->
  walk_body2 (VStr key) (VList [VDict res; certifier_pv cf; elem_pv e; VList (xs ++ [elem_pv e'])]) =
  POk (VList [VBool true; VList [VDict res; certifier_pv (ByElem e); elem_pv e'; VList xs]]).
Proof.
  intros Hl. unfold walk_body2. rewrite is_valid_ok, Hl, py_len_list_is_zero_snoc, py_list_pop_snoc.
  reflexivity.
Qed.

Lemma loop2_ok (rest : list celem) :
  forall top cf fuel res, (length (top :: rest) <= fuel)%nat ->
  exists v j1 j2 j3, validate_down link_ok cf (top :: rest) = Some v /\
    py_loop fuel (VList [VDict res; certifier_pv cf; elem_pv top; VList (map elem_pv (rev rest))])
            (walk_body2 (VStr key)) =
    pbind (entry_of v) (fun en => POk (VList [VDict (vassoc_set key en res); j1; j2; j3])).
Proof.
  induction rest as [|r rest IH]; intros top cf fuel res Hf;
    (destruct fuel as [|fuel]; [cbn [length] in Hf; lia|]);
    destruct (link_ok top cf) eqn:Hl.
  - exists (Valid top), (certifier_pv cf), (elem_pv top), (VList []). split.
    + cbn [validate_down]. rewrite Hl. reflexivity.
    + cbn [rev map].
      rewrite (py_loop_bind_break _ _ _ _
                 (fun en => VList [VDict (vassoc_set key en res); certifier_pv cf; elem_pv top; VList []])
                 (body2_valid res cf top Hl)).
      reflexivity.
  - exists (Invalid (ce_name top)), (certifier_pv cf), (elem_pv top), (VList []). split.
    + cbn [validate_down]. rewrite Hl. reflexivity.
    + cbn [rev map]. rewrite (py_loop_break _ _ _ _ (body2_invalid res cf top (VList []) Hl)). reflexivity.
  - cbn [length] in Hf.
    destruct (IH r (ByElem top) fuel res ltac:(cbn [length]; lia)) as (v & j1 & j2 & j3 & Hv & Hp).
    exists v, j1, j2, j3. split.
    + cbn [validate_down]. rewrite Hl. cbn [negb]. exact Hv.
    + cbn [rev]. rewrite map_app. cbn [map].
      rewrite (py_loop_continue _ _ _ _ (body2_down res cf top r _ Hl)). exact Hp.
  - exists (Invalid (ce_name top)), (certifier_pv cf), (elem_pv top), (VList (map elem_pv (rev (r :: rest)))).
    split.
    + cbn [validate_down]. rewrite Hl. reflexivity.
    + rewrite (py_loop_break _ _ _ _ (body2_invalid res cf top _ Hl)). reflexivity.
Qed.

(* ---------- one target ---------- *)

Lemma iter_ok (fuel : nat) (v : verdict) (j1 j2 j3 : pv) (res : list (str * pv)) :
  root = root_name (c_version c) ->
  (S (length (c_elems c)) <= fuel)%nat ->
  validate_target link_ok c (JStr key) = Some v ->
  exists k1 k2 k3,
    walk_iter root fuel (cert_pv c) root_pv (VList [j1; j2; j3; VDict res]) (VStr key) =
    pbind (entry_of v) (fun en => POk (VList [k1; k2; k3; VDict (vassoc_set key en res)])).
Proof.
  intros Hroot Hfuel Hv. unfold validate_target in Hv. rewrite <- Hroot in Hv.
  destruct (tbl_get (JStr key) (c_elems c)) as [e|] eqn:Ht; [|discriminate Hv].
  destruct (chain_up (S (length (c_elems c))) root (c_elems c) e) as [up|] eqn:Hup; [|discriminate Hv].
  destruct (loop1_ok _ e up Hup (tbl_get_named _ _ _ Hnamed Ht) fuel [] Hfuel) as (top & rest & Hr & Hl1).
  rewrite Hr in Hv.
  assert (Hlen : (length (top :: rest) <= fuel)%nat).
  { rewrite <- Hr, rev_length. apply chain_up_length in Hup. lia. }
  destruct (loop2_ok rest top ByRoot fuel res Hlen) as (v' & k2 & k3 & k4 & Hv' & Hl2).
  rewrite Hv in Hv'. inversion Hv'; subst v'.
  exists k4, k3, k2.
  unfold walk_iter. rewrite getattr_elements. cbn [pbind py_getitem].
  rewrite (vassoc_elems key (c_elems c) Hnamed), Ht. cbn [option_map pbind].
  rewrite Hl1. cbn [app]. unfold walk_cont1. cbn [pbind certifier_pv] in Hl2 |- *.
  rewrite Hl2. destruct (entry_of v); reflexivity.
Qed.

End Walk.

(* ---------- all targets ---------- *)

Lemma fold_ok (c : cert) (root : str) (fuel : nat) :
  oracle_ok -> Forall elem_named (c_elems c) ->
  root = root_name (c_version c) -> (S (length (c_elems c)) <= fuel)%nat ->
  forall tgs, Forall (fun t => is_jstr_b t = true) tgs ->
  Forall (fun tg => validate_target link_ok c tg <> None) tgs ->
  forall j1 j2 j3 acc,
  pbind (pfold (map of_json tgs) (VList [j1; j2; j3; VDict acc]) (walk_iter root fuel (cert_pv c) root_pv))
        walk_fin = spec_results c tgs acc.
Proof.
  intros Ho Hn Hroot Hfuel tgs. induction tgs as [|tg r IH]; intros Hs Hr j1 j2 j3 acc; [reflexivity|].
  inversion Hs as [|x l Hs1 Hs2]; subst x l. inversion Hr as [|x l Hr1 Hr2]; subst x l.
  destruct tg as [| | | |key| |]; try discriminate Hs1.
  cbn [map of_json spec_results key_str]. rewrite pfold_cons.
  destruct (validate_target link_ok c (JStr key)) as [v|] eqn:Hv; [|exfalso; apply Hr1; reflexivity].
  destruct (iter_ok c root Ho Hn key fuel v j1 j2 j3 acc Hroot Hfuel Hv) as (k1 & k2 & k3 & Hi).
  rewrite Hi. destruct (entry_of v) as [en| |]; cbn [pbind]; [|reflexivity|reflexivity].
  apply IH; assumption.
Qed.

Lemma walk_ok (c : cert) (root : str) (fuel : nat) :
  oracle_ok -> str_named c -> targets_resolve c ->
  root = root_name (c_version c) -> (S (length (c_elems c)) <= fuel)%nat ->
  walk root fuel (cert_pv c) root_pv = spec_results c (c_targets c) [].
Proof.
  intros Ho (Hn & Hs) Hr Hroot Hfuel. unfold walk. rewrite getattr_targets. cbn [pbind].
  rewrite py_for_list. apply fold_ok; assumption.
Qed.

Theorem src_validate_v1_ok : forall (c : cert) (fuel : nat),
  oracle_ok -> c_version c = 1%Z -> str_named c -> targets_resolve c ->
  (S (length (c_elems c)) <= fuel)%nat ->
  src_HSMCertificate__validate_and_get_values fuel call_method (cert_pv c) root_pv =
  spec_results c (c_targets c) [].
Proof.
  intros c fuel Ho Hver Hn Hr Hfuel. rewrite src_v1_is_walk.
  apply walk_ok; try assumption. rewrite Hver. reflexivity.
Qed.

Theorem src_validate_v2_ok : forall (c : cert) (fuel : nat),
  oracle_ok -> c_version c = 2%Z -> str_named c -> targets_resolve c ->
  (S (length (c_elems c)) <= fuel)%nat ->
  src_HSMCertificateV2__validate_and_get_values fuel call_method (cert_pv c) root_pv =
  spec_results c (c_targets c) [].
Proof.
  intros c fuel Ho Hver Hn Hr Hfuel. rewrite src_v2_is_walk.
  apply walk_ok; try assumption. rewrite Hver. reflexivity.
Qed.

End WithOracles.

(* Print Assumptions src_validate_v1_ok. Print Assumptions src_validate_v2_ok.   both: Closed under the global context *)
