(* Property statements carried over to the functions translated from the Python source text
   (Gen/Src.v): each is a hand-model theorem composed with the refinement lemmas of SrcEquiv*. *)
From PowHsm Require Import Gen.Src Model.CommProtocol.
From PowHsm Require Import Proofs.SrcEquivBase Proofs.SrcEquivProto Proofs.C02 Proofs.C03.

Lemma pok_vint_inj : forall a b : Z, @POk pv (VInt a) = POk (VInt b) <-> a = b.
Proof. intros a b; split; intro H; [inversion H; reflexivity | subst; reflexivity]. Qed.

Lemma pok_vbool_inj : forall a b : bool, @POk pv (VBool a) = POk (VBool b) <-> a = b.
Proof. intros a b; split; intro H; [inversion H; reflexivity | subst; reflexivity]. Qed.

(* ---------- C02: the translated gate and validators ---------- *)

(* the source's key-id validator accepts exactly the five-element BIP32 paths *)
Theorem src_validate_key_id_accepts_iff : forall (self : pv) (req : obj),
  src_HSM2Protocol___validate_key_id self (of_obj req) = POk (VInt 0) <->
  (exists (x : str) (p : list N), jget (s "keyId") req = Some (JStr x) /\ bip32_path x = Some p).
Proof.
  intros self req. rewrite src_validate_key_id_v5, pok_vint_inj.
  apply validate_key_id_ok_iff. vm_compute. discriminate.
Qed.

(* a request the gate rejects: the translated source answers {"errorcode": code}, whatever the operations
   are (none is invoked), and the code is a documented one *)
Theorem src_gate_v5_rejected : forall (op : pv -> pv -> pr pv) (self : pv) (r : json) (code : Z),
  gate_request V5 r = GReject code ->
  src_HSM2Protocol____internal_handle_request op self (of_json r) = POk (reply_code code) /\
  (In code DOC_GENERIC \/
   (exists (cmd : str) (req : obj) (doc : list Z),
      classify_request V5 r = VValidate cmd req /\ assoc_str cmd DOC_CODES = Some doc /\ In code doc)).
Proof.
  intros op self r code H. split.
  - rewrite src_gate_v5. unfold gate_spec. rewrite H. reflexivity.
  - exact (gate_v5_documented r code H).
Qed.

(* the translated source never raises out of the gate itself: for every JSON value the result is a reply
   or the continuation into an operation (GCrash is impossible on the current tables) *)
Theorem src_gate_never_raises : forall (m : pmode) (r : json), forall e, gate_request m r <> GCrash e.
Proof. intros m r e. exact (gate_never_crashes m r e). Qed.

