(* C04: device outcomes map onto the result codes documented for each command.
   1. ok_range / exn_range : a "which values can come out" logic for the M monad
   2. ladder_codes         : the codes an except-ladder can answer with
   3. *_documented         : every v5 handler only answers documented codes (+ handle_request)
   4. *_no_error_result    : an in-range device status never escapes a handler
                             (group (a): unconditional; group (b): only out of a pending
                             reconnection's bring-up -- see the counterexamples in 6)
   5. ok_only_from_success : codes 0 / 1 only come from device-reported success
   5b.                       OK_TOTAL / OK_PARTIAL only leave the block operations with True
   6. named causes (table level), non-vacuity examples, counterexamples
   All facts about generated tables are closed boolean checks run by vm_compute. *)
From PowHsm Require Import Model.LedgerProtocol.
From Coq Require Import ZifyBool ZifyNat ZifyN Lia.
Local Open Scope Z_scope.

(* ================================================================== *)
(* 1. range logic                                                      *)
(* ================================================================== *)

Definition ok_range {A} (P : A -> Prop) (m : M A) : Prop :=
  forall w a w', m w = (Ok a, w') -> P a.

Lemma ok_range_mono {A} (P Q : A -> Prop) (m : M A) :
  ok_range P m -> (forall a, P a -> Q a) -> ok_range Q m.
Proof. intros H HPQ w a w' E. eauto. Qed.

Lemma ok_range_ret {A} (P : A -> Prop) a : P a -> ok_range P (ret a).
Proof. intros H w b w' E. unfold ret in E. inversion E; subst; exact H. Qed.

Lemma ok_range_raise {A} (P : A -> Prop) e : ok_range P (raise e).
Proof. intros w b w' E. discriminate E. Qed.

(* only the continuation matters *)
Lemma ok_range_bind {A B} (P : B -> Prop) (m : M A) (f : A -> M B) :
  (forall a, ok_range P (f a)) -> ok_range P (bind m f).
Proof.
  intros H w b w' E. unfold bind in E.
  destruct (m w) as [[a|e] w1]; [eapply H; eauto|discriminate].
Qed.

Lemma ok_range_bind_strong {A B} (Q : A -> Prop) (P : B -> Prop) (m : M A) (f : A -> M B) :
  ok_range Q m -> (forall a, Q a -> ok_range P (f a)) -> ok_range P (bind m f).
Proof.
  intros Hm H w b w' E. unfold bind in E.
  destruct (m w) as [[a|e] w1] eqn:Em; [|discriminate].
  eapply H; [eapply Hm; eauto|eauto].
Qed.

Lemma ok_range_try_catch {A} (P : A -> Prop) (m : M A) h :
  ok_range P m -> (forall e k, h e = Some k -> ok_range P k) -> ok_range P (try_catch m h).
Proof.
  intros Hm Hh w a w' E. unfold try_catch in E.
  destruct (m w) as [[x|e] w1] eqn:Em.
  - inversion E; subst. eapply Hm; eauto.
  - destruct (h e) as [k|] eqn:Eh; [eapply Hh; eauto|discriminate].
Qed.

Lemma ok_range_of_opt {A} (P : A -> Prop) (o : option A) e :
  (forall a, o = Some a -> P a) -> ok_range P (of_opt o e).
Proof. intros H. destruct o; [apply ok_range_ret; auto|apply ok_range_raise]. Qed.

Lemma ok_range_if {A} (P : A -> Prop) (b : bool) (m1 m2 : M A) :
  ok_range P m1 -> ok_range P m2 -> ok_range P (if b then m1 else m2).
Proof. destruct b; auto. Qed.

Lemma ok_range_match_opt {A B} (P : B -> Prop) (o : option A) (f : A -> M B) (n : M B) :
  (forall a, ok_range P (f a)) -> ok_range P n ->
  ok_range P (match o with Some a => f a | None => n end).
Proof. destruct o; auto. Qed.

Lemma ok_range_match_sum {A B C} (P : C -> Prop) (x : A + B) (f : A -> M C) (g : B -> M C) :
  (forall a, ok_range P (f a)) -> (forall b, ok_range P (g b)) ->
  ok_range P (match x with inl a => f a | inr b => g b end).
Proof. destruct x; auto. Qed.

Lemma ok_range_true {A} (m : M A) : ok_range (fun _ => True) m.
Proof. intros w a w' _. exact I. Qed.

Lemma ok_range_and {A} (P Q : A -> Prop) (m : M A) :
  ok_range P m -> ok_range Q m -> ok_range (fun a => P a /\ Q a) m.
Proof. intros H1 H2 w a w' E. split; eauto. Qed.

(* the same for the exceptions that can come out *)
Definition exn_range {A} (Q : exn -> Prop) (m : M A) : Prop :=
  forall w e w', m w = (Exn e, w') -> Q e.

Lemma exn_range_mono {A} (P Q : exn -> Prop) (m : M A) :
  exn_range P m -> (forall e, P e -> Q e) -> exn_range Q m.
Proof. intros H HPQ w e w' E. eauto. Qed.

Lemma exn_range_ret {A} Q (a : A) : exn_range Q (ret a).
Proof. intros w e w' E. discriminate E. Qed.

Lemma exn_range_raise {A} (Q : exn -> Prop) e : Q e -> exn_range Q (@raise A e).
Proof. intros H w e' w' E. unfold raise in E. inversion E; subst; exact H. Qed.

Lemma exn_range_bind {A B} Q (m : M A) (f : A -> M B) :
  exn_range Q m -> (forall a, exn_range Q (f a)) -> exn_range Q (bind m f).
Proof.
  intros Hm Hf w e w' E. unfold bind in E.
  destruct (m w) as [[a|e1] w1] eqn:Em.
  - eapply Hf; eauto.
  - inversion E; subst. eapply Hm; eauto.
Qed.

Lemma exn_range_try_catch {A} (Q : exn -> Prop) (m : M A) h :
  (forall w e w', m w = (Exn e, w') -> h e = None -> Q e) ->
  (forall e k, h e = Some k -> exn_range Q k) ->
  exn_range Q (try_catch m h).
Proof.
  intros Hm Hh w e w' E. unfold try_catch in E.
  destruct (m w) as [[x|e1] w1] eqn:Em; [discriminate|].
  destruct (h e1) as [k|] eqn:Eh.
  - eapply Hh; eauto.
  - inversion E; subst. eapply Hm; eauto.
Qed.

Lemma exn_range_of_opt {A} (Q : exn -> Prop) (o : option A) e :
  Q (Py e) -> exn_range Q (of_opt o e).
Proof. intros H. destruct o; [apply exn_range_ret|apply exn_range_raise; exact H]. Qed.

(* ---------- closed list inclusion, decided by computation ---------- *)

Lemma mem_Z_In c l : mem_Z c l = true -> In c l.
Proof.
  induction l as [|y l IH]; cbn [mem_Z]; [discriminate|].
  intro H. apply orb_true_iff in H. destruct H as [H|H].
  - left. symmetry. apply Z.eqb_eq. exact H.
  - right. auto.
Qed.

Lemma In_mem_Z c l : In c l -> mem_Z c l = true.
Proof.
  induction l as [|y l IH]; cbn [mem_Z In]; [tauto|].
  intros [->|H]; apply orb_true_iff; [left; apply Z.eqb_refl|right; auto].
Qed.

Definition incl_b (l1 l2 : list Z) : bool := forallb (fun c => mem_Z c l2) l1.

Lemma incl_b_sound l1 l2 : incl_b l1 l2 = true -> forall c, In c l1 -> In c l2.
Proof.
  unfold incl_b. intros H c Hc. rewrite forallb_forall in H. apply mem_Z_In. auto.
Qed.

Definition code_in {A} (L : list Z) : Z * A -> Prop := fun r => In (fst r) L.

Lemma ok_range_incl {A} (L1 L2 : list Z) (m : M (Z * A)) :
  ok_range (code_in L1) m -> incl_b L1 L2 = true -> ok_range (code_in L2) m.
Proof.
  intros H Hi. eapply ok_range_mono; [exact H|].
  intros a Ha. unfold code_in in *. eapply incl_b_sound; eauto.
Qed.

Ltac in_closed := apply mem_Z_In; vm_compute; reflexivity.
Ltac incl_closed := vm_compute; reflexivity.

(* structural walk over a monadic term: only the final `ret`s are left as goals *)
Ltac rng_step :=
  lazymatch goal with
  | |- ok_range _ (bind _ _) => apply ok_range_bind; intro
  | |- ok_range _ (ret _) => apply ok_range_ret
  | |- ok_range _ (raise _) => apply ok_range_raise
  | |- ok_range _ (of_opt _ _) => apply ok_range_of_opt; intros
  | |- ok_range _ (if ?b then _ else _) => destruct b
  | |- ok_range _ (match ?x with _ => _ end) => destruct x
  end.
Ltac rng := repeat rng_step.

(* ================================================================== *)
(* 2. the codes of an except-ladder                                    *)
(* ================================================================== *)

Fixpoint ladder_codes (lad : ladder) : list Z :=
  match lad with
  | [] => []
  | (_, _, act) :: rest =>
      match act with LadCode c => [c] | LadError => [] | LadPass => [0] end ++ ladder_codes rest
  end.

Lemma apply_ladder_range lad e k :
  apply_ladder lad e = Some k -> ok_range (code_in (ladder_codes lad)) k.
Proof.
  induction lad as [|[[cs flag] act] rest IH]; cbn [apply_ladder ladder_codes]; [discriminate|].
  destruct (exn_matches e cs).
  - intro H. inversion H; subst k. apply ok_range_bind. intros _.
    destruct act.
    + apply ok_range_ret. left. reflexivity.
    + apply ok_range_raise.
    + apply ok_range_ret. left. reflexivity.
  - intro H. eapply ok_range_mono; [apply IH; exact H|].
    intros a Ha. unfold code_in in *. apply in_or_app. right. exact Ha.
Qed.

Lemma with_ladder_range lad body L :
  ok_range (code_in L) body ->
  ok_range (code_in (L ++ ladder_codes lad)) (with_ladder lad body).
Proof.
  intro H. unfold with_ladder. apply ok_range_try_catch.
  - eapply ok_range_mono; [exact H|]. intros a Ha. apply in_or_app. left. exact Ha.
  - intros e k Hk. eapply ok_range_mono; [eapply apply_ladder_range; exact Hk|].
    intros a Ha. apply in_or_app. right. exact Ha.
Qed.

(* ---------- translation tables ---------- *)

Definition cand_lookup (T : list (Z * Z)) (D : Z) : list Z := D :: map snd T.

Lemma assoc_Z_in k (T : list (Z * Z)) v : assoc_Z k T = Some v -> In (k, v) T.
Proof.
  induction T as [|[k' v'] T IH]; cbn [assoc_Z]; [discriminate|].
  destruct (Z.eqb_spec k k') as [->|Hn].
  - intro H. inversion H; subst. left. reflexivity.
  - intro H. right. auto.
Qed.

Lemma lookup_Z_in k T D : In (lookup_Z k T D) (cand_lookup T D).
Proof.
  unfold lookup_Z, cand_lookup. destruct (assoc_Z k T) as [v|] eqn:E.
  - right. apply assoc_Z_in in E. change v with (snd (k, v)). apply in_map. exact E.
  - left. reflexivity.
Qed.

(* the translated code decides the key, when only listed keys map there (closed check) *)
Definition only_key (T : list (Z * Z)) (D : Z) (key v : Z) : bool :=
  negb (D =? v) && forallb (fun kv => negb (snd kv =? v) || (fst kv =? key)) T.

Lemma lookup_Z_only_key T D key v k :
  only_key T D key v = true -> lookup_Z k T D = v -> k = key.
Proof.
  unfold only_key, lookup_Z. intros H E. apply andb_true_iff in H. destruct H as [HD HT].
  destruct (assoc_Z k T) as [x|] eqn:Ea.
  - subst x. apply assoc_Z_in in Ea. rewrite forallb_forall in HT.
    specialize (HT _ Ea). cbn [fst snd] in HT. lia.
  - lia.
Qed.

(* ---------- validators used inside the sign handler ---------- *)

Lemma if3 {A} (b1 b2 b3 : bool) (x y : A) :
  (if b1 then x else if b2 then x else if b3 then x else y) = x \/
  (if b1 then x else if b2 then x else if b3 then x else y) = y.
Proof. destruct b1, b2, b3; auto. Qed.

Lemma validate_message_range c req k :
  validate_message c req k = 0 \/ validate_message c req k = c_invalid_message c.
Proof.
  unfold validate_message. destruct (jget (s "message") req) as [[]|]; auto. apply if3.
Qed.

Lemma validate_auth_range c req b :
  validate_auth c req b = 0 \/ validate_auth c req b = c_invalid_auth c.
Proof.
  unfold validate_auth.
  repeat match goal with
         | |- context [match ?x with _ => _ end] => destruct x
         end; auto.
Qed.

Lemma validate_key_id_range c req :
  validate_key_id c req = 0 \/ validate_key_id c req = c_invalid_keyid c.
Proof.
  unfold validate_key_id.
  repeat match goal with
         | |- context [match ?x with _ => _ end] => destruct x
         end; auto.
Qed.

(* ================================================================== *)
(* 3. every handler answers documented codes only                      *)
(* ================================================================== *)

Definition doc_allowed (cmd : str) : list Z :=
  match assoc_str cmd DOC_CODES with Some l => l | None => [] end ++ DOC_GENERIC.

Section Handlers.
Variable keccak : bytes -> bytes.
Variable kind : dongle_kind.

(* candidate sets: what the structure of each handler can produce *)
Definition cand_sign_tr : list Z := 0 :: cand_lookup TR_SIGN_V5 TR_SIGN_V5_DEFAULT.

Lemma finish_sign_in r : In (fst (finish_sign V5 r)) cand_sign_tr.
Proof.
  destruct r as [rs|c]; cbn [finish_sign fst].
  - left. reflexivity.
  - right. apply lookup_Z_in.
Qed.

Lemma with_ladder_sign_range lad body :
  ok_range (code_in (cand_sign_tr ++ ladder_codes lad)) (with_ladder_sign V5 lad body).
Proof.
  unfold with_ladder_sign. apply ok_range_try_catch.
  - apply ok_range_bind. intro r. apply ok_range_ret. apply in_or_app. left. apply finish_sign_in.
  - intros e k Hk. eapply ok_range_mono; [eapply apply_ladder_range; exact Hk|].
    intros a Ha. apply in_or_app. right. exact Ha.
Qed.

Definition cand_get_pubkey : list Z := [0] ++ ladder_codes LADDER_V5_get_pubkey.
Definition cand_sign : list Z :=
  [0; c_invalid_message (codes_of V5); c_invalid_auth (codes_of V5)]
  ++ (cand_sign_tr ++ ladder_codes LADDER_V5_sign_unauth)
  ++ (cand_sign_tr ++ ladder_codes LADDER_V5_sign_auth).
Definition cand_blockchain_state : list Z := [0] ++ ladder_codes LADDER_V5_blockchain_state.
Definition cand_reset_advance : list Z := [0] ++ ladder_codes LADDER_V5_reset_advance_blockchain.
Definition cand_advance : list Z :=
  cand_lookup TR_ADV TR_ADV_DEFAULT ++ ladder_codes LADDER_V5_advance_blockchain.
Definition cand_update : list Z :=
  cand_lookup TR_UPD TR_UPD_DEFAULT ++ ladder_codes LADDER_V5_update_ancestor_block.
Definition cand_parameters : list Z := [0] ++ ladder_codes LADDER_V5_get_blockchain_parameters.
Definition cand_signer_hb : list Z :=
  [0; c_device (codes_of V5)] ++ ladder_codes LADDER_V5_signer_heartbeat.
Definition cand_ui_hb : list Z :=
  [0; c_device (codes_of V5)] ++ ladder_codes LADDER_V5_ui_heartbeat.

Lemma get_pubkey_cand req : ok_range (code_in cand_get_pubkey) (op_get_pubkey kind V5 req).
Proof.
  unfold op_get_pubkey, cand_get_pubkey. apply with_ladder_range. rng. in_closed.
Qed.

Lemma sign_cand req : ok_range (code_in cand_sign) (op_sign_v5 kind req).
Proof.
  unfold op_sign_v5. cbv zeta.
  match goal with |- ok_range _ (if ?b then _ else _) => destruct b end.
  - match goal with |- ok_range _ (if ?b then _ else _) => destruct b end.
    + apply ok_range_ret. unfold code_in. cbn [fst].
      destruct (validate_message_range (codes_of V5) req WHash) as [-> | ->]; in_closed.
    + eapply ok_range_incl; [apply with_ladder_sign_range|incl_closed].
  - match goal with |- ok_range _ (if ?b then _ else _) => destruct b end.
    { apply ok_range_ret. unfold code_in. cbn [fst].
      destruct (validate_auth_range (codes_of V5) req true) as [-> | ->]; in_closed. }
    match goal with |- ok_range _ (if ?b then _ else _) => destruct b end.
    { apply ok_range_ret. unfold code_in. cbn [fst].
      destruct (validate_message_range (codes_of V5) req WTx) as [-> | ->]; in_closed. }
    apply ok_range_bind; intro msg. apply ok_range_bind; intro txraw.
    destruct (unsign_tx txraw) as [utx|]; [|apply ok_range_ret; in_closed].
    destruct (deserialize_tx utx); [|apply ok_range_ret; in_closed].
    eapply ok_range_incl; [apply with_ladder_sign_range|incl_closed].
Qed.

Lemma blockchain_state_cand req :
  ok_range (code_in cand_blockchain_state) (op_blockchain_state kind req).
Proof.
  unfold op_blockchain_state, cand_blockchain_state. apply with_ladder_range. rng. in_closed.
Qed.

Lemma reset_advance_cand req :
  ok_range (code_in cand_reset_advance) (op_reset_advance kind req).
Proof.
  unfold op_reset_advance, cand_reset_advance. apply with_ladder_range. rng. in_closed.
Qed.

Lemma advance_cand req : ok_range (code_in cand_advance) (op_advance keccak kind req).
Proof.
  unfold op_advance, cand_advance. apply with_ladder_range. rng.
  unfold code_in. cbn [fst]. apply lookup_Z_in.
Qed.

Lemma update_cand req : ok_range (code_in cand_update) (op_update_ancestor kind req).
Proof.
  unfold op_update_ancestor, cand_update. apply with_ladder_range. rng.
  unfold code_in. cbn [fst]. apply lookup_Z_in.
Qed.

Lemma parameters_cand req : ok_range (code_in cand_parameters) (op_parameters kind req).
Proof.
  unfold op_parameters, cand_parameters. apply with_ladder_range. rng. in_closed.
Qed.

Lemma hb_reply_in h : In (fst (hb_reply (codes_of V5) h)) [0; c_device (codes_of V5)].
Proof. destruct h; in_closed. Qed.

Lemma signer_hb_cand req : ok_range (code_in cand_signer_hb) (op_signer_heartbeat kind req).
Proof.
  unfold op_signer_heartbeat, cand_signer_hb. apply with_ladder_range. rng. apply hb_reply_in.
Qed.

Lemma ui_hb_cand req : ok_range (code_in cand_ui_hb) (op_ui_heartbeat kind req).
Proof.
  unfold op_ui_heartbeat, cand_ui_hb. cbv zeta. apply with_ladder_range.
  rng; try apply hb_reply_in; in_closed.
Qed.

End Handlers.

(* ---------- code_documented, per command ---------- *)
Section Documented.
Variable keccak : bytes -> bytes.
Variable kind : dongle_kind.

Definition documented_for (cmd : str) (m : M rtuple) : Prop :=
  ok_range (code_in (doc_allowed cmd)) m.

Theorem version_documented :
  documented_for CMDNAME_VERSION_COMMAND
    (ret (0, Some [(KEY_VERSION, JInt (c_version (codes_of V5)))])).
Proof. apply ok_range_ret. in_closed. Qed.

Theorem get_pubkey_documented req :
  documented_for CMDNAME_GETPUBKEY_COMMAND (op_get_pubkey kind V5 req).
Proof. eapply ok_range_incl; [apply get_pubkey_cand|incl_closed]. Qed.

Theorem sign_documented req :
  documented_for CMDNAME_SIGN_COMMAND (op_sign_v5 kind req).
Proof. eapply ok_range_incl; [apply sign_cand|incl_closed]. Qed.

Theorem blockchain_state_documented req :
  documented_for CMDNAME_BLOCKCHAIN_STATE_COMMAND (op_blockchain_state kind req).
Proof. eapply ok_range_incl; [apply blockchain_state_cand|incl_closed]. Qed.

Theorem reset_advance_documented req :
  documented_for CMDNAME_RESET_ADVANCE_BLOCKCHAIN_COMMAND (op_reset_advance kind req).
Proof. eapply ok_range_incl; [apply reset_advance_cand|incl_closed]. Qed.

Theorem advance_documented req :
  documented_for CMDNAME_ADVANCE_BLOCKCHAIN_COMMAND (op_advance keccak kind req).
Proof. eapply ok_range_incl; [apply advance_cand|incl_closed]. Qed.

Theorem update_ancestor_documented req :
  documented_for CMDNAME_UPDATE_ANCESTOR_BLOCK_COMMAND (op_update_ancestor kind req).
Proof. eapply ok_range_incl; [apply update_cand|incl_closed]. Qed.

Theorem parameters_documented req :
  documented_for CMDNAME_GET_BLOCKCHAIN_PARAMETERS (op_parameters kind req).
Proof. eapply ok_range_incl; [apply parameters_cand|incl_closed]. Qed.

Theorem signer_heartbeat_documented req :
  documented_for CMDNAME_SIGNER_HEARTBEAT (op_signer_heartbeat kind req).
Proof. eapply ok_range_incl; [apply signer_hb_cand|incl_closed]. Qed.

Theorem ui_heartbeat_documented req :
  documented_for CMDNAME_UI_HEARTBEAT (op_ui_heartbeat kind req).
Proof. eapply ok_range_incl; [apply ui_hb_cand|incl_closed]. Qed.

End Documented.

(* ---------- the request gate and handle_request ---------- *)

Lemma str_eqb_sym (a b : str) : str_eqb a b = str_eqb b a.
Proof.
  unfold str_eqb. revert b. induction a as [|x a IH]; destruct b as [|y b]; cbn [list_eqb]; auto.
  rewrite IH, N.eqb_sym. reflexivity.
Qed.

Lemma str_eqb_refl (a : str) : str_eqb a a = true.
Proof.
  unfold str_eqb. induction a as [|x a IH]; cbn [list_eqb]; auto.
  rewrite N.eqb_refl, IH. reflexivity.
Qed.

Lemma str_eqb_eq (a b : str) : str_eqb a b = true -> a = b.
Proof.
  unfold str_eqb. revert b. induction a as [|x a IH]; destruct b as [|y b]; cbn [list_eqb];
    try discriminate; auto.
  intro H. apply andb_true_iff in H. destruct H as [H1 H2].
  apply N.eqb_eq in H1. subst y. f_equal. auto.
Qed.

Lemma str_in_In x l : str_in x l = true -> In x l.
Proof.
  unfold str_in. intro H. apply existsb_exists in H. destruct H as [y [Hy E]].
  apply str_eqb_eq in E. subst y. exact Hy.
Qed.

Lemma jget_errorcode_only code : jget KEY_ERRORCODE [(KEY_ERRORCODE, JInt code)] = Some (JInt code).
Proof. unfold jget. cbn [assoc_str]. rewrite str_eqb_refl. reflexivity. Qed.

Lemma jget_after_filter k (fields : list (str * json)) v :
  jget k (filter (fun kv => negb (str_eqb (fst kv) k)) fields ++ [(k, v)]) = Some v.
Proof.
  unfold jget. induction fields as [|[k0 v0] fields IH]; cbn [filter app assoc_str fst].
  - rewrite str_eqb_refl. reflexivity.
  - destruct (str_eqb k0 k) eqn:E; cbn [negb]; [exact IH|].
    cbn [app assoc_str]. rewrite str_eqb_sym, E. exact IH.
Qed.

(* the validators' answers *)
Lemma validate_sign_v5_in c req :
  In (validate_sign_v5 c req) [0; c_invalid_keyid c; c_invalid_auth c; c_invalid_message c].
Proof.
  unfold validate_sign_v5.
  destruct (validate_key_id c req <? 0).
  { destruct (validate_key_id_range c req) as [-> | ->]; cbn [In]; auto. }
  destruct (validate_auth c req false <? 0).
  { destruct (validate_auth_range c req false) as [-> | ->]; cbn [In]; auto. }
  destruct (validate_message_range c req WAny) as [-> | ->]; cbn [In]; auto.
Qed.

Lemma validate_key_id_in c req : In (validate_key_id c req) [0; c_invalid_keyid c].
Proof. destruct (validate_key_id_range c req) as [-> | ->]; cbn [In]; auto. Qed.

Lemma validate_advance_in c req :
  In (validate_advance_blockchain c req) [0; c_input_blocks c; c_brothers c].
Proof.
  unfold validate_advance_blockchain.
  repeat match goal with
         | |- context [match ?x with _ => _ end] => destruct x
         end; cbn [In]; auto.
Qed.

Lemma validate_update_in c req :
  In (validate_update_ancestor_block c req) [0; c_input_blocks c].
Proof.
  unfold validate_update_ancestor_block.
  repeat match goal with
         | |- context [match ?x with _ => _ end] => destruct x
         end; cbn [In]; auto.
Qed.

Lemma validate_heartbeat_in c req n : In (validate_heartbeat c req n) [0; c_hb_ud c].
Proof.
  unfold validate_heartbeat.
  repeat match goal with
         | |- context [match ?x with _ => _ end] => destruct x
         end; cbn [In]; auto.
Qed.

(* evaluate every comparison of closed strings inside hypothesis H *)
Ltac eval_str_eqb_in H :=
  repeat match type of H with
         | context [str_eqb ?a ?b] =>
             let v := eval vm_compute in (str_eqb a b) in
             change (str_eqb a b) with v in H
         end;
  cbv beta iota zeta in H.

Definition validator_ok (cmd : str) : Prop :=
  forall vn req v,
    validator_name V5 cmd = Some vn -> run_validator V5 vn req = Some v -> In v (doc_allowed cmd).

Lemma validators_ok : Forall validator_ok KNOWN_COMMANDS_V5.
Proof.
  unfold KNOWN_COMMANDS_V5.
  repeat (apply Forall_cons; [|]); [..|apply Forall_nil]; intros vn req v Hn Hr;
    vm_compute in Hn; inversion Hn; subst vn; clear Hn;
    unfold run_validator in Hr; cbv zeta in Hr; eval_str_eqb_in Hr;
    inversion Hr; subst v; clear Hr;
    lazymatch goal with
    | |- In (validate_sign_v5 _ _) _ =>
        refine (incl_b_sound _ _ _ _ (validate_sign_v5_in _ _)); incl_closed
    | |- In (validate_key_id _ _) _ =>
        refine (incl_b_sound _ _ _ _ (validate_key_id_in _ _)); incl_closed
    | |- In (validate_advance_blockchain _ _) _ =>
        refine (incl_b_sound _ _ _ _ (validate_advance_in _ _)); incl_closed
    | |- In (validate_update_ancestor_block _ _) _ =>
        refine (incl_b_sound _ _ _ _ (validate_update_in _ _)); incl_closed
    | |- In (validate_heartbeat _ _ _) _ =>
        refine (incl_b_sound _ _ _ _ (validate_heartbeat_in _ _ _)); incl_closed
    | |- In 0 _ => in_closed
    end.
Qed.

(* the codes the gate itself answers with are generic ones (closed checks) *)
Lemma gate_generic_codes :
  incl_b [c_invalid_request (codes_of V5); c_wrong_version (codes_of V5);
          c_unknown_cmd (codes_of V5); c_format (codes_of V5)] DOC_GENERIC = true.
Proof. incl_closed. Qed.

Lemma gate_unhashable_generic :
  match GATE_UNHASHABLE_COMMAND_V5 with Some c => mem_Z c DOC_GENERIC | None => true end = true.
Proof. vm_compute. reflexivity. Qed.

Definition names_command (request : json) (req : obj) (cmd : str) : Prop :=
  request = JObj req /\ jget KEY_COMMAND req = Some (JStr cmd) /\ In cmd KNOWN_COMMANDS_V5.

Lemma gate_accept request cmd req :
  gate_request V5 request = GAccept cmd req -> names_command request req cmd.
Proof.
  unfold gate_request, names_command.
  destruct request as [| | | | |l|kv]; try discriminate.
  destruct (jget KEY_COMMAND kv) as [command|] eqn:Ec; [|discriminate].
  match goal with |- (if ?b then _ else _) = _ -> _ => destruct b end; [discriminate|].
  match goal with |- (if ?b then _ else _) = _ -> _ => destruct b end; [discriminate|].
  match goal with |- (if ?b then _ else _) = _ -> _ => destruct b end.
  { destruct GATE_UNHASHABLE_COMMAND_V5; discriminate. }
  destruct command as [|b0|z0|f0|x|l0|kv0]; try discriminate.
  destruct (str_in x (known_commands V5)) eqn:Ek; cbn [negb]; [|discriminate].
  destruct (validator_name V5 x) as [vn|]; [|discriminate].
  destruct (run_validator V5 vn kv) as [v|]; [|discriminate].
  destruct (v <? 0); [discriminate|].
  intro H. inversion H; subst. split; [reflexivity|]. split; [exact Ec|].
  apply str_in_In. exact Ek.
Qed.

Lemma gate_reject request c :
  gate_request V5 request = GReject c ->
  In c DOC_GENERIC \/
  exists req cmd, names_command request req cmd /\ In c (doc_allowed cmd).
Proof.
  pose proof (incl_b_sound _ _ gate_generic_codes) as G.
  assert (G1 : In (c_invalid_request (codes_of V5)) DOC_GENERIC) by (apply G; cbn [In]; auto).
  assert (G2 : In (c_wrong_version (codes_of V5)) DOC_GENERIC) by (apply G; cbn [In]; auto).
  assert (G3 : In (c_unknown_cmd (codes_of V5)) DOC_GENERIC) by (apply G; cbn [In]; auto).
  assert (G4 : In (c_format (codes_of V5)) DOC_GENERIC) by (apply G; cbn [In]; auto 6).
  clear G.
  unfold gate_request.
  destruct request as [| | | | |l|kv];
    try (intro H; inversion H; subst; left; exact G4).
  destruct (jget KEY_COMMAND kv) as [command|] eqn:Ec;
    [|intro H; inversion H; subst; left; exact G1].
  match goal with |- (if ?b then _ else _) = _ -> _ => destruct b end;
    [intro H; inversion H; subst; left; exact G1|].
  match goal with |- (if ?b then _ else _) = _ -> _ => destruct b end;
    [intro H; inversion H; subst; left; exact G2|].
  match goal with |- (if ?b then _ else _) = _ -> _ => destruct b end.
  { pose proof gate_unhashable_generic as U.
    destruct GATE_UNHASHABLE_COMMAND_V5; [|discriminate].
    intro H; inversion H; subst. left. apply mem_Z_In. exact U. }
  destruct command as [|b0|z0|f0|x|l0|kv0]; try (intro H; inversion H; subst; left; exact G3).
  destruct (str_in x (known_commands V5)) eqn:Ek; cbn [negb];
    [|intro H; inversion H; subst; left; exact G3].
  destruct (validator_name V5 x) as [vn|] eqn:Ev; [|discriminate].
  destruct (run_validator V5 vn kv) as [v|] eqn:Er; [|discriminate].
  destruct (v <? 0); [|discriminate].
  intro H. inversion H; subst. right. exists kv, x.
  apply str_in_In in Ek. change (known_commands V5) with KNOWN_COMMANDS_V5 in Ek.
  split; [repeat split; auto|].
  pose proof validators_ok as VO. rewrite Forall_forall in VO.
  eapply VO; eauto.
Qed.

Section Lift.
Variable keccak : bytes -> bytes.
Variable kind : dongle_kind.

Definition dispatch_ok (cmd : str) : Prop :=
  forall opname req op,
    assoc_str cmd DISPATCH_V5 = Some opname ->
    run_operation keccak kind V5 opname req = Some op ->
    documented_for cmd op.

Lemma dispatch_all_ok : Forall dispatch_ok KNOWN_COMMANDS_V5.
Proof.
  unfold KNOWN_COMMANDS_V5.
  repeat (apply Forall_cons; [|]); [..|apply Forall_nil]; intros opname req op Hn Hr;
    vm_compute in Hn; inversion Hn; subst opname; clear Hn;
    unfold run_operation in Hr; cbv beta zeta in Hr; eval_str_eqb_in Hr;
    inversion Hr; subst op; clear Hr;
    lazymatch goal with
    | |- documented_for _ (ret _) => apply version_documented
    | |- documented_for _ (op_get_pubkey _ _ _) => apply get_pubkey_documented
    | |- documented_for _ (op_sign_v5 _ _) => apply sign_documented
    | |- documented_for _ (op_blockchain_state _ _) => apply blockchain_state_documented
    | |- documented_for _ (op_reset_advance _ _) => apply reset_advance_documented
    | |- documented_for _ (op_advance _ _ _) => apply advance_documented
    | |- documented_for _ (op_update_ancestor _ _) => apply update_ancestor_documented
    | |- documented_for _ (op_parameters _ _) => apply parameters_documented
    | |- documented_for _ (op_signer_heartbeat _ _) => apply signer_heartbeat_documented
    | |- documented_for _ (op_ui_heartbeat _ _) => apply ui_heartbeat_documented
    end.
Qed.

(* Every reply handle_request produces is a dict whose errorcode is a generic (9xx) code or a
   code documented for the very command the request names. *)
Theorem handle_request_documented request w j w' :
  handle_request keccak kind V5 request w = (Ok j, w') ->
  exists kv c,
    j = JObj kv /\ jget KEY_ERRORCODE kv = Some (JInt c) /\
    (In c DOC_GENERIC \/
     exists req cmd, names_command request req cmd /\ In c (doc_allowed cmd)).
Proof.
  unfold handle_request.
  destruct (gate_request V5 request) as [code|e|cmd req] eqn:G.
  - intro H. unfold ret in H. inversion H; subst.
    eexists _, code. split; [reflexivity|]. split; [apply jget_errorcode_only|].
    apply gate_reject. exact G.
  - discriminate.
  - apply gate_accept in G.
    destruct (assoc_str cmd DISPATCH_V5) as [opname|] eqn:Ed; [|discriminate].
    destruct (run_operation keccak kind V5 opname req) as [op|] eqn:Eo; [|discriminate].
    assert (Hdoc : documented_for cmd op).
    { pose proof dispatch_all_ok as DO. rewrite Forall_forall in DO.
      destruct G as [_ [_ Hin]]. eapply DO; eauto. }
    unfold bind. destruct (op w) as [[[code out]|e] w1] eqn:Eop; [|discriminate].
    apply Hdoc in Eop. unfold code_in in Eop. cbn [fst] in Eop.
    assert (R : In code DOC_GENERIC \/
                exists req0 cmd0, names_command request req0 cmd0 /\ In code (doc_allowed cmd0))
      by (right; eauto).
    destruct (code <? 0).
    + intro H. unfold ret in H. inversion H; subst.
      eexists _, code. split; [reflexivity|]. split; [apply jget_errorcode_only|exact R].
    + destruct out as [fields|]; [|discriminate].
      intro H. unfold ret in H. inversion H; subst.
      eexists _, code. split; [reflexivity|]. split; [apply jget_after_filter|exact R].
Qed.

Definition all_documented_codes : list Z := concat (map snd DOC_CODES) ++ DOC_GENERIC.

Lemma assoc_str_in {B} k (l : list (str * B)) v : assoc_str k l = Some v -> In v (map snd l).
Proof.
  induction l as [|[k' v'] l IH]; cbn [assoc_str map snd]; [discriminate|].
  destruct (str_eqb k k'); intro H; [inversion H; subst; left; reflexivity|right; auto].
Qed.

Lemma doc_allowed_all cmd c : In c (doc_allowed cmd) -> In c all_documented_codes.
Proof.
  unfold doc_allowed, all_documented_codes. intro H. apply in_app_or in H.
  apply in_or_app. destruct H as [H|H]; [left|right; exact H].
  destruct (assoc_str cmd DOC_CODES) as [l|] eqn:E; [|destruct H].
  apply in_concat. exists l. split; [eapply assoc_str_in; eauto|exact H].
Qed.

Corollary handle_request_all_documented request w kv w' :
  handle_request keccak kind V5 request w = (Ok (JObj kv), w') ->
  exists c, jget KEY_ERRORCODE kv = Some (JInt c) /\ In c all_documented_codes.
Proof.
  intro H. apply handle_request_documented in H.
  destruct H as [kv' [c [E [Hj Hc]]]]. inversion E; subst kv'. exists c. split; [exact Hj|].
  destruct Hc as [Hc|[req [cmd [_ Hc]]]].
  - unfold all_documented_codes. apply in_or_app. right. exact Hc.
  - eapply doc_allowed_all; eauto.
Qed.

End Lift.

(* ================================================================== *)
(* 4. an in-range device status never escapes a command handler        *)
(* ================================================================== *)

Definition not_er (e : exn) : Prop := match e with ErrorResult _ => False | _ => True end.

(* isinstance by class id: exn_isa only looks at the class *)
Definition class_isa (k c : N) : bool :=
  match assoc_N k EXC_ISA with
  | Some supers => mem_N c supers
  | None => ((c =? k) || (c =? EXC_Exception) || (c =? EXC_BaseException))%N
  end.

Lemma exn_isa_class e c : exn_isa e c = class_isa (exn_class e) c.
Proof. reflexivity. Qed.

(* the first entry matching class k answers with a code (does not re-raise) *)
Fixpoint ladder_catches_nonraising (lad : ladder) (k : N) : bool :=
  match lad with
  | [] => false
  | (cs, _, act) :: rest =>
      if existsb (class_isa k) cs
      then match act with LadError => false | _ => true end
      else ladder_catches_nonraising rest k
  end.

Lemma ladder_catches_sound lad e :
  ladder_catches_nonraising lad (exn_class e) = true -> apply_ladder lad e <> None.
Proof.
  induction lad as [|[[cs flag] act] rest IH]; cbn [ladder_catches_nonraising apply_ladder];
    [discriminate|].
  unfold exn_matches.
  change (existsb (exn_isa e) cs) with (existsb (class_isa (exn_class e)) cs).
  destruct (existsb (class_isa (exn_class e)) cs); [discriminate|exact IH].
Qed.

(* whatever a ladder entry does, the only exception it can raise is ProtocolError *)
Lemma apply_ladder_exn lad e k :
  apply_ladder lad e = Some k -> exn_range (fun x => x = ProtocolError) k.
Proof.
  induction lad as [|[[cs flag] act] rest IH]; cbn [apply_ladder]; [discriminate|].
  destruct (exn_matches e cs); [|exact IH].
  intro H. inversion H; subst k. apply exn_range_bind.
  - destruct flag; intros w x w' E; discriminate E.
  - intros _. destruct act;
      [apply exn_range_ret|apply exn_range_raise; reflexivity|apply exn_range_ret].
Qed.

Lemma with_ladder_exn lad body w e w' :
  with_ladder lad body w = (Exn e, w') ->
  e = ProtocolError \/ (apply_ladder lad e = None /\ body w = (Exn e, w')).
Proof.
  unfold with_ladder, try_catch.
  destruct (body w) as [[a|e1] w1]; [discriminate|].
  destruct (apply_ladder lad e1) as [k|] eqn:Ek.
  - intro H. left. eapply apply_ladder_exn; eauto.
  - intro H. inversion H; subst. right. auto.
Qed.

Lemma with_ladder_sign_exn m lad body w e w' :
  with_ladder_sign m lad body w = (Exn e, w') ->
  e = ProtocolError \/ (apply_ladder lad e = None /\ body w = (Exn e, w')).
Proof.
  intro H. change (with_ladder_sign m lad body)
    with (with_ladder lad (r <- body ;; ret (finish_sign m r))) in H.
  apply with_ladder_exn in H. destruct H as [H|[Hn H]]; [left; exact H|right].
  split; [exact Hn|]. unfold bind in H. destruct (body w) as [[a|e1] w1]; [discriminate H|].
  inversion H; subst. reflexivity.
Qed.

(* generic: a class the ladder catches with a code cannot escape *)
Theorem with_ladder_no_escape lad body e w w' :
  ladder_catches_nonraising lad (exn_class e) = true -> e <> ProtocolError ->
  with_ladder lad body w <> (Exn e, w').
Proof.
  intros Hc Hp H. apply with_ladder_exn in H. destruct H as [H|[H _]]; [auto|].
  eapply ladder_catches_sound; eauto.
Qed.

(* ---------- bodies that handle ErrorResult themselves ---------- *)

Lemma exn_range_on_error_result {A} (m : M A) h :
  (forall sw, exn_range not_er (h sw)) -> exn_range not_er (on_error_result m h).
Proof.
  intro Hh. unfold on_error_result. apply exn_range_try_catch.
  - intros w e w' _ He. destruct e; try exact I. discriminate He.
  - intros e k Hk. destruct e; try discriminate Hk. inversion Hk; subst. apply Hh.
Qed.

Create HintDb xr.

Ltac xr_step :=
  lazymatch goal with
  | |- exn_range _ (bind _ _) => apply exn_range_bind; [|intro]
  | |- exn_range _ (ret _) => apply exn_range_ret
  | |- exn_range _ (raise _) => apply exn_range_raise; exact I
  | |- exn_range _ (of_opt _ _) => apply exn_range_of_opt; exact I
  | |- exn_range _ (idxM _ _) => apply exn_range_of_opt; exact I
  | |- exn_range _ (on_error_result _ _) => apply exn_range_on_error_result; intro
  | |- exn_range _ (if ?b then _ else _) => destruct b
  | |- exn_range _ (match ?x with _ => _ end) => destruct x
  | |- exn_range _ _ => solve [auto with xr]
  end.
Ltac xr := repeat xr_step.

Lemma xr_jstr_field o k : exn_range not_er (jstr_field o k).
Proof. unfold jstr_field. xr. Qed.
Lemma xr_jobj_field o k : exn_range not_er (jobj_field o k).
Proof. unfold jobj_field. xr. Qed.
#[export] Hint Resolve xr_jstr_field xr_jobj_field : xr.
Lemma xr_hex_field o k : exn_range not_er (hex_field o k).
Proof. unfold hex_field. xr. Qed.
Lemma xr_key_path req : exn_range not_er (key_path req).
Proof. unfold key_path. xr. Qed.
Lemma xr_str_list_field o k : exn_range not_er (str_list_field o k).
Proof. unfold str_list_field. xr. Qed.
Lemma xr_block_list j : exn_range not_er (block_list j).
Proof. unfold block_list. xr. Qed.
#[export] Hint Resolve xr_hex_field xr_key_path xr_str_list_field xr_block_list : xr.

Lemma xr_sign_unauthorized p h : exn_range not_er (sign_unauthorized p h).
Proof. unfold sign_unauthorized. xr. Qed.

Lemma xr_sign_authorized p rc pr tx i md ws ov :
  exn_range not_er (sign_authorized p rc pr tx i md ws ov).
Proof. unfold sign_authorized. xr. Qed.

Lemma xr_run_heartbeat c o1 o2 o3 o4 o5 ud :
  exn_range not_er (run_heartbeat c o1 o2 o3 o4 o5 ud).
Proof.
  unfold run_heartbeat. apply exn_range_try_catch.
  - intros w e w' _ He. destruct e; try exact I. discriminate He.
  - intros e k Hk. destruct e; try discriminate Hk. inversion Hk; subst. apply exn_range_ret.
Qed.
#[export] Hint Resolve xr_sign_unauthorized xr_sign_authorized xr_run_heartbeat : xr.

Lemma xr_send_block_header o b raw : exn_range not_er (send_block_header o b raw).
Proof. unfold send_block_header. xr. Qed.
#[export] Hint Resolve xr_send_block_header : xr.

Lemma xr_send_brothers o bros last : exn_range not_er (send_brothers o bros last).
Proof.
  revert last. induction bros as [|b rest IH]; intro last; cbn [send_brothers]; xr.
Qed.
#[export] Hint Resolve xr_send_brothers : xr.

Lemma xr_block_loop o blocks bros : exn_range not_er (block_loop o blocks bros).
Proof.
  revert bros. induction blocks as [|blk rest IH]; intro bros; cbn [block_loop]; xr.
Qed.
#[export] Hint Resolve xr_block_loop : xr.

Lemma xr_do_block_operation o blocks bros : exn_range not_er (do_block_operation o blocks bros).
Proof. unfold do_block_operation. xr. Qed.
#[export] Hint Resolve xr_do_block_operation : xr.

Lemma xr_advance_blockchain keccak blocks bros :
  exn_range not_er (advance_blockchain keccak blocks bros).
Proof. unfold advance_blockchain. xr. Qed.
Lemma xr_update_ancestor blocks : exn_range not_er (update_ancestor blocks).
Proof. unfold update_ancestor. xr. Qed.
#[export] Hint Resolve xr_advance_blockchain xr_update_ancestor : xr.

Lemma ensure_connection_idle kind w :
  comm_issue w = false -> ensure_connection kind w = (Ok tt, w).
Proof. intro H. unfold ensure_connection. rewrite H. reflexivity. Qed.

(* an ErrorResult leaving `ensure_connection ;;; rest` was raised by the reconnection itself
   when rest never raises one *)
Lemma after_ensure_er {A} kind (rest : M A) w sw w' :
  exn_range not_er rest ->
  (ensure_connection kind ;;; rest) w = (Exn (ErrorResult sw), w') ->
  ensure_connection kind w = (Exn (ErrorResult sw), w').
Proof.
  intros Hr H. unfold bind in H. destruct (ensure_connection kind w) as [[u|e] w1].
  - exfalso. exact (Hr _ _ _ H).
  - inversion H; subst. reflexivity.
Qed.

Section NoEscape.
Variable keccak : bytes -> bytes.
Variable kind : dongle_kind.

(* (a) handlers whose generated ladder catches HSM2DongleErrorResult with a code:
       unconditional, whatever the body does (including a reconnection inside it) *)
Theorem get_pubkey_no_error_result m req w sw w' :
  op_get_pubkey kind m req w <> (Exn (ErrorResult sw), w').
Proof.
  unfold op_get_pubkey. apply with_ladder_no_escape; [|discriminate].
  destruct m; vm_compute; reflexivity.
Qed.

Theorem blockchain_state_no_error_result req w sw w' :
  op_blockchain_state kind req w <> (Exn (ErrorResult sw), w').
Proof.
  unfold op_blockchain_state. apply with_ladder_no_escape; [vm_compute; reflexivity|discriminate].
Qed.

Theorem reset_advance_no_error_result req w sw w' :
  op_reset_advance kind req w <> (Exn (ErrorResult sw), w').
Proof.
  unfold op_reset_advance. apply with_ladder_no_escape; [vm_compute; reflexivity|discriminate].
Qed.

Theorem parameters_no_error_result req w sw w' :
  op_parameters kind req w <> (Exn (ErrorResult sw), w').
Proof.
  unfold op_parameters. apply with_ladder_no_escape; [vm_compute; reflexivity|discriminate].
Qed.

Theorem ui_heartbeat_no_error_result req w sw w' :
  op_ui_heartbeat kind req w <> (Exn (ErrorResult sw), w').
Proof.
  unfold op_ui_heartbeat. cbv zeta.
  apply with_ladder_no_escape; [vm_compute; reflexivity|discriminate].
Qed.

(* (b) handlers whose ladder does NOT list HSM2DongleErrorResult: the device methods they call
       convert every ErrorResult themselves, so the only ErrorResult that can leave them is one
       raised by the reconnection (ensure_connection) at their very start, in the initial world;
       in particular none when no reconnection is pending *)
Definition reconnect_leaks (w : world) (sw : N) (w' : world) : Prop :=
  ensure_connection kind w = (Exn (ErrorResult sw), w').

Lemma no_leak_when_idle w sw w' : comm_issue w = false -> ~ reconnect_leaks w sw w'.
Proof.
  intros Hc H. unfold reconnect_leaks in H. rewrite ensure_connection_idle in H by exact Hc.
  discriminate H.
Qed.

Lemma er_absurd {A} (m : M A) w sw w' :
  exn_range not_er m -> m w = (Exn (ErrorResult sw), w') -> False.
Proof. intros H E. exact (H _ _ _ E). Qed.

Theorem sign_v1_error_result_only_from_reconnect req w sw w' :
  op_sign_v1 kind req w = (Exn (ErrorResult sw), w') -> reconnect_leaks w sw w'.
Proof.
  intros H. unfold op_sign_v1 in H. apply with_ladder_sign_exn in H.
  destruct H as [H|[_ H]]; [discriminate H|].
  revert H. apply after_ensure_er. xr.
Qed.

Theorem sign_v5_error_result_only_from_reconnect req w sw w' :
  op_sign_v5 kind req w = (Exn (ErrorResult sw), w') -> reconnect_leaks w sw w'.
Proof.
  unfold op_sign_v5. cbv zeta.
  match goal with |- (if ?b then _ else _) _ = _ -> _ => destruct b end.
  - match goal with |- (if ?b then _ else _) _ = _ -> _ => destruct b end; [discriminate|].
    intro H. apply with_ladder_sign_exn in H. destruct H as [H|[_ H]]; [discriminate H|].
    revert H. apply after_ensure_er. xr.
  - match goal with |- (if ?b then _ else _) _ = _ -> _ => destruct b end; [discriminate|].
    match goal with |- (if ?b then _ else _) _ = _ -> _ => destruct b end; [discriminate|].
    intro H. unfold bind at 1 in H.
    destruct (jobj_field req (s "message") w) as [[msg|e] w1] eqn:E1.
    2:{ exfalso. inversion H; subst. revert E1. apply er_absurd. xr. }
    assert (Hw1 : w1 = w).
    { unfold jobj_field in E1. destruct (jget (s "message") req) as [[]|]; inversion E1; auto. }
    subst w1. unfold bind at 1 in H.
    destruct (hex_field msg (s "tx") w) as [[txraw|e] w2] eqn:E2.
    2:{ exfalso. inversion H; subst. revert E2. apply er_absurd. xr. }
    assert (Hw2 : w2 = w).
    { unfold hex_field, jstr_field, bind in E2.
      destruct (jget (s "tx") msg) as [[]|]; try (inversion E2; fail).
      unfold ret in E2. destruct (fromhex x); inversion E2; auto. }
    subst w2.
    destruct (unsign_tx txraw) as [utx|]; [|discriminate H].
    destruct (deserialize_tx utx); [|discriminate H].
    apply with_ladder_sign_exn in H. destruct H as [H|[_ H]]; [discriminate H|].
    revert H. apply after_ensure_er. xr.
Qed.

Theorem advance_error_result_only_from_reconnect req w sw w' :
  op_advance keccak kind req w = (Exn (ErrorResult sw), w') -> reconnect_leaks w sw w'.
Proof.
  intros H. unfold op_advance in H. apply with_ladder_exn in H.
  destruct H as [H|[_ H]]; [discriminate H|].
  revert H. apply after_ensure_er.
  apply exn_range_bind; [xr|intro blocks].
  apply exn_range_bind; [|intro bros; xr].
  destruct (jget (s "brothers") req) as [[| | | | |l|]|]; try (apply exn_range_raise; exact I).
  induction l as [|x r IH]; [apply exn_range_ret|].
  apply exn_range_bind; [xr|intro a]. apply exn_range_bind; [exact IH|intro b]. apply exn_range_ret.
Qed.

Theorem update_ancestor_error_result_only_from_reconnect req w sw w' :
  op_update_ancestor kind req w = (Exn (ErrorResult sw), w') -> reconnect_leaks w sw w'.
Proof.
  intros H. unfold op_update_ancestor in H. apply with_ladder_exn in H.
  destruct H as [H|[_ H]]; [discriminate H|].
  revert H. apply after_ensure_er. xr.
Qed.

Theorem signer_heartbeat_error_result_only_from_reconnect req w sw w' :
  op_signer_heartbeat kind req w = (Exn (ErrorResult sw), w') -> reconnect_leaks w sw w'.
Proof.
  intros H. unfold op_signer_heartbeat in H. apply with_ladder_exn in H.
  destruct H as [H|[_ H]]; [discriminate H|].
  revert H. apply after_ensure_er. unfold get_signer_heartbeat. xr.
Qed.

Corollary sign_v1_no_error_result req w sw w' :
  comm_issue w = false -> op_sign_v1 kind req w <> (Exn (ErrorResult sw), w').
Proof.
  intros Hc H. apply sign_v1_error_result_only_from_reconnect in H.
  exact (no_leak_when_idle _ _ _ Hc H).
Qed.
Corollary sign_v5_no_error_result req w sw w' :
  comm_issue w = false -> op_sign_v5 kind req w <> (Exn (ErrorResult sw), w').
Proof.
  intros Hc H. apply sign_v5_error_result_only_from_reconnect in H.
  exact (no_leak_when_idle _ _ _ Hc H).
Qed.
Corollary advance_no_error_result req w sw w' :
  comm_issue w = false -> op_advance keccak kind req w <> (Exn (ErrorResult sw), w').
Proof.
  intros Hc H. apply advance_error_result_only_from_reconnect in H.
  exact (no_leak_when_idle _ _ _ Hc H).
Qed.
Corollary update_ancestor_no_error_result req w sw w' :
  comm_issue w = false -> op_update_ancestor kind req w <> (Exn (ErrorResult sw), w').
Proof.
  intros Hc H. apply update_ancestor_error_result_only_from_reconnect in H.
  exact (no_leak_when_idle _ _ _ Hc H).
Qed.
Corollary signer_heartbeat_no_error_result req w sw w' :
  comm_issue w = false -> op_signer_heartbeat kind req w <> (Exn (ErrorResult sw), w').
Proof.
  intros Hc H. apply signer_heartbeat_error_result_only_from_reconnect in H.
  exact (no_leak_when_idle _ _ _ Hc H).
Qed.

(* ---------- the dispatcher and handle_request ---------- *)

Theorem run_operation_error_result_only_from_reconnect m opname req op w sw w' :
  run_operation keccak kind m opname req = Some op ->
  op w = (Exn (ErrorResult sw), w') -> reconnect_leaks w sw w'.
Proof.
  unfold run_operation. cbv beta zeta.
  repeat match goal with
         | |- (if ?b then _ else _) = _ -> _ => destruct b
         end;
    try (destruct m); intro H; try discriminate H; inversion H; subst op; clear H;
    lazymatch goal with
    | |- ret _ _ = _ -> _ => discriminate
    | |- op_get_pubkey _ _ _ _ = _ -> _ =>
        intro H; exfalso; exact (get_pubkey_no_error_result _ _ _ _ _ H)
    | |- op_blockchain_state _ _ _ = _ -> _ =>
        intro H; exfalso; exact (blockchain_state_no_error_result _ _ _ _ H)
    | |- op_reset_advance _ _ _ = _ -> _ =>
        intro H; exfalso; exact (reset_advance_no_error_result _ _ _ _ H)
    | |- op_parameters _ _ _ = _ -> _ =>
        intro H; exfalso; exact (parameters_no_error_result _ _ _ _ H)
    | |- op_ui_heartbeat _ _ _ = _ -> _ =>
        intro H; exfalso; exact (ui_heartbeat_no_error_result _ _ _ _ H)
    | |- op_sign_v1 _ _ _ = _ -> _ => apply sign_v1_error_result_only_from_reconnect
    | |- op_sign_v5 _ _ _ = _ -> _ => apply sign_v5_error_result_only_from_reconnect
    | |- op_advance _ _ _ _ = _ -> _ => apply advance_error_result_only_from_reconnect
    | |- op_update_ancestor _ _ _ = _ -> _ =>
        apply update_ancestor_error_result_only_from_reconnect
    | |- op_signer_heartbeat _ _ _ = _ -> _ =>
        apply signer_heartbeat_error_result_only_from_reconnect
    end.
Qed.

(* an ErrorResult reaches the server loop only out of a reconnection's bring-up, and only for
   the commands of group (b) *)
Theorem handle_request_error_result_only_from_reconnect m request w sw w' :
  handle_request keccak kind m request w = (Exn (ErrorResult sw), w') -> reconnect_leaks w sw w'.
Proof.
  unfold handle_request.
  destruct (gate_request m request) as [code|e|cmd req]; try discriminate.
  destruct (assoc_str cmd _) as [opname|]; [|discriminate].
  destruct (run_operation keccak kind m opname req) as [op|] eqn:Eo; [|discriminate].
  unfold bind. destruct (op w) as [[[code out]|e] w1] eqn:Eop.
  - destruct (code <? 0); [discriminate|]. destruct out; discriminate.
  - intro H. inversion H; subst.
    eapply run_operation_error_result_only_from_reconnect; eauto.
Qed.

Corollary handle_request_no_error_result m request w sw w' :
  comm_issue w = false ->
  handle_request keccak kind m request w <> (Exn (ErrorResult sw), w').
Proof.
  intros Hc H. apply handle_request_error_result_only_from_reconnect in H.
  exact (no_leak_when_idle _ _ _ Hc H).
Qed.

End NoEscape.

(* ================================================================== *)
(* 5. codes 0 / 1 only come from device-reported success               *)
(* ================================================================== *)

Definition none_is (v : Z) (l : list Z) : bool := forallb (fun c => negb (c =? v)) l.

Lemma none_is_sound v l : none_is v l = true -> ~ In v l.
Proof.
  unfold none_is. intros H Hin. rewrite forallb_forall in H. specialize (H _ Hin).
  rewrite Z.eqb_refl in H. discriminate H.
Qed.

(* sign: the translation of a failure code is never 0 (closed check on the TR_SIGN tables) *)
Lemma sign_tr_never_ok_v5 : none_is 0 (cand_lookup TR_SIGN_V5 TR_SIGN_V5_DEFAULT) = true.
Proof. vm_compute. reflexivity. Qed.
Lemma sign_tr_never_ok_v1 : none_is 0 (cand_lookup TR_SIGN_V1 TR_SIGN_V1_DEFAULT) = true.
Proof. vm_compute. reflexivity. Qed.

Theorem finish_sign_ok_only_from_success m r :
  fst (finish_sign m r) = 0 -> exists rs, r = inl rs.
Proof.
  destruct r as [rs|c]; [eauto|]. cbn [finish_sign fst]. intro H. exfalso.
  destruct m.
  - apply (none_is_sound _ _ sign_tr_never_ok_v5). rewrite <- H. apply lookup_Z_in.
  - apply (none_is_sound _ _ sign_tr_never_ok_v1). rewrite <- H. apply lookup_Z_in.
Qed.

(* advance / update: 0 and 1 are the images of OK_TOTAL / OK_PARTIAL only *)
Lemma adv_tr_ok_total : only_key TR_ADV TR_ADV_DEFAULT RESP_ADV_OK_TOTAL V5_ERROR_CODE_OK = true.
Proof. vm_compute. reflexivity. Qed.
Lemma adv_tr_ok_partial :
  only_key TR_ADV TR_ADV_DEFAULT RESP_ADV_OK_PARTIAL V5_ERROR_CODE_OK_PARTIAL = true.
Proof. vm_compute. reflexivity. Qed.
Lemma upd_tr_ok_total : only_key TR_UPD TR_UPD_DEFAULT RESP_UPD_OK_TOTAL V5_ERROR_CODE_OK = true.
Proof. vm_compute. reflexivity. Qed.
Lemma upd_tr_no_partial :
  none_is V5_ERROR_CODE_OK_PARTIAL (cand_lookup TR_UPD TR_UPD_DEFAULT) = true.
Proof. vm_compute. reflexivity. Qed.

(* and success is translated to exactly those codes *)
Lemma adv_tr_success :
  lookup_Z RESP_ADV_OK_TOTAL TR_ADV TR_ADV_DEFAULT = V5_ERROR_CODE_OK /\
  lookup_Z RESP_ADV_OK_PARTIAL TR_ADV TR_ADV_DEFAULT = V5_ERROR_CODE_OK_PARTIAL /\
  lookup_Z RESP_UPD_OK_TOTAL TR_UPD TR_UPD_DEFAULT = V5_ERROR_CODE_OK.
Proof. vm_compute. auto. Qed.

(* no ladder answers 0 or 1 *)
Definition ladder_never (v : Z) (lad : ladder) : bool := none_is v (ladder_codes lad).

Lemma bind_ok_inv {A B} (m : M A) (f : A -> M B) w b w' :
  bind m f w = (Ok b, w') -> exists a w1, m w = (Ok a, w1) /\ f a w1 = (Ok b, w').
Proof.
  unfold bind. destruct (m w) as [[a|e] w1]; [eauto|discriminate].
Qed.

Lemma with_ladder_ok_inv lad body w r w' :
  with_ladder lad body w = (Ok r, w') ->
  body w = (Ok r, w') \/ In (fst r) (ladder_codes lad).
Proof.
  unfold with_ladder, try_catch. destruct (body w) as [[a|e] w1] eqn:Eb.
  - intro H. inversion H; subst. left. reflexivity.
  - destruct (apply_ladder lad e) as [k|] eqn:Ek; [|discriminate].
    intro H. right. exact (apply_ladder_range _ _ _ Ek _ _ _ H).
Qed.

Section OkOnly.
Variable keccak : bytes -> bytes.
Variable kind : dongle_kind.

(* sign (v5): code 0 is answered only together with a signature the device method returned *)
Theorem sign_v5_ok_only_from_success req :
  ok_range (fun r => fst r = 0 -> exists rs, r = finish_sign V5 (inl rs)) (op_sign_v5 kind req).
Proof.
  assert (L1 : ~ In 0 (ladder_codes LADDER_V5_sign_unauth))
    by (apply none_is_sound; vm_compute; reflexivity).
  assert (L2 : ~ In 0 (ladder_codes LADDER_V5_sign_auth))
    by (apply none_is_sound; vm_compute; reflexivity).
  assert (W : forall lad body, ~ In 0 (ladder_codes lad) ->
            ok_range (fun r => fst r = 0 -> exists rs, r = finish_sign V5 (inl rs))
                     (with_ladder_sign V5 lad body)).
  { intros lad body Hl. unfold with_ladder_sign. apply ok_range_try_catch.
    - apply ok_range_bind. intro r. apply ok_range_ret. intro H.
      destruct (finish_sign_ok_only_from_success _ _ H) as [rs ->]. eauto.
    - intros e k Hk. eapply ok_range_mono; [eapply apply_ladder_range; exact Hk|].
      intros a Ha H0. unfold code_in in Ha. rewrite H0 in Ha. contradiction. }
  unfold op_sign_v5. cbv zeta.
  match goal with |- ok_range _ (if ?b then _ else _) => destruct b end.
  - destruct (validate_message (codes_of V5) req WHash <? 0) eqn:E.
    + apply ok_range_ret. cbn [fst]. lia.
    + apply W. exact L1.
  - destruct (validate_auth (codes_of V5) req true <? 0) eqn:E1.
    { apply ok_range_ret. cbn [fst]. lia. }
    destruct (validate_message (codes_of V5) req WTx <? 0) eqn:E2.
    { apply ok_range_ret. cbn [fst]. lia. }
    apply ok_range_bind; intro msg. apply ok_range_bind; intro txraw.
    destruct (unsign_tx txraw) as [utx|];
      [|apply ok_range_ret; cbn [fst]; vm_compute; discriminate].
    destruct (deserialize_tx utx);
      [|apply ok_range_ret; cbn [fst]; vm_compute; discriminate].
    apply W. exact L2.
Qed.

(* advanceBlockchain: 0 (resp. 1) is answered only when advance_blockchain itself returned
   OK_TOTAL (resp. OK_PARTIAL), in the very world the handler ends in *)
Theorem advance_ok_only_from_success req w c out w' :
  op_advance keccak kind req w = (Ok (c, out), w') ->
  c = V5_ERROR_CODE_OK \/ c = V5_ERROR_CODE_OK_PARTIAL ->
  exists blocks bros w1 flag,
    advance_blockchain keccak blocks bros w1
    = (Ok (flag, if c =? V5_ERROR_CODE_OK then RESP_ADV_OK_TOTAL else RESP_ADV_OK_PARTIAL), w').
Proof.
  intros H Hc. unfold op_advance in H. apply with_ladder_ok_inv in H. cbn [fst] in H.
  destruct H as [H|H].
  2:{ exfalso. destruct Hc as [-> | ->]; revert H; apply none_is_sound; vm_compute; reflexivity. }
  apply bind_ok_inv in H. destruct H as [u [w1 [_ H]]].
  apply bind_ok_inv in H. destruct H as [blocks [w2 [_ H]]].
  apply bind_ok_inv in H. destruct H as [bros [w3 [_ H]]].
  apply bind_ok_inv in H. destruct H as [[flag code] [w4 [Ha H]]].
  unfold ret in H. inversion H; subst. cbn [snd] in *.
  exists blocks, bros, w3, flag. rewrite Ha. repeat f_equal.
  destruct Hc as [Hc|Hc]; rewrite Hc.
  - apply (lookup_Z_only_key _ _ _ _ _ adv_tr_ok_total Hc).
  - apply (lookup_Z_only_key _ _ _ _ _ adv_tr_ok_partial Hc).
Qed.

Theorem update_ancestor_ok_only_from_success req w c out w' :
  op_update_ancestor kind req w = (Ok (c, out), w') ->
  c = V5_ERROR_CODE_OK \/ c = V5_ERROR_CODE_OK_PARTIAL ->
  c = V5_ERROR_CODE_OK /\
  exists blocks w1 flag, update_ancestor blocks w1 = (Ok (flag, RESP_UPD_OK_TOTAL), w').
Proof.
  intros H Hc. unfold op_update_ancestor in H. apply with_ladder_ok_inv in H. cbn [fst] in H.
  destruct H as [H|H].
  2:{ exfalso. destruct Hc as [-> | ->]; revert H; apply none_is_sound; vm_compute; reflexivity. }
  apply bind_ok_inv in H. destruct H as [u [w1 [_ H]]].
  apply bind_ok_inv in H. destruct H as [blocks [w2 [_ H]]].
  apply bind_ok_inv in H. destruct H as [[flag code] [w3 [Ha H]]].
  unfold ret in H. inversion H; subst. cbn [snd] in *.
  destruct Hc as [Hc|Hc].
  - split; [exact Hc|]. exists blocks, w2, flag. rewrite Ha. repeat f_equal.
    apply (lookup_Z_only_key _ _ _ _ _ upd_tr_ok_total Hc).
  - exfalso. apply (none_is_sound _ _ upd_tr_no_partial). rewrite <- Hc. apply lookup_Z_in.
Qed.

End OkOnly.

(* ================================================================== *)
(* 5b. OK_TOTAL / OK_PARTIAL leave the block operations only through    *)
(*    the success branch (the one taken on the device's success opcode) *)
(* ================================================================== *)

Lemma ok_range_on_error_result {A} (P : A -> Prop) (m : M A) h :
  ok_range P m -> (forall sw, ok_range P (h sw)) -> ok_range P (on_error_result m h).
Proof.
  intros Hm Hh. unfold on_error_result. apply ok_range_try_catch; [exact Hm|].
  intros e k Hk. destruct e; try discriminate Hk. inversion Hk; subst. apply Hh.
Qed.

Lemma lookup_err_in sw tbl d : In (lookup_err sw tbl d) (d :: map snd tbl).
Proof.
  induction tbl as [|[l r] tbl IH]; cbn [lookup_err map snd]; [left; reflexivity|].
  destruct (mem_N sw l); [right; left; reflexivity|].
  destruct IH as [IH|IH]; [left; exact IH|right; right; exact IH].
Qed.

Lemma assoc_N_in {B} k (l : list (N * B)) v : assoc_N k l = Some v -> In v (map snd l).
Proof.
  induction l as [|[k' v'] l IH]; cbn [assoc_N map snd]; [discriminate|].
  destruct (k =? k')%N; intro H; [inversion H; subst; left; reflexivity|right; auto].
Qed.

Definition opt_list (o : option Z) : list Z := match o with Some c => [c] | None => [] end.

(* every code a block operation can answer together with False *)
Definition fail_codes (o : blockop) : list Z :=
  [bo_compute_meta o; bo_unexpected o]
  ++ (bo_init_default o :: map snd (bo_init_errs o))
  ++ (bo_meta_default o :: map snd (bo_meta_errs o))
  ++ (bo_brolist_default o :: map snd (bo_brolist_errs o))
  ++ (bo_chunk_default o :: map snd (bo_chunk_errors o))
  ++ opt_list ADV_BROCOUNT_OVERFLOW_RESULT.

Lemma fc_compute o : In (bo_compute_meta o) (fail_codes o).
Proof. left. reflexivity. Qed.
Lemma fc_unexpected o : In (bo_unexpected o) (fail_codes o).
Proof. right. left. reflexivity. Qed.
Lemma fc_init o sw : In (lookup_err sw (bo_init_errs o) (bo_init_default o)) (fail_codes o).
Proof. unfold fail_codes. apply in_or_app. right. apply in_or_app. left. apply lookup_err_in. Qed.
Lemma fc_meta o sw : In (lookup_err sw (bo_meta_errs o) (bo_meta_default o)) (fail_codes o).
Proof.
  unfold fail_codes. do 2 (apply in_or_app; right). apply in_or_app. left. apply lookup_err_in.
Qed.
Lemma fc_brolist o sw : In (lookup_err sw (bo_brolist_errs o) (bo_brolist_default o)) (fail_codes o).
Proof.
  unfold fail_codes. do 3 (apply in_or_app; right). apply in_or_app. left. apply lookup_err_in.
Qed.
Lemma fc_chunk o sw :
  In (match assoc_N sw (bo_chunk_errors o) with Some c => c | None => bo_chunk_default o end)
     (fail_codes o).
Proof.
  unfold fail_codes. do 4 (apply in_or_app; right). apply in_or_app. left.
  destruct (assoc_N sw (bo_chunk_errors o)) as [c|] eqn:E; [right|left; reflexivity].
  eapply assoc_N_in; eauto.
Qed.
Lemma fc_brocount c : ADV_BROCOUNT_OVERFLOW_RESULT = Some c -> forall o, In c (fail_codes o).
Proof.
  intros E o. unfold fail_codes. do 5 (apply in_or_app; right). rewrite E. left. reflexivity.
Qed.

Definition hdrP {A} (o : blockop) (r : A + Z) : Prop :=
  match r with inl _ => True | inr c => In c (fail_codes o) end.

Definition resP (o : blockop) (extra : list Z) (r : bo_result) : Prop :=
  (fst r = true /\ (snd r = bo_ok_total o \/ snd r = bo_ok_partial o)) \/
  (fst r = false /\ In (snd r) (fail_codes o ++ extra)).

Lemma send_block_header_range o b raw : ok_range (hdrP o) (send_block_header o b raw).
Proof.
  unfold send_block_header. cbv zeta.
  destruct (rlp_mm_payload_size raw) as [mm|]; [|apply ok_range_ret; apply fc_compute].
  destruct (to_bytes_be 2 (Z.of_N mm)) as [mmb|].
  2:{ destruct (bo_meta_catches_overflow o);
        [apply ok_range_ret; apply fc_compute|apply ok_range_raise]. }
  apply ok_range_bind; intro cb.
  destruct cb as [cbh|]; [|apply ok_range_ret; apply fc_compute].
  apply (ok_range_bind_strong (hdrP o)).
  { apply ok_range_on_error_result.
    - rng; try exact I. apply fc_unexpected.
    - intro sw. apply ok_range_ret. apply fc_meta. }
  intros a Ha. destruct a as [req|c]; [|apply ok_range_ret; exact Ha].
  destruct raw as [data|]; [|apply ok_range_raise].
  apply ok_range_on_error_result.
  - rng; try exact I. apply fc_unexpected.
  - intro sw. apply ok_range_ret. apply fc_chunk.
Qed.

Lemma send_brothers_range o bros last : ok_range (hdrP o) (send_brothers o bros last).
Proof.
  revert last. induction bros as [|b rest IH]; intro last; cbn [send_brothers].
  - apply ok_range_ret. exact I.
  - apply (ok_range_bind_strong (hdrP o)); [apply send_block_header_range|].
    intros r Hr. destruct r as [resp|c]; [apply IH|apply ok_range_ret; exact Hr].
Qed.

Lemma block_loop_range o blocks bros : ok_range (resP o []) (block_loop o blocks bros).
Proof.
  revert bros. induction blocks as [|blk rest IH]; intro bros; cbn [block_loop].
  - apply ok_range_raise.
  - apply (ok_range_bind_strong (hdrP o)); [apply send_block_header_range|].
    intros r Hr. destruct r as [resp|c].
    2:{ apply ok_range_ret. right. split; [reflexivity|]. cbn [snd]. rewrite app_nil_r. exact Hr. }
    apply ok_range_bind; intro rop.
    apply (ok_range_bind_strong (hdrP o)).
    { match goal with |- ok_range _ (if ?b then _ else _) => destruct b end;
        [|apply ok_range_ret; exact I].
      apply ok_range_bind; intro bl.
      destruct (to_bytes_be 1 (Z.of_nat (length bl))) as [cnt|].
      2:{ destruct ADV_BROCOUNT_OVERFLOW_RESULT as [c|] eqn:E;
            [apply ok_range_ret; apply (fc_brocount _ E)|apply ok_range_raise]. }
      apply (ok_range_bind_strong (hdrP o)).
      { apply ok_range_on_error_result.
        - rng; try exact I. apply fc_unexpected.
        - intro sw. apply ok_range_ret. apply fc_brolist. }
      intros a Ha. destruct a as [r|c]; [apply send_brothers_range|apply ok_range_ret; exact Ha]. }
    intros r2 Hr2. destruct r2 as [resp2|c].
    2:{ apply ok_range_ret. right. split; [reflexivity|]. cbn [snd]. rewrite app_nil_r. exact Hr2. }
    apply ok_range_bind; intro rop3.
    match goal with |- ok_range _ (if ?b then _ else _) => destruct b end.
    { apply ok_range_ret. left. cbn [fst snd]. auto. }
    match goal with |- ok_range _ (if ?b then _ else _) => destruct b end.
    { apply ok_range_ret. left. cbn [fst snd]. auto. }
    apply IH.
Qed.

Lemma resP_extra o extra r : resP o [] r -> resP o extra r.
Proof.
  unfold resP. intros [H|[H1 H2]]; [left; exact H|right]. split; [exact H1|].
  rewrite app_nil_r in H2. apply in_or_app. left. exact H2.
Qed.

Lemma do_block_operation_range o blocks bros :
  ok_range (resP o []) (do_block_operation o blocks bros).
Proof.
  unfold do_block_operation. apply ok_range_bind; intro nb.
  apply (ok_range_bind_strong (hdrP o)).
  { apply ok_range_on_error_result.
    - rng; try exact I. apply fc_unexpected.
    - intro sw. apply ok_range_ret. apply fc_init. }
  intros a Ha. destruct a as [u|c]; [apply block_loop_range|].
  apply ok_range_ret. right. split; [reflexivity|]. cbn [snd]. rewrite app_nil_r. exact Ha.
Qed.

Lemma advance_blockchain_range keccak blocks bros :
  ok_range (resP ADVANCE_OP (opt_list ADV_SORT_VALUEERROR_RESULT))
           (advance_blockchain keccak blocks bros).
Proof.
  unfold advance_blockchain.
  destruct (all_some (map (sort_brothers keccak) bros)) as [sorted|].
  - eapply ok_range_mono; [apply do_block_operation_range|]. intros r. apply resP_extra.
  - destruct ADV_SORT_VALUEERROR_RESULT as [c|]; [|apply ok_range_raise].
    apply ok_range_ret. right. split; [reflexivity|]. cbn [snd opt_list].
    apply in_or_app. right. left. reflexivity.
Qed.

Lemma update_ancestor_range blocks :
  ok_range (resP UPD_OP [RESP_UPD_ERROR_REMOVE_MM_FIELDS]) (update_ancestor blocks).
Proof.
  unfold update_ancestor.
  destruct (all_some (map (fun b => remove_mm_fields b true) blocks)) as [opt|].
  - eapply ok_range_mono; [apply do_block_operation_range|]. intros r. apply resP_extra.
  - apply ok_range_ret. right. split; [reflexivity|]. cbn [snd].
    apply in_or_app. right. left. reflexivity.
Qed.

(* closed checks: no failure path can produce a success code *)
Lemma adv_fail_never_ok :
  none_is RESP_ADV_OK_TOTAL (fail_codes ADVANCE_OP ++ opt_list ADV_SORT_VALUEERROR_RESULT) = true /\
  none_is RESP_ADV_OK_PARTIAL (fail_codes ADVANCE_OP ++ opt_list ADV_SORT_VALUEERROR_RESULT) = true.
Proof. vm_compute. auto. Qed.

Lemma upd_fail_never_ok :
  none_is RESP_UPD_OK_TOTAL (fail_codes UPD_OP ++ [RESP_UPD_ERROR_REMOVE_MM_FIELDS]) = true.
Proof. vm_compute. reflexivity. Qed.

Theorem advance_blockchain_ok_is_success keccak blocks bros w flag c w' :
  advance_blockchain keccak blocks bros w = (Ok (flag, c), w') ->
  c = RESP_ADV_OK_TOTAL \/ c = RESP_ADV_OK_PARTIAL -> flag = true.
Proof.
  intros H Hc. apply advance_blockchain_range in H. destruct H as [[H _]|[_ H]]; [exact H|].
  exfalso. cbn [snd] in H. destruct adv_fail_never_ok as [T P].
  destruct Hc as [-> | ->]; revert H; apply none_is_sound; assumption.
Qed.

Theorem update_ancestor_ok_is_success blocks w flag w' :
  update_ancestor blocks w = (Ok (flag, RESP_UPD_OK_TOTAL), w') -> flag = true.
Proof.
  intros H. apply update_ancestor_range in H. destruct H as [[H _]|[_ H]]; [exact H|].
  exfalso. cbn [snd] in H. revert H. apply none_is_sound. exact upd_fail_never_ok.
Qed.

(* handler level: 0 / 1 only with (True, OK_TOTAL / OK_PARTIAL) from the device operation *)
Corollary advance_ok_only_from_device_success keccak kind req w c out w' :
  op_advance keccak kind req w = (Ok (c, out), w') ->
  c = V5_ERROR_CODE_OK \/ c = V5_ERROR_CODE_OK_PARTIAL ->
  exists blocks bros w1,
    advance_blockchain keccak blocks bros w1
    = (Ok (true, if c =? V5_ERROR_CODE_OK then RESP_ADV_OK_TOTAL else RESP_ADV_OK_PARTIAL), w').
Proof.
  intros H Hc. destruct (advance_ok_only_from_success _ _ _ _ _ _ _ H Hc) as [bl [br [w1 [f E]]]].
  exists bl, br, w1. rewrite E. repeat f_equal.
  eapply advance_blockchain_ok_is_success; [exact E|].
  destruct (c =? V5_ERROR_CODE_OK); auto.
Qed.

Corollary update_ancestor_ok_only_from_device_success kind req w c out w' :
  op_update_ancestor kind req w = (Ok (c, out), w') ->
  c = V5_ERROR_CODE_OK \/ c = V5_ERROR_CODE_OK_PARTIAL ->
  c = V5_ERROR_CODE_OK /\
  exists blocks w1, update_ancestor blocks w1 = (Ok (true, RESP_UPD_OK_TOTAL), w').
Proof.
  intros H Hc. destruct (update_ancestor_ok_only_from_success _ _ _ _ _ _ H Hc) as [H0 [bl [w1 [f E]]]].
  split; [exact H0|]. exists bl, w1. rewrite E. repeat f_equal.
  eapply update_ancestor_ok_is_success; exact E.
Qed.

(* ================================================================== *)
(* 6. named causes (table level) and non-vacuity                       *)
(* ================================================================== *)

(* a device status whose cause the documentation names is translated to that very code:
   closed checks through the generated status -> dongle result -> protocol code tables *)
Definition adv_code_of_status (sw : N) : Z :=
  lookup_Z (match assoc_N sw ADV_CHUNK_ERRORS with Some c => c | None => ADV_CHUNK_DEFAULT end)
           TR_ADV TR_ADV_DEFAULT.
Definition upd_code_of_status (sw : N) : Z :=
  lookup_Z (match assoc_N sw UPD_CHUNK_ERRORS with Some c => c | None => UPD_CHUNK_DEFAULT end)
           TR_UPD TR_UPD_DEFAULT.

Lemma named_causes_block_chunks :
  adv_code_of_status ERR_ADV_CHAIN_MISMATCH = V5_ERROR_CODE_CHAINING_MISMATCH /\
  adv_code_of_status ERR_ADV_MM_HASH_MISMATCH = V5_ERROR_CODE_POW_INVALID /\
  adv_code_of_status ERR_ADV_BTC_DIFF_MISMATCH = V5_ERROR_CODE_POW_INVALID /\
  adv_code_of_status ERR_ADV_BROTHER_ORDER_INVALID = V5_ERROR_CODE_INVALID_BROTHERS /\
  adv_code_of_status ERR_ADV_BROTHERS_TOO_MANY = V5_ERROR_CODE_INVALID_BROTHERS /\
  adv_code_of_status ERR_ADV_RLP_INVALID = V5_ERROR_CODE_INVALID_INPUT_BLOCKS /\
  upd_code_of_status ERR_ADV_CHAIN_MISMATCH = V5_ERROR_CODE_CHAINING_MISMATCH /\
  upd_code_of_status ERR_ADV_ANCESTOR_TIP_MISMATCH = V5_ERROR_CODE_TIP_MISMATCH /\
  upd_code_of_status ERR_ADV_RLP_INVALID = V5_ERROR_CODE_INVALID_INPUT_BLOCKS.
Proof. vm_compute. repeat split. Qed.

Lemma named_causes_sign :
  lookup_Z (lookup_err ERR_SIGN_INVALID_PATH SIGN_UNAUTH_ERRS SIGN_UNAUTH_DEFAULT)
           TR_SIGN_V5 TR_SIGN_V5_DEFAULT = V5_ERROR_CODE_INVALID_KEYID /\
  lookup_Z (lookup_err ERR_SIGN_DATA_SIZE_NOAUTH SIGN_UNAUTH_ERRS SIGN_UNAUTH_DEFAULT)
           TR_SIGN_V5 TR_SIGN_V5_DEFAULT = V5_ERROR_CODE_INVALID_MESSAGE /\
  lookup_Z (lookup_err ERR_SIGN_TX_HASH_MISMATCH SIGN_AUTH_STEP2_ERRS SIGN_AUTH_STEP2_DEFAULT)
           TR_SIGN_V5 TR_SIGN_V5_DEFAULT = V5_ERROR_CODE_INVALID_MESSAGE /\
  lookup_Z (lookup_err ERR_SIGN_RECEIPT_ROOT_MISMATCH SIGN_AUTH_STEP4_ERRS SIGN_AUTH_STEP4_DEFAULT)
           TR_SIGN_V5 TR_SIGN_V5_DEFAULT = V5_ERROR_CODE_INVALID_AUTH /\
  lookup_Z (lookup_err ERR_SIGN_RLP SIGN_AUTH_STEP3_ERRS SIGN_AUTH_STEP3_DEFAULT)
           TR_SIGN_V5 TR_SIGN_V5_DEFAULT = V5_ERROR_CODE_INVALID_AUTH.
Proof. vm_compute. repeat split. Qed.

(* ---------- examples ---------- *)

(* blockchainState: an in-range status 0x6B87 on the first exchange is answered -905 *)
Example ex_state_status_6B87 :
  fst (op_blockchain_state KLedger [] (world0 [Status 0x6B87] []))
  = Ok (V5_ERROR_CODE_DEVICE, None).
Proof. vm_compute. reflexivity. Qed.

(* ... and so is a silent device, an unexpected opcode and a status outside the range *)
Example ex_state_timeout :
  fst (op_blockchain_state KLedger [] (world0 [] [])) = Ok (V5_ERROR_CODE_DEVICE, None).
Proof. vm_compute. reflexivity. Qed.
Example ex_state_bad_opcode :
  fst (op_blockchain_state KLedger [] (world0 [Data [128; 32; 9; 1]%N] []))
  = Ok (V5_ERROR_CODE_DEVICE, None).
Proof. vm_compute. reflexivity. Qed.
Example ex_state_status_6F00 :
  fst (op_blockchain_state KLedger [] (world0 [Status 0x6F00] []))
  = Ok (V5_ERROR_CODE_DEVICE, None).
Proof. vm_compute. reflexivity. Qed.

Definition ex_sign_req : obj :=
  [(s "keyId", JStr (s "m/44'/0'/0'/0/0"));
   (s "message", JObj [(s "hash",
      JStr (s "aabbccddeeff00112233445566778899aabbccddeeff00112233445566778899"))])].

(* sign: the device's "invalid path" status is answered with the documented -103 *)
Example ex_sign_invalid_path :
  fst (op_sign_v5 KLedger ex_sign_req (world0 [Status ERR_SIGN_INVALID_PATH] []))
  = Ok (V5_ERROR_CODE_INVALID_KEYID, None).
Proof. vm_compute. reflexivity. Qed.

(* the whole way through handle_request *)
Example ex_handle_request_sign :
  fst (handle_request (fun b => b) KLedger V5
         (JObj ((s "command", JStr (s "sign")) :: (s "version", JInt 5) :: ex_sign_req))
         (world0 [Status ERR_SIGN_INVALID_PATH] []))
  = Ok (JObj [(KEY_ERRORCODE, JInt V5_ERROR_CODE_INVALID_KEYID)]).
Proof. vm_compute. reflexivity. Qed.

Example ex_handle_request_state :
  fst (handle_request (fun b => b) KLedger V5
         (JObj [(s "command", JStr (s "blockchainState")); (s "version", JInt 5)])
         (world0 [Status 0x6B87] []))
  = Ok (JObj [(KEY_ERRORCODE, JInt V5_ERROR_CODE_DEVICE)]).
Proof. vm_compute. reflexivity. Qed.

(* The hypothesis comm_issue w = false of the (b) theorems cannot be dropped: with a pending
   reconnection, an in-range status answered to GET_MODE during the bring-up (get_current_mode
   only catches HSM2DongleError) leaves ensure_connection as HSM2DongleErrorResult, and the
   ladders of sign / advanceBlockchain / updateAncestorBlock / signerHeartbeat do not list it. *)
Definition reconnecting_world (sw : N) : world :=
  mkWorld [Data [128; 1]%N; Status sw] [] false [] true None [] [].

Example ex_error_result_escapes_signer_heartbeat :
  fst (op_signer_heartbeat KLedger [] (reconnecting_world 0x6B87)) = Exn (ErrorResult 0x6B87).
Proof. vm_compute. reflexivity. Qed.
Example ex_error_result_escapes_sign :
  fst (op_sign_v5 KLedger ex_sign_req (reconnecting_world 0x6B87)) = Exn (ErrorResult 0x6B87).
Proof. vm_compute. reflexivity. Qed.
Example ex_error_result_escapes_advance :
  fst (op_advance (fun b => b) KLedger [] (reconnecting_world 0x6B87)) = Exn (ErrorResult 0x6B87).
Proof. vm_compute. reflexivity. Qed.
Example ex_error_result_escapes_update :
  fst (op_update_ancestor KLedger [] (reconnecting_world 0x6B87)) = Exn (ErrorResult 0x6B87).
Proof. vm_compute. reflexivity. Qed.
Example ex_error_result_escapes_handle_request :
  fst (handle_request (fun b => b) KLedger V5
         (JObj ((s "command", JStr (s "sign")) :: (s "version", JInt 5) :: ex_sign_req))
         (reconnecting_world 0x6B87))
  = Exn (ErrorResult 0x6B87).
Proof. vm_compute. reflexivity. Qed.
(* the same world is harmless for a handler of group (a) *)
Example ex_reconnecting_state :
  fst (op_blockchain_state KLedger [] (reconnecting_world 0x6B87))
  = Ok (V5_ERROR_CODE_DEVICE, None).
Proof. vm_compute. reflexivity. Qed.
