(* Refinement lemmas: ledger/pin.py (BasePin.is_valid) as translated from the source text. *)
From PowHsm Require Import Gen.Src Model.Pin.
From PowHsm Require Import Proofs.ValLemmas.

(* ---------- ledger/pin.py ---------- *)

Lemma src_pin_is_valid_ok : forall (cls : pv) (p : bytes) (any_pin : bool),
  wf_bytes p ->
  src_BasePin__is_valid cls (VBytes p) (VBool any_pin) = POk (VBool (pin_is_valid p any_pin)).
Proof.
  intros cls p any_pin Hwf. unfold src_BasePin__is_valid, pin_is_valid.
  cbn [py_type pbind]. rewrite py_ne_type.
  cbn [pty_eqb negb vbool pmap pif py_truth py_all_in py_any_in py_iter pbind py_len].
  rewrite (py_all_map (fun b => VInt (Z.of_N b)) p _ (fun c => mem_N c PIN_POSSIBLE_CHARS)).
  2:{ intros b Hb. rewrite py_chr_byte by (exact (proj1 (Forall_forall _ _) Hwf b Hb)).
      cbn [pbind]. rewrite py_in_chr_str. reflexivity. }
  rewrite (py_any_map (fun b => VInt (Z.of_N b)) p _ (fun c => mem_N c PIN_ALPHA_CHARS)).
  2:{ intros b Hb. rewrite py_chr_byte by (exact (proj1 (Forall_forall _ _) Hwf b Hb)).
      cbn [pbind]. rewrite py_in_chr_str. reflexivity. }
  cbn [py_not pmap py_truth].
  destruct (forallb (fun c => mem_N c PIN_POSSIBLE_CHARS) p); cbn [negb pif py_truth andb];
    [|reflexivity].
  destruct any_pin; cbn [orb]; [reflexivity|].
  rewrite py_ne_int. unfold nlen. change 8%Z with (Z.of_N PIN_LENGTH). rewrite Zeqb_nat_N.
  cbn [vbool pmap].
  destruct (N.of_nat (length p) =? PIN_LENGTH); cbn [negb pif py_truth andb]; reflexivity.
Qed.

(* anything that is not a bytes object is not a valid PIN (None, str, int ...) *)
Lemma src_pin_is_valid_not_bytes : forall (cls v : pv) (any_pin : pv),
  py_type v <> TBytes -> src_BasePin__is_valid cls v any_pin = POk (VBool false).
Proof.
  intros cls v any_pin H. unfold src_BasePin__is_valid.
  cbn [pbind]. rewrite py_ne_type, (pty_eqb_neq _ _ H). reflexivity.
Qed.

