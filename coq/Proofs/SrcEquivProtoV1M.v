(* Refinement theorems for the device-monad backend: the legacy protocol class HSM1ProtocolLedger of
   ledger/protocol_v1.py (_get_pubkey, _sign, _translate_sign_error), as translated from the Python source text
   (Gen/SrcM.v), runs on every world exactly as Model/LedgerProtocol.v's V1 handlers: the repair and the
   reconnection flag are those of the wrapped v2 protocol object. *)
From PowHsm Require Import Gen.SrcM Model.LedgerProtocol.
From PowHsm Require Import Proofs.ValLemmas Proofs.SrcEquivBase Proofs.SrcEquivLedger.
From PowHsm Require Import Proofs.SrcEquivDongleM Proofs.SrcEquivProtoM.
From PowHsm Require Import Proofs.ValLemmasProtoM.

(* reading another key than the one just written *)
Lemma vassoc_set_other (k k' : str) (v : pv) (l : list (str * pv)) :
  str_eqb k k' = false -> vassoc k (vassoc_set k' v l) = vassoc k l.
Proof.
  intros Hne. induction l as [|[k2 v2] r IH]; cbn [vassoc_set vassoc].
  - rewrite Hne. reflexivity.
  - destruct (str_eqb k' k2) eqn:Hk2; cbn [vassoc].
    + apply str_eqb_eq in Hk2. subst k2. rewrite Hne. reflexivity.
    + rewrite IH. reflexivity.
Qed.

Lemma srcm_v1_translate_sign_error_ok : forall (self : pv) (c : Z) (w : world),
  srcm_HSM1ProtocolLedger___translate_sign_error self (VInt c) w =
  (XOk (VInt (lookup_Z c TR_SIGN_V1 TR_SIGN_V1_DEFAULT)), w).
Proof.
  intros self c w.
  unfold srcm_HSM1ProtocolLedger___translate_sign_error, MV.pbind, MV.POk, MV.py_get_default, mbind, mret, lift,
         py_get_default.
  cbn [String.eqb Ascii.eqb Bool.eqb vint map snd assoc_get].
  change (lookup_Z c TR_SIGN_V1 TR_SIGN_V1_DEFAULT) with (-2)%Z.
  destruct (Z.eqb_spec c (-1)) as [E1|N1]; [reflexivity|].
  destruct (Z.eqb_spec c (-5)) as [E5|N5]; [reflexivity|].
  destruct (Z.eqb_spec c (-10)) as [E10|N10]; reflexivity.
Qed.

Section WithEnv.
Variable kind : dongle_kind.
Variable init : pm pv.
Variable cm : string -> pv -> list pv -> pr pv.

Theorem srcm_v1_get_pubkey_ok : forall (self : pv) (req : obj) (x : str) (els : list N) (w : world),
  init_ok kind init ->
  jget (s "keyId") req = Some (JStr x) -> bip32_path x = Some els ->
  cm "to_binary" (path_obj els) [] = POk (VBytes (path_to_binary els)) ->
  srcm_HSM1ProtocolLedger___get_pubkey cm init self (request_with_path req els) w =
  mres rtuple_pv (op_get_pubkey kind V1 req w).
Proof.
  intros self req x els w Hinit Hget Hpath Hcm.
  unfold srcm_HSM1ProtocolLedger___get_pubkey, op_get_pubkey, with_ladder.
  assert (Hkp : key_path req = ret els).
  { unfold key_path. rewrite Hget, Hpath. reflexivity. }
  rewrite Hkp.
  apply ptry_k_mres with
    (f := fun pk : str => VList [VInt 2; VList [VInt 0; VDict [(s "pubKey", VStr pk)]]])
    (mm := bind (ensure_connection kind) (fun _ => get_public_key (path_to_binary els)))
    (res := fun pk : str => (0%Z, Some [(s "pubKey", JStr pk)])).
  - unfold MV.pbind at 1.
    apply mres_bind with (f := fun _ : unit => VNone).
    + apply srcm_ensure_connection_ok. exact Hinit.
    + intros u w1. unfold request_with_path, MV.py_getitem, py_getitem. rewrite vassoc_set_same.
      unfold MV.pbind, mbind, lift. rewrite (srcm_dongle_get_public_key_ok cm _ _ _ w1 Hcm). unfold mres.
      destruct (get_public_key (path_to_binary els) w1) as [[pk|e] w2]; reflexivity.
  - unfold bind, ret. destruct (ensure_connection kind w) as [[u|e] w1]; [|reflexivity].
    destruct (get_public_key (path_to_binary els) w1) as [[pk|e] w2]; reflexivity.
  - intros pk w1. reflexivity.
  - intros e w1. destruct e; reflexivity.
Qed.

Theorem srcm_v1_sign_ok : forall (self : pv) (req : obj) (x h : str) (els : list N) (w : world),
  init_ok kind init ->
  jget (s "keyId") req = Some (JStr x) -> bip32_path x = Some els ->
  jget (s "message") req = Some (JStr h) ->
  cm "to_binary" (path_obj els) [] = POk (VBytes (path_to_binary els)) ->
  srcm_HSM1ProtocolLedger___sign cm init self (request_with_path req els) w =
  mres rtuple_pv (op_sign_v1 kind req w).
Proof.
  intros self req x h els w Hinit Hget Hpath Hmsg Hcm.
  unfold srcm_HSM1ProtocolLedger___sign, op_sign_v1, with_ladder_sign.
  unfold MV.pbind at 1. unfold MV.POk at 1. unfold mbind at 1. unfold mret at 1. cbv beta iota.
  assert (Hkp : key_path req = ret els).
  { unfold key_path. rewrite Hget, Hpath. reflexivity. }
  assert (Hjs : jstr_field req (s "message") = ret h).
  { unfold jstr_field. rewrite Hmsg. reflexivity. }
  rewrite Hkp, Hjs.
  apply ptry_k_mres with
    (f := fun r : sign_result => VList [VInt 1; VList [sign_res r]])
    (mm := bind (ensure_connection kind) (fun _ => sign_unauthorized (path_to_binary els) (fromhex h)))
    (res := finish_sign V1).
  - unfold MV.pbind at 1.
    apply mres_bind with (f := fun _ : unit => VNone).
    + apply srcm_ensure_connection_ok. exact Hinit.
    + intros u w1. unfold request_with_path, MV.py_getitem, py_getitem. rewrite vassoc_set_same.
      rewrite vassoc_set_other by reflexivity. rewrite vassoc_of_json.
      change (assoc_str (s "message") req) with (jget (s "message") req). rewrite Hmsg.
      cbn [option_map of_json].
      unfold MV.pbind, mbind, lift.
      rewrite (srcm_sign_unauthorized_ok cm _ _ _ h w1 Hcm). unfold mres.
      destruct (sign_unauthorized (path_to_binary els) (fromhex h) w1) as [[r|e] w2]; reflexivity.
  - unfold bind, ret. destruct (ensure_connection kind w) as [[u|e] w1]; [|reflexivity].
    destruct (sign_unauthorized (path_to_binary els) (fromhex h) w1) as [[r|e] w2]; reflexivity.
  - intros r w1. destruct r as [[rb sb]|c].
    + reflexivity.
    + cbn [sign_res finish_sign].
      unfold MV.pif, MV.py_not, MV.pmap, MV.pbind, MV.py_getitem, MV.POk.
      change (py_getitem (VList [VBool false; VInt c]) (VInt 0)) with (@POk pv (VBool false)).
      change (py_getitem (VList [VBool false; VInt c]) (VInt 1)) with (@POk pv (VInt c)).
      unfold mbind, lift, mret. cbn [py_truth negb].
      rewrite srcm_v1_translate_sign_error_ok. reflexivity.
  - intros e w1. destruct e; reflexivity.
Qed.

End WithEnv.
