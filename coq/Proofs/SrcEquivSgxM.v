(* Refinement theorems for the device-monad backend: the SGX overrides of sgx/hsm2dongle.py (HSM2DongleSGX.echo,
   unlock, new_pin, get_retries, onboard - one APDU each, with the enclave's own command bytes), as translated
   from the Python source text (Gen/SrcM.v), run on every world exactly as the KSgx branches of Model/Dongle.v. *)
From PowHsm Require Import Gen.SrcM Model.Dongle.
From PowHsm Require Import Proofs.ValLemmas Proofs.SrcEquivLedger Proofs.SrcEquivDongleM Proofs.SrcEquivPinM.
From PowHsm Require Import Proofs.ValLemmasM Proofs.ValLemmasPinM.

Theorem srcm_sgx_echo_ok : forall (self : pv) (w : world),
  srcm_HSM2DongleSGX__echo self w = mres VBool (echo KSgx w).
Proof.
  intros self w. unfold srcm_HSM2DongleSGX__echo, echo, mres, bind, SGXCMD_SGX_ECHO, echo_msg. mv_unfold.
  mnorm.
  change (MV.py_bytes (VList [VInt 65; VInt 66; VInt 67])) with (@mret pv (VBytes [65; 66; 67])).
  mnorm. rewrite (mbind_send 164).
  destruct (send_command 164 [65; 66; 67] w) as [[r|e] w']; [|reflexivity].
  unfold MV.py_bytes at 1. mnorm.
  change (MV.py_bytes (VList [VInt 128; VInt 164])) with (@mret pv (VBytes [128; 164])).
  mnorm. rewrite ValLemmasM.mbind_lift. cbn [py_add app]. mnorm. rewrite ValLemmasM.mbind_lift.
  cbn [py_eq]. reflexivity.
Qed.

Theorem srcm_sgx_get_retries_ok : forall (self : pv) (w : world),
  srcm_HSM2DongleSGX__get_retries self w = mres vN (get_retries KSgx w).
Proof.
  intros self w. unfold srcm_HSM2DongleSGX__get_retries, get_retries, mres, vN, bind, SGXCMD_SGX_RETRIES. mv_unfold.
  rewrite (mbind_send 162).
  destruct (send_command 162 [] w) as [[r|e] w']; [|reflexivity].
  rewrite lift_run, getitem_idx by lia. unfold idxM. change (Z.to_nat 2) with 2%nat.
  destruct (idx r 2); reflexivity.
Qed.

Theorem srcm_sgx_unlock_ok : forall (self : pv) (pin : bytes) (w : world),
  wf_bytes pin ->
  srcm_HSM2DongleSGX__unlock self (VBytes pin) w = mres VBool (unlock KSgx pin w).
Proof.
  intros self pin w _. unfold srcm_HSM2DongleSGX__unlock, unlock. munf. mstep.
  change (MV.py_bytes (VList [VInt 0%Z])) with (mret (A:=pv) (VBytes [0])). mstep.
  rewrite (mbind_lift_ok _ (VBytes (0 :: pin))) by reflexivity.
  apply mbind_sim with (g := VBytes); [apply (m_send_spec SGXCMD_SGX_UNLOCK)|].
  intros r w2. apply (m_getitem_idx r 2). intros b w3.
  rewrite (mbind_lift_ok _ _ _ _ (py_ne_N b 0)). reflexivity.
Qed.

Theorem srcm_sgx_new_pin_ok : forall (self : pv) (pin : bytes) (w : world),
  wf_bytes pin ->
  srcm_HSM2DongleSGX__new_pin self (VBytes pin) w = mres VBool (new_pin KSgx pin w).
Proof.
  intros self pin w _. unfold srcm_HSM2DongleSGX__new_pin, new_pin. munf. mstep.
  change (MV.py_bytes (VList [VInt 0%Z])) with (mret (A:=pv) (VBytes [0])). mstep.
  rewrite (mbind_lift_ok _ (VBytes (0 :: pin))) by reflexivity.
  apply mbind_sim with (g := VBytes); [apply (m_send_spec SGXCMD_SGX_CHANGE_PASSWORD)|].
  intros r w2. apply (m_getitem_idx r 2). intros b w3.
  change (VInt 1%Z) with (VInt (Z.of_N 1)).
  rewrite (mbind_lift_ok _ _ _ _ (py_eq_N b 1)). reflexivity.
Qed.

Theorem srcm_sgx_onboard_ok : forall (self : pv) (seed pin : bytes) (w : world),
  wf_bytes pin -> wf_bytes seed ->
  srcm_HSM2DongleSGX__onboard self (VBytes seed) (VBytes pin) w = mres VBool (onboard KSgx seed pin w).
Proof.
  intros self seed pin w _ _. unfold srcm_HSM2DongleSGX__onboard, onboard. munf.
  cbn [py_type]. mstep.
  rewrite (mbind_lift_ok _ false) by reflexivity. mstep. cbn [py_truth]. mstep.
  rewrite (mbind_lift_ok _ (VInt (Z.of_nat (length seed)))) by reflexivity.
  change (VInt 32%Z) with (VInt (Z.of_N ONB_SEED_LENGTH)).
  mstep. rewrite (mbind_lift_ok _ _ _ _ (py_ne_nat_N _ _)). mstep. cbn [py_truth]. unfold nlen.
  destruct (N.of_nat (length seed) =? ONB_SEED_LENGTH) eqn:El; cbn [negb]; [|reflexivity].
  mstep. rewrite (mbind_lift_ok _ false) by reflexivity. mstep. cbn [py_truth]. mstep.
  change (MV.py_bytes (VList [VInt 0%Z])) with (mret (A:=pv) (VBytes [0])). mstep.
  rewrite (mbind_lift_ok _ (VBytes (0 :: seed))) by reflexivity. mstep.
  rewrite (mbind_lift_ok _ (VBytes (0 :: seed ++ pin))) by reflexivity.
  apply mbind_sim with (g := VBytes); [apply (m_send_spec SGXCMD_SGX_ONBOARD)|].
  intros r w3. rewrite mbind_assoc. apply (m_getitem_idx r 2). intros b w4. mstep.
  change (VInt 1%Z) with (VInt (Z.of_N 1)).
  rewrite (mbind_lift_ok _ _ _ _ (py_ne_N b 1)). mstep. cbn [py_truth].
  destruct (b =? 1); reflexivity.
Qed.
