(* C17: signer authorizations contain what the device will check.
   Model/SignerAuth.v (signer_version, auth_msg, eth_message, load_sauth, sauth_to_json,
   authorize_run), Model/Dongle.v (send_signatures, authorize_signer), Py/Base.v (dec_N, hex,
   fromhex).  Trace theorems are for ALL device scripts. *)
From PowHsm Require Import Model.SignerAuth Proofs.BytesLemmas Proofs.C01.
From Coq Require Import ZifyBool ZifyNat ZifyN Lia.
Ltac Zify.zify_post_hook ::= Z.to_euclidean_division_equations.
Open Scope N_scope.

Ltac splits := repeat match goal with |- _ /\ _ => split end.

(* ====================================================================== *)
(* 1. decimal rendering                                                    *)
(* ====================================================================== *)

Definition dstep (acc c : N) : N := acc * 10 + (c - 48).
Definition undec (x : str) : N := fold_left dstep x 0.
Definition is_digit (c : N) : Prop := 48 <= c <= 57.

Lemma dec_aux_step f n acc :
  dec_aux (S f) n acc =
  if n <? 10 then (48 + n mod 10) :: acc else dec_aux f (n / 10) ((48 + n mod 10) :: acc).
Proof. reflexivity. Qed.

Lemma pow2_succ f : 2 ^ N.of_nat (S f) = 2 * 2 ^ N.of_nat f.
Proof. rewrite Nat2N.inj_succ, N.pow_succ_r'. reflexivity. Qed.

Lemma dec_aux_spec : forall f n acc, n < 2 ^ N.of_nat f ->
  exists ds, dec_aux (S f) n acc = ds ++ acc
             /\ Forall is_digit ds
             /\ (forall a, fold_left dstep ds a = a * 10 ^ nlen ds + n)
             /\ n < 10 ^ nlen ds
             /\ (nlen ds = 1 \/ 10 ^ nlen ds <= 10 * n)
             /\ (hd 0 ds = 48 -> n = 0)
             /\ (n = 0 -> ds = [48])
             /\ 1 <= nlen ds.
Proof.
  induction f as [|f IH]; intros n acc H.
  - change (2 ^ N.of_nat 0) with 1 in H. assert (n = 0) by lia. subst n.
    exists [48]. splits.
    + reflexivity.
    + constructor; [unfold is_digit; lia|constructor].
    + intro a. cbn [fold_left]. unfold dstep. change (nlen [48]) with 1. change (10 ^ 1) with 10. lia.
    + change (nlen [48]) with 1. change (10 ^ 1) with 10. lia.
    + left; reflexivity.
    + reflexivity.
    + reflexivity.
    + change (nlen [48]) with 1. lia.
  - rewrite dec_aux_step. destruct (n <? 10) eqn:E.
    + exists [48 + n mod 10]. splits.
      * reflexivity.
      * constructor; [unfold is_digit; lia|constructor].
      * intro a. cbn [fold_left]. unfold dstep. change (nlen [48 + n mod 10]) with 1.
        change (10 ^ 1) with 10. lia.
      * change (nlen [48 + n mod 10]) with 1. change (10 ^ 1) with 10. lia.
      * left; reflexivity.
      * cbn [hd]. lia.
      * intro; subst; reflexivity.
      * cbn; lia.
    + rewrite pow2_succ in H.
      destruct (IH (n / 10) ((48 + n mod 10) :: acc)) as
          [ds [E1 [E2 [E3 [E4 [E5 [E6 [E7 E8]]]]]]]]; [lia|].
      exists (ds ++ [48 + n mod 10]).
      assert (Hl : nlen (ds ++ [48 + n mod 10]) = nlen ds + 1).
      { rewrite nlen_app. reflexivity. }
      assert (Hp : 10 ^ (nlen ds + 1) = 10 ^ nlen ds * 10).
      { rewrite N.pow_add_r. reflexivity. }
      rewrite Hl, Hp. remember (10 ^ nlen ds) as P.
      splits.
      * rewrite E1, <- app_assoc. reflexivity.
      * apply Forall_app; split; auto. constructor; [unfold is_digit; lia|constructor].
      * intro a. rewrite fold_left_app. cbn [fold_left]. rewrite E3. unfold dstep. lia.
      * lia.
      * right. destruct E5 as [E5|E5].
        -- rewrite E5 in HeqP. change (10 ^ 1) with 10 in HeqP. lia.
        -- lia.
      * destruct ds as [|d ds]; [cbn in E8; lia|]. cbn [app hd] in *. intro Hd.
        specialize (E6 Hd). lia.
      * intro; subst n. discriminate.
      * lia.
Qed.

Lemma dec_aux_fuel : forall f f' n acc,
  n < 2 ^ N.of_nat f -> n < 2 ^ N.of_nat f' -> dec_aux (S f) n acc = dec_aux (S f') n acc.
Proof.
  induction f as [|f IH]; intros f' n acc H H'.
  - change (2 ^ N.of_nat 0) with 1 in H. rewrite !dec_aux_step.
    replace (n <? 10) with true by lia. reflexivity.
  - rewrite (dec_aux_step (S f)), (dec_aux_step f'). destruct (n <? 10) eqn:E; [reflexivity|].
    destruct f' as [|f'].
    + change (2 ^ N.of_nat 0) with 1 in H'. lia.
    + rewrite pow2_succ in H, H'. apply IH; lia.
Qed.

Lemma size_bound n : n < 2 ^ N.of_nat (N.to_nat (N.size n)).
Proof. rewrite N2Nat.id. apply N.size_gt. Qed.

(* dec_N n is THE decimal representation of n *)
Theorem dec_N_spec n :
  undec (dec_N n) = n
  /\ Forall is_digit (dec_N n)
  /\ (hd 0 (dec_N n) = 48 -> n = 0)
  /\ (n = 0 -> dec_N n = [48])
  /\ 1 <= nlen (dec_N n)
  /\ n < 10 ^ nlen (dec_N n)
  /\ (nlen (dec_N n) = 1 \/ 10 ^ nlen (dec_N n) <= 10 * n).
Proof.
  unfold dec_N.
  destruct (dec_aux_spec _ n [] (size_bound n)) as [ds [E1 [E2 [E3 [E4 [E5 [E6 [E7 E8]]]]]]]].
  rewrite E1, app_nil_r. unfold undec. rewrite E3. splits; auto.
Qed.

Lemma dec_N_zero : dec_N 0 = [48].
Proof. reflexivity. Qed.

(* the loop stops because the number is exhausted, never because fuel ran out:
   any larger fuel gives the same text *)
Theorem dec_N_fuel_suffices n f :
  (N.to_nat (N.size n) <= f)%nat -> dec_aux (S f) n [] = dec_N n.
Proof.
  intro H. unfold dec_N. apply dec_aux_fuel; [|apply size_bound].
  eapply N.lt_le_trans; [apply size_bound|]. apply N.pow_le_mono_r; lia.
Qed.

Theorem undec_dec_N n : undec (dec_N n) = n.
Proof. apply dec_N_spec. Qed.

Theorem dec_N_injective n n' : dec_N n = dec_N n' -> n = n'.
Proof. intro H. rewrite <- (undec_dec_N n), <- (undec_dec_N n'), H. reflexivity. Qed.

Lemma dec_Z_nonneg z : (0 <= z)%Z -> dec_Z z = dec_N (Z.to_N z).
Proof. intro H. unfold dec_Z. replace (z <? 0)%Z with false by lia. reflexivity. Qed.

Theorem dec_Z_spec z : (0 <= z)%Z ->
  Z.of_N (undec (dec_Z z)) = z
  /\ Forall is_digit (dec_Z z)
  /\ (hd 0 (dec_Z z) = 48 -> z = 0%Z)
  /\ (z = 0%Z -> dec_Z z = [48]).
Proof.
  intro H. rewrite dec_Z_nonneg by exact H.
  destruct (dec_N_spec (Z.to_N z)) as [E1 [E2 [E3 [E4 _]]]].
  splits; auto.
  - rewrite E1. lia.
  - intro Hd. specialize (E3 Hd). lia.
  - intro; subst z. reflexivity.
Qed.

Theorem dec_Z_injective z z' : (0 <= z)%Z -> (0 <= z')%Z -> dec_Z z = dec_Z z' -> z = z'.
Proof.
  intros H H' E. rewrite !dec_Z_nonneg in E by assumption. apply dec_N_injective in E. lia.
Qed.

(* a negative number is never rendered like a non-negative one *)
Theorem dec_Z_sign z z' : (z < 0)%Z -> (0 <= z')%Z -> dec_Z z <> dec_Z z'.
Proof.
  intros H H' E. rewrite (dec_Z_nonneg z' H') in E. unfold dec_Z in E.
  replace (z <? 0)%Z with true in E by lia.
  destruct (dec_N_spec (Z.to_N z')) as [_ [E2 _]]. rewrite <- E in E2.
  inversion E2 as [|? ? Hd _]. unfold is_digit in Hd. lia.
Qed.

(* number of digits is monotone *)
Lemma dec_N_len_mono k k' : k <= k' -> nlen (dec_N k) <= nlen (dec_N k').
Proof.
  intro H.
  destruct (dec_N_spec k) as [_ [_ [_ [_ [A1 [A2 A3]]]]]].
  destruct (dec_N_spec k') as [_ [_ [_ [_ [B1 [B2 B3]]]]]].
  destruct (N.le_gt_cases (nlen (dec_N k)) (nlen (dec_N k'))) as [|Hlt]; [assumption|exfalso].
  destruct A3 as [A3|A3]; [lia|].
  assert (Hp : 10 * 10 ^ nlen (dec_N k') <= 10 ^ nlen (dec_N k)).
  { rewrite <- N.pow_succ_r'. apply N.pow_le_mono_r; lia. }
  lia.
Qed.

(* ====================================================================== *)
(* 2. the text to be signed and its Ethereum wrapping                      *)
(* ====================================================================== *)

Lemma app_inj_len {A} : forall (a a' b b' : list A),
  length a = length a' -> a ++ b = a' ++ b' -> a = a' /\ b = b'.
Proof.
  induction a as [|x a IH]; intros [|x' a'] b b' Hl H; try discriminate.
  - auto.
  - cbn [app] in H. inversion H; subst. cbn [length] in Hl.
    destruct (IH a' b b') as [-> ->]; auto.
Qed.

(* two texts over an alphabet P, each followed by a separator outside P *)
Lemma app_inj_sep {A} (P : A -> Prop) x : ~ P x -> forall (a a' r r' : list A),
  Forall P a -> Forall P a' -> a ++ x :: r = a' ++ x :: r' -> a = a' /\ r = r'.
Proof.
  intros Hx. induction a as [|y a IH]; intros [|y' a'] r r' Ha Ha' H; cbn [app] in H.
  - inversion H; auto.
  - inversion H; subst. inversion Ha'; subst. contradiction.
  - inversion H; subst. inversion Ha; subst. contradiction.
  - inversion H; subst. inversion Ha; inversion Ha'; subst.
    destruct (IH a' r r') as [-> ->]; auto.
Qed.

Theorem msg_spec h n :
  auth_msg h n = s "RSK_powHSM_signer_" ++ h ++ s "_iteration_" ++ dec_Z n.
Proof. reflexivity. Qed.

(* different signer versions never share a text (hashes of the same length, e.g. 64 chars) *)
Theorem msg_injective h h' n n' :
  length h = length h' -> (0 <= n)%Z -> (0 <= n')%Z ->
  auth_msg h n = auth_msg h' n' -> h = h' /\ n = n'.
Proof.
  intros Hl Hn Hn' E. unfold auth_msg in E. apply app_inv_head in E.
  apply app_inj_len in E; [|exact Hl]. destruct E as [-> E]. split; [reflexivity|].
  apply app_inv_head in E. apply dec_Z_injective; assumption.
Qed.

(* ... nor hashes of any lengths as long as they are hex text *)
Definition is_lowhex (c : N) : Prop := 48 <= c <= 57 \/ 97 <= c <= 102.

Theorem msg_injective_hex h h' n n' :
  Forall is_lowhex h -> Forall is_lowhex h' -> (0 <= n)%Z -> (0 <= n')%Z ->
  auth_msg h n = auth_msg h' n' -> h = h' /\ n = n'.
Proof.
  intros Hh Hh' Hn Hn' E. unfold auth_msg in E. apply app_inv_head in E.
  change (s "_iteration_") with (95 :: s "iteration_") in E. cbn [app] in E.
  apply (app_inj_sep is_lowhex 95) in E; auto; [|unfold is_lowhex; lia].
  destruct E as [-> E]. split; [reflexivity|].
  apply app_inv_head in E. apply dec_Z_injective; assumption.
Qed.

Theorem eth_wrap_spec m :
  eth_message m = [25] ++ s "Ethereum Signed Message:" ++ [10] ++ dec_N (nlen m) ++ m.
Proof. reflexivity. Qed.

Theorem eth_message_injective m m' : eth_message m = eth_message m' -> m = m'.
Proof.
  unfold eth_message. intro E. do 3 apply app_inv_head in E.
  assert (Hk : nlen m = nlen m').
  { pose proof (f_equal (@nlen N) E) as Hl. rewrite !nlen_app in Hl.
    destruct (N.le_ge_cases (nlen m) (nlen m')) as [H|H];
      pose proof (dec_N_len_mono _ _ H); lia. }
  rewrite Hk in E. apply app_inv_head in E. exact E.
Qed.

Section Digest.
Variable keccak : bytes -> bytes.

Theorem digest_depends_only_on_version h h' n n' :
  h = h' -> n = n' -> auth_digest keccak h n = auth_digest keccak h' n'.
Proof. intros -> ->. reflexivity. Qed.

(* two different signer versions with the same digest exhibit a Keccak collision *)
Theorem digest_collision h h' n n' :
  length h = length h' -> (0 <= n)%Z -> (0 <= n')%Z ->
  auth_digest keccak h n = auth_digest keccak h' n' ->
  (h = h' /\ n = n') \/ (exists x y, x <> y /\ keccak x = keccak y).
Proof.
  intros Hl Hn Hn' E. unfold auth_digest in E.
  destruct (list_eq_dec N.eq_dec (eth_message (auth_msg h n)) (eth_message (auth_msg h' n')))
    as [Heq|Hne].
  - left. apply eth_message_injective in Heq. apply msg_injective; assumption.
  - right. eauto.
Qed.
End Digest.

(* ====================================================================== *)
(* 3. hex text, and which (hash, iteration) pairs are accepted             *)
(* ====================================================================== *)

Lemma hexdigit_lowhex n : n < 16 -> is_lowhex (hexdigit n).
Proof. intro H. unfold is_lowhex, hexdigit. destruct (n <? 10) eqn:E; lia. Qed.

Lemma hexval_hexdigit n : n < 16 -> hexval (hexdigit n) = Some n.
Proof.
  intro H. unfold hexval, hexdigit. destruct (n <? 10) eqn:E.
  - replace ((48 <=? 48 + n) && (48 + n <=? 57)) with true by lia. f_equal. lia.
  - replace ((48 <=? 87 + n) && (87 + n <=? 57)) with false by lia.
    replace ((97 <=? 87 + n) && (87 + n <=? 102)) with true by lia. f_equal. lia.
Qed.

Lemma hexdigit_not_space n : n < 16 -> is_pyspace (hexdigit n) = false.
Proof. intro H. unfold is_pyspace, hexdigit. destruct (n <? 10) eqn:E; lia. Qed.

Lemma hexval_lt c h : hexval c = Some h -> h < 16.
Proof.
  unfold hexval.
  destruct ((48 <=? c) && (c <=? 57)) eqn:E1; [intro H; inversion H; lia|].
  destruct ((97 <=? c) && (c <=? 102)) eqn:E2; [intro H; inversion H; lia|].
  destruct ((65 <=? c) && (c <=? 70)) eqn:E3; [intro H; inversion H; lia|discriminate].
Qed.

Theorem fromhex_hex b : wf_bytes b -> fromhex (hex b) = Some b.
Proof.
  unfold fromhex. induction 1 as [|x b Hx Hb IH]; [reflexivity|].
  cbn [hex fromhex_aux].
  assert (H1 : x / 16 < 16) by lia. assert (H2 : x mod 16 < 16) by lia.
  rewrite (hexdigit_not_space _ H1), (hexval_hexdigit _ H1), (hexval_hexdigit _ H2), IH.
  f_equal. f_equal. lia.
Qed.

Lemma fromhex_aux_wf : forall x pend b,
  (forall h, pend = Some h -> h < 16) -> fromhex_aux x pend = Some b -> wf_bytes b.
Proof.
  induction x as [|c r IH]; intros pend b Hp H; cbn [fromhex_aux] in H.
  - destruct pend; [discriminate|]. inversion H. constructor.
  - destruct pend as [h|].
    + destruct (hexval c) as [l|] eqn:El; [|discriminate].
      destruct (fromhex_aux r None) as [bs|] eqn:Er; [|discriminate].
      inversion H; subst. constructor.
      * pose proof (Hp h eq_refl). pose proof (hexval_lt _ _ El). lia.
      * apply (IH None); [discriminate|exact Er].
    + destruct (is_pyspace c).
      * apply (IH None); [discriminate|exact H].
      * destruct (hexval c) as [h|] eqn:Eh; [|discriminate].
        apply (IH (Some h)); [|exact H]. intros ? E; inversion E; subst.
        eapply hexval_lt; eauto.
Qed.

(* bytes.fromhex only ever produces bytes *)
Theorem fromhex_wf x b : fromhex x = Some b -> wf_bytes b.
Proof. apply fromhex_aux_wf. discriminate. Qed.

Lemma hex_length b : length (hex b) = (2 * length b)%nat.
Proof. induction b as [|x b IH]; [reflexivity|]. cbn [hex length]. rewrite IH. lia. Qed.

Lemma hex_lowhex b : wf_bytes b -> Forall is_lowhex (hex b).
Proof.
  induction 1 as [|x b Hx Hb IH]; [constructor|]. cbn [hex].
  constructor; [apply hexdigit_lowhex; lia|]. constructor; [apply hexdigit_lowhex; lia|exact IH].
Qed.

Lemma hex_injective b b' : wf_bytes b -> wf_bytes b' -> hex b = hex b' -> b = b'.
Proof.
  intros H H' E. pose proof (fromhex_hex b H) as F. rewrite E, (fromhex_hex b' H') in F.
  inversion F; reflexivity.
Qed.

Section Accept.
Variable py_int : str -> option Z.

Theorem iteration_accepted_iff h it h' n :
  signer_version py_int (JStr h) it = Some (h', n) <->
  exists hb, fromhex h = Some hb /\ length hb = 32%nat /\ h' = hex hb
             /\ (it = JInt n \/ exists x, it = JStr x /\ py_int x = Some n)
             /\ (0 <= n < 65536)%Z.
Proof.
  unfold signer_version. split.
  - destruct (fromhex h) as [hb|]; [|discriminate].
    destruct (nlen hb =? 32) eqn:El; cbn [negb]; [|discriminate].
    intro H. exists hb.
    assert (Hlen : length hb = 32%nat) by (unfold nlen in El; lia).
    assert (K : forall z, (if (0 <=? z)%Z && (z <? 65536)%Z then Some (hex hb, z) else None)
                          = Some (h', n) -> h' = hex hb /\ z = n /\ (0 <= n < 65536)%Z).
    { intros z Hz. destruct ((0 <=? z)%Z && (z <? 65536)%Z) eqn:Er; [|discriminate].
      inversion Hz; subst. repeat split; lia. }
    destruct it as [|bb|z|fl|x|l|kv]; try discriminate.
    + apply K in H. destruct H as [-> [-> Hr]]. splits; auto; lia.
    + destruct (py_int x) as [z|] eqn:Ex; [|discriminate].
      apply K in H. destruct H as [-> [-> Hr]]. splits; auto; try lia. right. exists x. auto.
  - intros [hb [-> [Hl [-> [Hit Hr]]]]].
    replace (nlen hb =? 32) with true by (unfold nlen; lia). cbn [negb].
    destruct Hit as [->|[x [-> Hx]]]; [|rewrite Hx];
      replace ((0 <=? n)%Z && (n <? 65536)%Z) with true by lia; reflexivity.
Qed.

(* the hash must be a string *)
Theorem hash_not_string_refused hj it :
  (forall h, hj <> JStr h) -> signer_version py_int hj it = None.
Proof. intro H. destruct hj; try reflexivity. exfalso. eapply H; reflexivity. Qed.

Theorem hash_not_hex_refused h it : fromhex h = None -> signer_version py_int (JStr h) it = None.
Proof. intro H. unfold signer_version. rewrite H. reflexivity. Qed.

Theorem hash_wrong_size_refused h hb it :
  fromhex h = Some hb -> length hb <> 32%nat -> signer_version py_int (JStr h) it = None.
Proof.
  intros H Hl. unfold signer_version. rewrite H.
  replace (nlen hb =? 32) with false by (unfold nlen; lia). reflexivity.
Qed.

(* booleans, floats, null, lists and objects are refused as iteration *)
Theorem iteration_wrong_type_refused hj it :
  (forall z, it <> JInt z) -> (forall x, it <> JStr x) -> signer_version py_int hj it = None.
Proof.
  intros H1 H2. unfold signer_version. destruct hj; try reflexivity.
  destruct (fromhex x); [|reflexivity]. destruct (negb (nlen b =? 32)); [reflexivity|].
  destruct it; try reflexivity; exfalso; [eapply H1|eapply H2]; reflexivity.
Qed.

Corollary iteration_bool_refused hj b : signer_version py_int hj (JBool b) = None.
Proof. apply iteration_wrong_type_refused; discriminate. Qed.
Corollary iteration_float_refused hj f : signer_version py_int hj (JFloat f) = None.
Proof. apply iteration_wrong_type_refused; discriminate. Qed.
Corollary iteration_null_refused hj : signer_version py_int hj JNull = None.
Proof. apply iteration_wrong_type_refused; discriminate. Qed.
Corollary iteration_list_refused hj l : signer_version py_int hj (JArr l) = None.
Proof. apply iteration_wrong_type_refused; discriminate. Qed.
Corollary iteration_object_refused hj o : signer_version py_int hj (JObj o) = None.
Proof. apply iteration_wrong_type_refused; discriminate. Qed.

Theorem iteration_out_of_range_refused hj z :
  (z < 0 \/ 65536 <= z)%Z -> signer_version py_int hj (JInt z) = None.
Proof.
  intro H. unfold signer_version. destruct hj; try reflexivity.
  destruct (fromhex x); [|reflexivity]. destruct (negb (nlen b =? 32)); [reflexivity|].
  replace ((0 <=? z)%Z && (z <? 65536)%Z) with false by lia. reflexivity.
Qed.

Theorem iteration_string_refused hj x :
  (py_int x = None \/ exists z, py_int x = Some z /\ (z < 0 \/ 65536 <= z)%Z) ->
  signer_version py_int hj (JStr x) = None.
Proof.
  intro H. unfold signer_version. destruct hj; try reflexivity.
  destruct (fromhex x0); [|reflexivity]. destruct (negb (nlen b =? 32)); [reflexivity|].
  destruct H as [->|[z [-> Hz]]]; [reflexivity|].
  replace ((0 <=? z)%Z && (z <? 65536)%Z) with false by lia. reflexivity.
Qed.

(* whatever blanks / letter case the input used, what is kept is the canonical lower-case text
   of the 32 bytes: 64 characters that decode to the same bytes *)
Theorem canonical_hash hj it h' n :
  signer_version py_int hj it = Some (h', n) ->
  exists h hb, hj = JStr h /\ fromhex h = Some hb /\ length hb = 32%nat /\ wf_bytes hb
               /\ h' = hex hb /\ fromhex h' = Some hb
               /\ length h' = 64%nat /\ Forall is_lowhex h' /\ (0 <= n < 65536)%Z.
Proof.
  intro H. destruct hj as [| | | |h| |]; try discriminate.
  apply iteration_accepted_iff in H. destruct H as [hb [Hf [Hl [-> [_ Hr]]]]].
  pose proof (fromhex_wf _ _ Hf) as Hw.
  exists h, hb. splits; auto; try lia.
  - apply fromhex_hex; exact Hw.
  - rewrite hex_length, Hl. reflexivity.
  - apply hex_lowhex; exact Hw.
Qed.

(* the canonical text is a fixed point: loading it again gives the same version *)
Theorem canonical_hash_idempotent hj it h' n :
  signer_version py_int hj it = Some (h', n) ->
  signer_version py_int (JStr h') (JInt n) = Some (h', n).
Proof.
  intro H. apply canonical_hash in H.
  destruct H as [h [hb [_ [_ [Hl [_ [-> [Hf [_ [_ Hr]]]]]]]]]].
  apply iteration_accepted_iff. exists hb. splits; auto; lia.
Qed.

End Accept.

(* ====================================================================== *)
(* 4. authorization files: save / load                                     *)
(* ====================================================================== *)

Lemma str_eqb_refl x : str_eqb x x = true.
Proof. unfold str_eqb. induction x as [|c x IH]; [reflexivity|]. cbn [list_eqb]. rewrite N.eqb_refl, IH. reflexivity. Qed.

Lemma jget_here k v l : jget k ((k, v) :: l) = Some v.
Proof. unfold jget. cbn [assoc_str]. rewrite str_eqb_refl. reflexivity. Qed.

Lemma jget_next k k' v l : str_eqb k k' = false -> jget k ((k', v) :: l) = jget k l.
Proof. intro H. unfold jget. cbn [assoc_str]. rewrite H. reflexivity. Qed.

Section Files.
Variable py_int : str -> option Z.
Variable der_ok : str -> bool.

Definition sig_of_json (j : json) : option str :=
  match j with JStr x => if der_ok x then Some x else None | _ => None end.

Lemma all_some_sigs l :
  Forall (fun x => der_ok x = true) l -> all_some (map sig_of_json (map JStr l)) = Some l.
Proof.
  induction 1 as [|x l Hx Hl IH]; [reflexivity|].
  cbn [map all_some sig_of_json]. rewrite Hx, IH. reflexivity.
Qed.

Lemma all_some_sigs_inv : forall sigs l,
  all_some (map sig_of_json sigs) = Some l ->
  sigs = map JStr l /\ Forall (fun x => der_ok x = true) l.
Proof.
  induction sigs as [|j sigs IH]; intros l H; cbn [map all_some] in H.
  - inversion H. split; [reflexivity|constructor].
  - destruct (sig_of_json j) as [x|] eqn:Ej; [|discriminate].
    destruct (all_some (map sig_of_json sigs)) as [r|] eqn:Er; [|discriminate].
    inversion H; subst. destruct (IH r eq_refl) as [-> Hf].
    unfold sig_of_json in Ej. destruct j; try discriminate.
    destruct (der_ok x0) eqn:Ed; [|discriminate]. inversion Ej; subst.
    split; [reflexivity|constructor; assumption].
Qed.

(* an authorization survives a save/load cycle unchanged *)
Theorem file_roundtrip a hb :
  sa_hash a = hex hb -> length hb = 32%nat -> wf_bytes hb ->
  (0 <= sa_iteration a < 65536)%Z ->
  Forall (fun x => der_ok x = true) (sa_signatures a) ->
  load_sauth py_int der_ok (sauth_to_json a) = Some a.
Proof.
  intros Hh Hl Hw Hr Hs. destruct a as [h n sigs]. cbn [sa_hash sa_iteration sa_signatures] in *.
  subst h. unfold load_sauth, sauth_to_json. cbn [sa_hash sa_iteration sa_signatures].
  rewrite jget_here. change (py_eq_int (JInt 1) 1) with true. cbn [negb].
  rewrite (jget_next (s "signer") (s "version")) by reflexivity. rewrite jget_here.
  rewrite (jget_next (s "signatures") (s "version")) by reflexivity.
  rewrite (jget_next (s "signatures") (s "signer")) by reflexivity. rewrite jget_here.
  rewrite jget_here.
  rewrite (jget_next (s "iteration") (s "hash")) by reflexivity. rewrite jget_here.
  assert (Hv : signer_version py_int (JStr (hex hb)) (JInt n) = Some (hex hb, n)).
  { apply iteration_accepted_iff. exists hb. splits; auto; try lia. apply fromhex_hex; exact Hw. }
  rewrite Hv.
  change (fun j : json => match j with JStr x => if der_ok x then Some x else None | _ => None end)
    with sig_of_json.
  rewrite (all_some_sigs _ Hs). reflexivity.
Qed.

(* everything a successfully loaded document must satisfy *)
Theorem load_sauth_inv doc a :
  load_sauth py_int der_ok doc = Some a ->
  exists m v sg sigs h it,
    doc = JObj m
    /\ jget (s "version") m = Some v /\ py_eq_int v 1 = true
    /\ jget (s "signer") m = Some (JObj sg)
    /\ jget (s "signatures") m = Some (JArr sigs)
    /\ jget (s "hash") sg = Some h /\ jget (s "iteration") sg = Some it
    /\ signer_version py_int h it = Some (sa_hash a, sa_iteration a)
    /\ sigs = map JStr (sa_signatures a)
    /\ Forall (fun x => der_ok x = true) (sa_signatures a).
Proof.
  unfold load_sauth. intro H.
  destruct doc as [| | | | | |m]; try discriminate.
  destruct (jget (s "version") m) as [v|] eqn:Ev; [|discriminate].
  destruct (py_eq_int v 1) eqn:Ep; cbn [negb] in H; [|discriminate].
  destruct (jget (s "signer") m) as [[| | | | | |sg]|] eqn:Es; try discriminate.
  destruct (jget (s "signatures") m) as [[| | | | |sigs|]|] eqn:Eg; try discriminate.
  destruct (jget (s "hash") sg) as [h|] eqn:Eh; [|discriminate].
  destruct (jget (s "iteration") sg) as [it|] eqn:Ei; [|discriminate].
  destruct (signer_version py_int h it) as [[hh n]|] eqn:Esv; [|discriminate].
  change (fun j : json => match j with JStr x => if der_ok x then Some x else None | _ => None end)
    with sig_of_json in H.
  destruct (all_some (map sig_of_json sigs)) as [l|] eqn:El; [|discriminate].
  inversion H; subst a. cbn [sa_hash sa_iteration sa_signatures].
  destruct (all_some_sigs_inv _ _ El) as [-> Hf].
  exists m, v, sg, (map JStr l), h, it. splits; auto.
Qed.

(* what is loaded is always well formed: canonical 64-character hash of 32 bytes, iteration in
   range, every signature accepted by the DER parser *)
Theorem loaded_wellformed doc a :
  load_sauth py_int der_ok doc = Some a ->
  exists hb, sa_hash a = hex hb /\ length hb = 32%nat /\ wf_bytes hb
             /\ (0 <= sa_iteration a < 65536)%Z
             /\ Forall (fun x => der_ok x = true) (sa_signatures a).
Proof.
  intro H. apply load_sauth_inv in H.
  destruct H as [m [v [sg [sigs [h [it [_ [_ [_ [_ [_ [_ [_ [Hv [_ Hf]]]]]]]]]]]]]]].
  apply canonical_hash in Hv. destruct Hv as [h0 [hb [_ [_ [Hl [Hw [Hh [_ [_ [_ Hr]]]]]]]]]].
  exists hb. splits; auto; lia.
Qed.

(* hence load . save . load = load *)
Corollary load_save_load doc a :
  load_sauth py_int der_ok doc = Some a -> load_sauth py_int der_ok (sauth_to_json a) = Some a.
Proof.
  intro H. destruct (loaded_wellformed _ _ H) as [hb [Hh [Hl [Hw [Hr Hf]]]]].
  eapply file_roundtrip; eauto.
Qed.

(* ---- malformed documents are refused ---- *)
Ltac refuse :=
  match goal with
  | |- load_sauth ?p ?d ?doc = None =>
      destruct (load_sauth p d doc) as [a|] eqn:E; [exfalso|reflexivity];
      apply load_sauth_inv in E;
      destruct E as [m0 [v0 [sg0 [sigs0 [h0 [it0 [E0 [E1 [E2 [E3 [E4 [E5 [E6 [E7 [E8 E9]]]]]]]]]]]]]]]
  end.

Theorem not_object_refused doc : (forall m, doc <> JObj m) -> load_sauth py_int der_ok doc = None.
Proof. intro H. refuse. eapply H; eauto. Qed.

Theorem version_missing_refused m :
  jget (s "version") m = None -> load_sauth py_int der_ok (JObj m) = None.
Proof. intro H. refuse. inversion E0; subst. congruence. Qed.

Theorem wrong_version_refused m v :
  jget (s "version") m = Some v -> py_eq_int v 1 = false -> load_sauth py_int der_ok (JObj m) = None.
Proof. intros H Hv. refuse. inversion E0; subst. congruence. Qed.

Theorem signer_missing_refused m :
  (forall sg, jget (s "signer") m <> Some (JObj sg)) -> load_sauth py_int der_ok (JObj m) = None.
Proof. intro H. refuse. inversion E0; subst. eapply H; eauto. Qed.

Theorem signatures_not_list_refused m :
  (forall l, jget (s "signatures") m <> Some (JArr l)) -> load_sauth py_int der_ok (JObj m) = None.
Proof. intro H. refuse. inversion E0; subst. eapply H; eauto. Qed.

Theorem hash_missing_refused m sg :
  jget (s "signer") m = Some (JObj sg) -> jget (s "hash") sg = None ->
  load_sauth py_int der_ok (JObj m) = None.
Proof. intros H1 H2. refuse. inversion E0; subst. congruence. Qed.

Theorem iteration_missing_refused m sg :
  jget (s "signer") m = Some (JObj sg) -> jget (s "iteration") sg = None ->
  load_sauth py_int der_ok (JObj m) = None.
Proof. intros H1 H2. refuse. inversion E0; subst. congruence. Qed.

Theorem bad_version_refused m sg h it :
  jget (s "signer") m = Some (JObj sg) ->
  jget (s "hash") sg = Some h -> jget (s "iteration") sg = Some it ->
  signer_version py_int h it = None -> load_sauth py_int der_ok (JObj m) = None.
Proof. intros H1 H2 H3 H4. refuse. inversion E0; subst. congruence. Qed.

Theorem bad_signature_refused m sigs j :
  jget (s "signatures") m = Some (JArr sigs) -> In j sigs ->
  (forall x, j = JStr x -> der_ok x = false) -> load_sauth py_int der_ok (JObj m) = None.
Proof.
  intros H1 H2 H3. refuse. inversion E0; subst m0. rewrite H1 in E4. inversion E4; subst sigs.
  rewrite E8 in H2. apply in_map_iff in H2. destruct H2 as [x [<- Hin]].
  rewrite Forall_forall in E9. specialize (E9 x Hin). rewrite (H3 x eq_refl) in E9. discriminate.
Qed.

(* add_signature only ever appends an accepted signature, and keeps files loadable *)
Theorem add_signature_spec a sg a' :
  add_signature der_ok a sg = Some a' <->
  der_ok sg = true /\ a' = mkSauth (sa_hash a) (sa_iteration a) (sa_signatures a ++ [sg]).
Proof.
  unfold add_signature. destruct (der_ok sg); split.
  - intro H; inversion H; auto.
  - intros [_ ->]; reflexivity.
  - discriminate.
  - intros [H _]; discriminate.
Qed.

Theorem add_signature_loadable doc a sg a' :
  load_sauth py_int der_ok doc = Some a -> add_signature der_ok a sg = Some a' ->
  load_sauth py_int der_ok (sauth_to_json a') = Some a'.
Proof.
  intros H Ha. apply add_signature_spec in Ha. destruct Ha as [Hd ->].
  destruct (loaded_wellformed _ _ H) as [hb [Hh [Hl [Hw [Hr Hf]]]]].
  apply (file_roundtrip _ hb); cbn [sa_hash sa_iteration sa_signatures]; auto.
  apply Forall_app; split; auto.
Qed.

End Files.

(* ====================================================================== *)
(* 5. the exchange with the device, for every device script                *)
(* ====================================================================== *)

Definition SUCCESS : N := SAUTH_OP_OP_SIGN_RES_SUCCESS.

(* iteration as 2 bytes, big-endian *)
Definition be2 (n : Z) : bytes := [Z.to_N n / 256; Z.to_N n mod 256].

Definition ver_apdu (hb : bytes) (n : Z) : bytes :=
  [CLA; CMD_SIGNER_AUTH; SAUTH_OP_OP_SIGVER] ++ hb ++ be2 n.
Definition sig_apdu (sg : bytes) : bytes := [CLA; CMD_SIGNER_AUTH; SAUTH_OP_OP_SIGN] ++ sg.

Lemma be2_spec n : (0 <= n < 65536)%Z ->
  to_bytes_be (N.to_nat SIGNER_AUTH_ITERATION_SIZE) n = Some (be2 n)
  /\ length (be2 n) = 2%nat /\ wf_bytes (be2 n) /\ Z.of_N (from_bytes_be (be2 n)) = n.
Proof.
  intro H. change (N.to_nat SIGNER_AUTH_ITERATION_SIZE) with 2%nat. splits.
  - unfold to_bytes_be, to_bytes_le. replace (n <? 0)%Z with false by lia.
    change (256 ^ N.of_nat 2) with 65536. replace (Z.to_N n <? 65536) with true by lia.
    cbn [le_bytes rev app]. unfold be2. f_equal. f_equal. lia.
  - reflexivity.
  - unfold be2. constructor; [lia|]. constructor; [lia|constructor].
  - unfold be2, from_bytes_be. cbn [fold_left]. lia.
Qed.

Lemma be2_out_of_range n : (n < 0 \/ 65536 <= n)%Z ->
  to_bytes_be (N.to_nat SIGNER_AUTH_ITERATION_SIZE) n = None.
Proof.
  intro H. change (N.to_nat SIGNER_AUTH_ITERATION_SIZE) with 2%nat.
  unfold to_bytes_be, to_bytes_le. destruct (n <? 0)%Z eqn:E; [reflexivity|].
  change (256 ^ N.of_nat 2) with 65536. replace (Z.to_N n <? 65536) with false by lia. reflexivity.
Qed.

(* "signature accepted, send more": a data answer whose byte 3 is not SUCCESS *)
Definition more (r : resp) : bool :=
  match r with
  | Data d => match idx d 3 with Some x => negb (x =? SUCCESS) | None => false end
  | _ => false
  end.

(* number of leading answers (at most one per signature) that say "more" *)
Fixpoint lead (sigs : list bytes) (sc : list resp) : nat :=
  match sigs, sc with
  | _ :: rest, r :: sc' => if more r then S (lead rest sc') else O
  | _, _ => O
  end.

(* what the client makes of the first answer that does not say "more" *)
Definition verdict (r : resp) : result bool :=
  match classify r with
  | Exn e => Exn e
  | Ok d => match idx d 3 with
            | None => Exn (Py IndexError)
            | Some x => if x =? SUCCESS then Ok true else Exn DongleError
            end
  end.

(* the APDUs paired with the script's answers (a silent device = timeout) *)
Fixpoint exchanges (aps : list bytes) (sc : list resp) : list event :=
  match aps with
  | [] => []
  | a :: r => Apdu a (hd TimeoutR sc) :: exchanges r (tl sc)
  end.

Lemma send_signatures_run : forall sigs last sc cn o tr ci p rp fs,
  (forall r, last = Some r -> r <> SUCCESS) ->
  send_signatures sigs last (mkWorld sc cn o tr ci p rp fs) =
  (if (lead sigs sc <? length sigs)%nat then verdict (nth (lead sigs sc) sc TimeoutR)
   else Exn DongleError,
   mkWorld (skipn (Nat.min (S (lead sigs sc)) (length sigs)) sc) cn o
           (rev (exchanges (map sig_apdu (firstn (Nat.min (S (lead sigs sc)) (length sigs)) sigs)) sc)
            ++ tr) ci p rp fs).
Proof.
  induction sigs as [|sg rest IH]; intros last sc cn o tr ci p rp fs Hlast.
  - cbn [send_signatures lead length Nat.ltb Nat.leb Nat.min skipn firstn map exchanges rev app].
    destruct last as [r|]; [|reflexivity].
    fold SUCCESS. replace (r =? SUCCESS) with false; [reflexivity|].
    specialize (Hlast r eq_refl). lia.
  - cbn [send_signatures]. unfold bind at 1. unfold send_command. wsimpl.
    destruct sc as [|r sc'].
    + cbn [lead length Nat.ltb Nat.leb Nat.min skipn firstn map exchanges rev app nth hd tl].
      reflexivity.
    + cbn [lead]. destruct r as [d|sw| | | |];
        try (cbn [more classify length Nat.ltb Nat.leb Nat.min skipn firstn map exchanges rev app
                  nth hd tl verdict]; reflexivity).
      2: { cbn [more length Nat.ltb Nat.leb Nat.min skipn firstn map exchanges rev app
                nth hd tl]. unfold verdict. cbn [classify].
           destruct (user_defined sw); reflexivity. }
      cbn [classify more]. unfold bind at 1. unfold idxM, OFF_DATAn.
      change (N.to_nat OFF_DATA) with 3%nat.
      destruct (idx d 3) as [x|] eqn:Ex.
      * cbn [of_opt ret]. fold SUCCESS. destruct (x =? SUCCESS) eqn:Es; cbn [negb].
        -- cbn [length Nat.ltb Nat.leb Nat.min skipn firstn map exchanges rev app nth hd tl].
           unfold verdict. cbn [classify]. rewrite Ex, Es. reflexivity.
        -- rewrite IH by (intros r0 Hr0; inversion Hr0; subst; lia).
           cbn [length Nat.min skipn firstn map exchanges rev nth hd tl].
           change (S (lead rest sc') <? S (length rest))%nat
             with (lead rest sc' <? length rest)%nat.
           rewrite <- app_assoc. reflexivity.
      * cbn [of_opt raise].
        cbn [length Nat.ltb Nat.leb Nat.min skipn firstn map exchanges rev app nth hd tl].
        unfold verdict. cbn [classify]. rewrite Ex. reflexivity.
Qed.

Lemma classify_ok r d : classify r = Ok d <-> r = Data d.
Proof.
  split; [|intros ->; reflexivity].
  destruct r as [b|sw| | | |]; cbn [classify]; try discriminate.
  - intro H; inversion H; reflexivity.
  - destruct (user_defined sw); discriminate.
Qed.

(* THE exchange: one version APDU, then signatures in list order while the device says "more" *)
Theorem authorize_signer_run hb n sigs w : (0 <= n < 65536)%Z ->
  authorize_signer hb n sigs w =
  let a0 := next_answer w in
  let sc := tl (script w) in
  match a0 with
  | Data _ =>
      let k := lead sigs sc in
      let m := Nat.min (S k) (length sigs) in
      (if (k <? length sigs)%nat then verdict (nth k sc TimeoutR) else Exn DongleError,
       after w (Apdu (ver_apdu hb n) a0 :: exchanges (map sig_apdu (firstn m sigs)) sc)
             (skipn m sc))
  | _ => (match classify a0 with Ok _ => Exn DongleError | Exn e => Exn e end,
          after w [Apdu (ver_apdu hb n) a0] sc)
  end.
Proof.
  intro Hn. destruct (be2_spec n Hn) as [Hb _].
  unfold authorize_signer. rewrite Hb. cbn [of_opt]. unfold bind at 1. cbn [ret].
  unfold bind at 1. rewrite send_command_after. cbv zeta.
  change (CLA :: CMD_SIGNER_AUTH :: SAUTH_OP_OP_SIGVER :: hb ++ be2 n) with (ver_apdu hb n).
  destruct w as [sc cn o tr ci p rp fs]. unfold next_answer, after.
  cbn [script connects opened trace comm_issue pin rand_pins fs_ok].
  destruct sc as [|a0 sc]; [reflexivity|]. cbn [tl].
  destruct a0 as [d|sw| | | |]; cbn [classify]; try reflexivity.
  - rewrite send_signatures_run by discriminate.
    cbn [rev app]. rewrite <- app_assoc. reflexivity.
  - destruct (user_defined sw); reflexivity.
Qed.

(* an out-of-range iteration raises before anything is sent *)
Theorem authorize_signer_out_of_range hb n sigs w : (n < 0 \/ 65536 <= n)%Z ->
  authorize_signer hb n sigs w = (Exn (Py OverflowError), w).
Proof. intro H. unfold authorize_signer. rewrite (be2_out_of_range n H). reflexivity. Qed.

(* ---- the APDUs on the wire ---- *)
Definition bytes_of (evs : list event) : list bytes :=
  flat_map (fun ev => match ev with Apdu b _ => [b] | _ => [] end) evs.

Lemma bytes_of_app a b : bytes_of (a ++ b) = bytes_of a ++ bytes_of b.
Proof. apply flat_map_app. Qed.

Lemma bytes_of_rev l : bytes_of (rev l) = rev (bytes_of l).
Proof.
  induction l as [|e l IH]; [reflexivity|]. cbn [rev]. rewrite bytes_of_app, IH.
  destruct e; cbn [bytes_of flat_map app]; rewrite ?app_nil_r; reflexivity.
Qed.

Lemma apdus_rev w : apdus w = rev (bytes_of (trace w)).
Proof.
  unfold apdus.
  assert (H : forall l acc,
             fold_left (fun acc ev => match ev with Apdu b _ => b :: acc | _ => acc end) l acc
             = rev (bytes_of l) ++ acc).
  { induction l as [|e l IH]; intro acc; [reflexivity|]. cbn [fold_left]. rewrite IH.
    destruct e; cbn [bytes_of flat_map app rev]; rewrite <- ?app_assoc; reflexivity. }
  rewrite H, app_nil_r. reflexivity.
Qed.

Lemma apdus_after w evs sc : apdus (after w evs sc) = apdus w ++ bytes_of evs.
Proof.
  rewrite !apdus_rev. unfold after. cbn [trace].
  rewrite bytes_of_app, rev_app_distr, bytes_of_rev, rev_involutive. reflexivity.
Qed.

Lemma bytes_of_exchanges : forall aps sc, bytes_of (exchanges aps sc) = aps.
Proof.
  induction aps as [|a aps IH]; intro sc; [reflexivity|].
  cbn [exchanges bytes_of flat_map app]. f_equal. apply IH.
Qed.

(* ---- what [lead] counts ---- *)
Lemma lead_props : forall sigs sc,
  (lead sigs sc <= length sigs)%nat
  /\ (forall j, (j < lead sigs sc)%nat -> exists r, nth_error sc j = Some r /\ more r = true)
  /\ ((lead sigs sc < length sigs)%nat -> more (nth (lead sigs sc) sc TimeoutR) = false).
Proof.
  induction sigs as [|sg rest IH]; intro sc.
  - cbn [lead length]. splits; [lia|intros; lia|intros; lia].
  - destruct sc as [|r sc'].
    + cbn [lead length]. splits; [lia|intros; lia|reflexivity].
    + cbn [lead]. destruct (more r) eqn:Em.
      * destruct (IH sc') as [H1 [H2 H3]]. cbn [length nth]. splits.
        -- lia.
        -- intros [|j] Hj; [exists r; auto|]. cbn [nth_error]. apply H2. lia.
        -- intro Hlt. apply H3. lia.
      * cbn [length nth]. splits; [lia|intros; lia|auto].
Qed.

Lemma lead_unique : forall sigs sc k,
  (k <= length sigs)%nat ->
  (forall j, (j < k)%nat -> exists r, nth_error sc j = Some r /\ more r = true) ->
  ((k < length sigs)%nat -> more (nth k sc TimeoutR) = false) ->
  lead sigs sc = k.
Proof.
  induction sigs as [|sg rest IH]; intros sc k Hk Hj Hm.
  - cbn [length] in Hk. cbn [lead]. lia.
  - destruct sc as [|r sc'].
    + cbn [lead]. destruct k as [|k]; [reflexivity|].
      destruct (Hj 0%nat) as [r [Hr _]]; [lia|discriminate].
    + cbn [lead]. destruct k as [|k].
      * cbn [length nth] in Hm. rewrite Hm by lia. reflexivity.
      * destruct (Hj 0%nat) as [r0 [Hr0 Hm0]]; [lia|]. cbn [nth_error] in Hr0.
        inversion Hr0; subst r0. rewrite Hm0. f_equal. cbn [length] in *. apply IH.
        -- lia.
        -- intros j Hlt. apply (Hj (S j)). lia.
        -- intro Hlt. apply Hm. lia.
Qed.

Lemma verdict_true r : verdict r = Ok true <-> exists d, r = Data d /\ idx d 3 = Some SUCCESS.
Proof.
  unfold verdict. split.
  - destruct (classify r) as [d|e] eqn:Ec; [|discriminate]. apply classify_ok in Ec.
    destruct (idx d 3) as [x|] eqn:Ex; [|discriminate].
    destruct (x =? SUCCESS) eqn:Es; [|discriminate]. intros _. exists d. split; auto.
    rewrite Ex. f_equal. apply N.eqb_eq. exact Es.
  - intros [d [-> Hd]]. cbn [classify]. rewrite Hd, N.eqb_refl. reflexivity.
Qed.

Lemma verdict_not_false r : verdict r <> Ok false.
Proof.
  unfold verdict. destruct (classify r); [|discriminate].
  destruct (idx a 3); [|discriminate]. destruct (n =? SUCCESS); discriminate.
Qed.

Lemma success_not_more d : idx d 3 = Some SUCCESS -> more (Data d) = false.
Proof. intro H. cbn [more]. rewrite H, N.eqb_refl. reflexivity. Qed.

Lemma nth_of_nth_error {A} (l : list A) k x d : nth_error l k = Some x -> nth k l d = x.
Proof. revert k; induction l as [|y l IH]; intros [|k] H; try discriminate; cbn in *; [congruence|auto]. Qed.

(* the device authorises after the (k+1)-th signature: exact result, exact trace; nothing after
   the successful signature is sent *)
Theorem authorize_success_trace hb n sigs w d0 k sg d :
  (0 <= n < 65536)%Z ->
  next_answer w = Data d0 ->
  nth_error sigs k = Some sg ->
  nth_error (tl (script w)) k = Some (Data d) -> idx d 3 = Some SUCCESS ->
  (forall j, (j < k)%nat -> exists r, nth_error (tl (script w)) j = Some r /\ more r = true) ->
  authorize_signer hb n sigs w =
  (Ok true,
   after w (Apdu (ver_apdu hb n) (Data d0)
            :: exchanges (map sig_apdu (firstn (S k) sigs)) (tl (script w)))
         (skipn (S k) (tl (script w)))).
Proof.
  intros Hn H0 Hsg Hd Hs Hj. rewrite authorize_signer_run by exact Hn. cbv zeta. rewrite H0.
  assert (Hk : (k < length sigs)%nat) by (apply nth_error_Some; congruence).
  assert (Hnth : nth k (tl (script w)) TimeoutR = Data d) by (apply nth_of_nth_error; exact Hd).
  assert (Hl : lead sigs (tl (script w)) = k).
  { apply lead_unique; [lia|exact Hj|]. intros _. rewrite Hnth. apply success_not_more; exact Hs. }
  rewrite Hl. replace (k <? length sigs)%nat with true by lia.
  replace (Nat.min (S k) (length sigs)) with (S k) by lia.
  rewrite Hnth. replace (verdict (Data d)) with (@Ok bool true); [reflexivity|].
  symmetry. apply verdict_true. eauto.
Qed.

(* result True iff some signature got the SUCCESS answer, all earlier ones "more" *)
Theorem authorize_success_iff hb n sigs w : (0 <= n < 65536)%Z ->
  fst (authorize_signer hb n sigs w) = Ok true <->
  exists d0 k sg d,
    next_answer w = Data d0
    /\ nth_error sigs k = Some sg
    /\ nth_error (tl (script w)) k = Some (Data d) /\ idx d 3 = Some SUCCESS
    /\ (forall j, (j < k)%nat -> exists r, nth_error (tl (script w)) j = Some r /\ more r = true).
Proof.
  intro Hn. split.
  - rewrite authorize_signer_run by exact Hn. cbv zeta.
    destruct (next_answer w) as [d0|sw| | | |] eqn:E0; cbn [fst classify];
      try discriminate; [|destruct (user_defined sw); discriminate].
    set (sc := tl (script w)).
    destruct (lead_props sigs sc) as [H1 [H2 H3]].
    destruct (lead sigs sc <? length sigs)%nat eqn:Ek; [|discriminate].
    intro Hv. apply verdict_true in Hv. destruct Hv as [d [Hd Hs]].
    assert (Hlt : (lead sigs sc < length sigs)%nat) by lia.
    destruct (nth_error sigs (lead sigs sc)) as [sg|] eqn:Esg;
      [|apply nth_error_None in Esg; lia].
    exists d0, (lead sigs sc), sg, d. splits; auto.
    destruct (nth_error sc (lead sigs sc)) as [r|] eqn:Er.
    + rewrite (nth_of_nth_error _ _ _ TimeoutR Er) in Hd. congruence.
    + apply nth_error_None in Er. rewrite nth_overflow in Hd by lia. discriminate.
  - intros [d0 [k [sg [d [H0 [Hsg [Hd [Hs Hj]]]]]]]].
    rewrite (authorize_success_trace hb n sigs w d0 k sg d); auto.
Qed.

(* the result is never False: True or an exception *)
Theorem authorize_never_false hb n sigs w : fst (authorize_signer hb n sigs w) <> Ok false.
Proof.
  destruct (Z_lt_le_dec n 0) as [Hn|Hn];
    [rewrite authorize_signer_out_of_range by lia; discriminate|].
  destruct (Z_lt_le_dec n 65536) as [Hn'|Hn'];
    [|rewrite authorize_signer_out_of_range by lia; discriminate].
  rewrite authorize_signer_run by lia. cbv zeta.
  destruct (next_answer w) as [d0|sw| | | |]; cbn [fst classify]; try discriminate.
  - destruct (_ <? _)%nat; [apply verdict_not_false|discriminate].
  - destruct (user_defined sw); discriminate.
Qed.

(* the device never reports success (or there are no signatures): every signature is sent, in
   order, and the command fails *)
Theorem authorize_never hb n sigs w d0 :
  (0 <= n < 65536)%Z ->
  next_answer w = Data d0 ->
  (forall j, (j < length sigs)%nat ->
             exists r, nth_error (tl (script w)) j = Some r /\ more r = true) ->
  authorize_signer hb n sigs w =
  (Exn DongleError,
   after w (Apdu (ver_apdu hb n) (Data d0) :: exchanges (map sig_apdu sigs) (tl (script w)))
         (skipn (length sigs) (tl (script w)))).
Proof.
  intros Hn H0 Hj. rewrite authorize_signer_run by exact Hn. cbv zeta. rewrite H0.
  assert (Hl : lead sigs (tl (script w)) = length sigs).
  { apply lead_unique; [lia|exact Hj|lia]. }
  rewrite Hl. replace (length sigs <? length sigs)%nat with false by lia.
  replace (Nat.min (S (length sigs)) (length sigs)) with (length sigs) by lia.
  rewrite firstn_all. reflexivity.
Qed.

Corollary authorize_no_signatures hb n w d0 :
  (0 <= n < 65536)%Z -> next_answer w = Data d0 ->
  authorize_signer hb n [] w =
  (Exn DongleError, after w [Apdu (ver_apdu hb n) (Data d0)] (tl (script w))).
Proof.
  intros Hn H0. rewrite (authorize_never hb n [] w d0); auto. cbn [length]. intros; lia.
Qed.

(* the first exchange fails: nothing else is sent *)
Theorem authorize_version_refused hb n sigs w :
  (0 <= n < 65536)%Z -> (forall d, next_answer w <> Data d) ->
  exists e, authorize_signer hb n sigs w =
            (Exn e, after w [Apdu (ver_apdu hb n) (next_answer w)] (tl (script w))).
Proof.
  intros Hn H0. rewrite authorize_signer_run by exact Hn. cbv zeta.
  destruct (next_answer w) as [d0|sw| | | |]; cbn [classify]; eauto.
  - exfalso. eapply H0; reflexivity.
  - destruct (user_defined sw); eauto.
Qed.

(* the APDUs of the whole command, for every script: the version, then the first
   min (lead+1) |sigs| signatures in list order *)
Theorem authorize_apdus hb n sigs w : (0 <= n < 65536)%Z ->
  apdus (snd (authorize_signer hb n sigs w)) =
  apdus w ++ ver_apdu hb n ::
    match next_answer w with
    | Data _ => map sig_apdu (firstn (Nat.min (S (lead sigs (tl (script w)))) (length sigs)) sigs)
    | _ => []
    end.
Proof.
  intro Hn. rewrite authorize_signer_run by exact Hn. cbv zeta.
  destruct (next_answer w); cbn [snd]; rewrite apdus_after; cbn [bytes_of flat_map app];
    try reflexivity.
  fold (bytes_of (exchanges (map sig_apdu
         (firstn (Nat.min (S (lead sigs (tl (script w)))) (length sigs)) sigs)) (tl (script w)))).
  rewrite bytes_of_exchanges. reflexivity.
Qed.

Theorem authorize_out_of_range_sends_nothing hb n sigs w : (n < 0 \/ 65536 <= n)%Z ->
  apdus (snd (authorize_signer hb n sigs w)) = apdus w.
Proof. intro H. rewrite authorize_signer_out_of_range by exact H. reflexivity. Qed.

(* ---- lifted to the authorization object (HSM2Dongle.authorize_signer) ---- *)
Lemma all_some_map_Forall2 {A B} (f : A -> option B) : forall l r,
  all_some (map f l) = Some r <-> Forall2 (fun x y => f x = Some y) l r.
Proof.
  induction l as [|x l IH]; intro r; cbn [map all_some].
  - split; [intro H; inversion H; constructor|intro H; inversion H; reflexivity].
  - split.
    + destruct (f x) as [y|] eqn:Ef; [|discriminate].
      destruct (all_some (map f l)) as [r'|] eqn:Er; [|discriminate].
      intro H; inversion H; subst. constructor; [exact Ef|apply IH; reflexivity].
    + intro H; inversion H as [|? y ? r' Hx Hr]; subst. rewrite Hx.
      apply IH in Hr. rewrite Hr. reflexivity.
Qed.

Theorem authorize_run_eq a hb bs :
  fromhex (sa_hash a) = Some hb ->
  Forall2 (fun x b => fromhex x = Some b) (sa_signatures a) bs ->
  authorize_run a = authorize_signer hb (sa_iteration a) bs.
Proof.
  intros Hh Hs. unfold authorize_run. rewrite Hh.
  apply all_some_map_Forall2 in Hs. rewrite Hs. reflexivity.
Qed.

(* a hash or a signature that is not hex: ValueError before anything is sent *)
Theorem authorize_run_not_hex a w :
  fromhex (sa_hash a) = None \/ all_some (map fromhex (sa_signatures a)) = None ->
  authorize_run a w = (Exn (Py ValueError), w).
Proof.
  intro H. unfold authorize_run. destruct H as [H|H]; rewrite H; [reflexivity|].
  destruct (fromhex (sa_hash a)); reflexivity.
Qed.

(* for an authorization loaded from a file: the device gets the 32 hash bytes, the iteration as
   2 big-endian bytes, then the signatures (decoded) in file order while it says "more" *)
Theorem authorize_run_loaded py_int der_ok doc a w bs :
  load_sauth py_int der_ok doc = Some a ->
  Forall2 (fun x b => fromhex x = Some b) (sa_signatures a) bs ->
  exists hb,
    sa_hash a = hex hb /\ length hb = 32%nat /\ (0 <= sa_iteration a < 65536)%Z
    /\ authorize_run a w = authorize_signer hb (sa_iteration a) bs w
    /\ apdus (snd (authorize_run a w)) =
       apdus w ++ ver_apdu hb (sa_iteration a) ::
         match next_answer w with
         | Data _ => map sig_apdu (firstn (Nat.min (S (lead bs (tl (script w)))) (length bs)) bs)
         | _ => []
         end
    /\ fst (authorize_run a w) <> Ok false.
Proof.
  intros Hl Hs. destruct (loaded_wellformed _ _ _ _ Hl) as [hb [Hh [Hlen [Hw [Hr _]]]]].
  exists hb. assert (He : authorize_run a = authorize_signer hb (sa_iteration a) bs).
  { apply authorize_run_eq; [rewrite Hh; apply fromhex_hex; exact Hw|exact Hs]. }
  rewrite He. splits; auto; try lia.
  - apply authorize_apdus; exact Hr.
  - apply authorize_never_false.
Qed.

(* ====================================================================== *)
(* 6. non-vacuity: concrete runs                                           *)
(* ====================================================================== *)

Definition ex_hash : bytes := repeat 170 32.
Definition ex_auth : sauth := mkSauth (hex ex_hash) 258 [hex [48; 1]; hex [48; 2]; hex [48; 3]].

Example ex_msg :
  auth_msg (sa_hash ex_auth) (sa_iteration ex_auth) =
  s "RSK_powHSM_signer_aaaaaaaaaaaaaaaaaaaaaaaaaaaaaaaaaaaaaaaaaaaaaaaaaaaaaaaaaaaaaaaa_iteration_258".
Proof. vm_compute. reflexivity. Qed.

Example ex_eth :
  eth_message (auth_msg (sa_hash ex_auth) (sa_iteration ex_auth)) =
  25 :: s "Ethereum Signed Message:" ++ 10 :: s "96" ++
  s "RSK_powHSM_signer_aaaaaaaaaaaaaaaaaaaaaaaaaaaaaaaaaaaaaaaaaaaaaaaaaaaaaaaaaaaaaaaa_iteration_258".
Proof. vm_compute. reflexivity. Qed.

Example ex_roundtrip :
  load_sauth (fun _ => None) (fun _ => true) (sauth_to_json ex_auth) = Some ex_auth.
Proof. vm_compute. reflexivity. Qed.

Example ex_refused_iteration :
  load_sauth (fun _ => None) (fun _ => true)
    (sauth_to_json (mkSauth (hex ex_hash) 65536 [])) = None.
Proof. vm_compute. reflexivity. Qed.

(* the device authorises after the 2nd of 3 signatures: exactly 3 APDUs, the 3rd signature is
   never sent and the 4th scripted answer is left unread *)
Example ex_after_second :
  let w := world0 [Data [128; 81; 1]; Data [128; 81; 2; 1]; Data [128; 81; 2; 2];
                   Data [128; 81; 2; 2]] [] in
  (fst (authorize_run ex_auth w), apdus (snd (authorize_run ex_auth w)),
   script (snd (authorize_run ex_auth w))) =
  (Ok true,
   [[128; 81; 1] ++ ex_hash ++ [1; 2]; [128; 81; 2; 48; 1]; [128; 81; 2; 48; 2]],
   [Data [128; 81; 2; 2]]).
Proof. vm_compute. reflexivity. Qed.

(* the device never reports success: version + all 3 signatures, then an error *)
Example ex_never :
  let w := world0 [Data [128; 81; 1]; Data [128; 81; 2; 1]; Data [128; 81; 2; 1];
                   Data [128; 81; 2; 1]; Data [128; 81; 2; 2]] [] in
  (fst (authorize_run ex_auth w), apdus (snd (authorize_run ex_auth w)),
   script (snd (authorize_run ex_auth w))) =
  (Exn DongleError,
   [[128; 81; 1] ++ ex_hash ++ [1; 2]; [128; 81; 2; 48; 1]; [128; 81; 2; 48; 2];
    [128; 81; 2; 48; 3]],
   [Data [128; 81; 2; 2]]).
Proof. vm_compute. reflexivity. Qed.

(* the same runs obtained from the general theorems (hypotheses are satisfiable) *)
Example ex_after_second_thm :
  fst (authorize_signer ex_hash 258 [[48; 1]; [48; 2]; [48; 3]]
         (world0 [Data [128; 81; 1]; Data [128; 81; 2; 1]; Data [128; 81; 2; 2]] [])) = Ok true.
Proof.
  apply authorize_success_iff; [lia|].
  exists [128; 81; 1], 1%nat, [48; 2], [128; 81; 2; 2]. splits; try reflexivity.
  intros j Hj. assert (j = 0%nat) by lia. subst j. eexists; split; reflexivity.
Qed.

(* a device error status in the middle stops the command with that error *)
Example ex_error_status :
  let w := world0 [Data [128; 81; 1]; Data [128; 81; 2; 1]; Status 27140; Data [128; 81; 2; 2]] [] in
  (fst (authorize_run ex_auth w), length (apdus (snd (authorize_run ex_auth w)))) =
  (Exn (ErrorResult 27140), 3%nat).
Proof. vm_compute. reflexivity. Qed.

(* out-of-range iteration: nothing is sent *)
Example ex_out_of_range :
  let w := world0 [Data [128; 81; 1]] [] in
  (fst (authorize_signer ex_hash 65536 [[48; 1]] w),
   apdus (snd (authorize_signer ex_hash 65536 [[48; 1]] w))) = (Exn (Py OverflowError), []).
Proof. vm_compute. reflexivity. Qed.

(* the tables the statements rely on (regenerated from the Python sources) *)
Example tables_used :
  (CLA, CMD_SIGNER_AUTH, SAUTH_OP_OP_SIGVER, SAUTH_OP_OP_SIGN, SAUTH_OP_OP_SIGN_RES_SUCCESS,
   SIGNER_AUTH_ITERATION_SIZE, OFF_DATA) = (128, 81, 1, 2, 2, 2, 3).
Proof. reflexivity. Qed.
