(* Helper lemmas for Proofs/SrcEquivBringupM.v: sequencing / try / finally of the device-monad kit against the
   model's bind / try_catch / finally_raise under the embedding mres (keeping the equation of the step that was
   run, so that facts about the world can be carried along), the "frame" of the model commands (they leave the
   PIN object and the random source alone), and what the PIN-change protocol of Model/Pin.v does to them. *)
From PowHsm Require Import Gen.SrcM Model.Bringup.
From PowHsm Require Import Proofs.ValLemmas Proofs.SrcEquivDongleM Proofs.SrcEquivPinM.
From PowHsm Require Import Proofs.ValLemmasPinM.
Import MV.

(* ---------- sequencing under mres, remembering the step ---------- *)

Lemma mbind_sim_eq {A B} (m : pm pv) (mm : M A) (g : A -> pv) (f : pv -> pm pv) (k : A -> M B)
                   (h : B -> pv) (w : world) :
  m w = mres g (mm w) ->
  (forall a w1, mm w = (Ok a, w1) -> f (g a) w1 = mres h (k a w1)) ->
  mbind m f w = mres h (bind mm k w).
Proof.
  intros E K. rewrite (mbind_mres _ _ _ _ _ E). unfold bind.
  destruct (mm w) as [[a|e] w1]; [apply K; reflexivity|reflexivity].
Qed.

(* try: m except ...: h   followed by the rest of the function, against  try_catch mm hM ;; kk *)
Lemma ptry_k_bind_sim {A B} (m : pm pv) (mm : M A) (ca : bool) (pats : list xpat) (h : exn -> pm pv)
                      (k : pv -> pm pv) (hM : exn -> option (M A)) (kk : A -> M B) (f : B -> pv) (w : world) :
  (match mm w with
   | (Ok a, w1) => exists v, m w = (XOk v, w1) /\ k v w1 = mres f (kk a w1)
   | (Exn e, w1) => m w = (XRaise e, w1) /\
                    (if ca || existsb (xpat_matches e) pats then mbind (h e) k w1 else (XRaise e, w1)) =
                    mres f (match hM e with Some c => bind c kk w1 | None => (Exn e, w1) end)
   end) ->
  ptry_k m ca pats h k w = mres f (bind (try_catch mm hM) kk w).
Proof.
  intros H. unfold ptry_k, bind at 1, try_catch.
  destruct (mm w) as [[a|e] w1].
  - destruct H as [v [E K]]. rewrite E. exact K.
  - destruct H as [E K]. rewrite E, K. destruct (hM e) as [c|]; reflexivity.
Qed.

(* try: m except ...: h   as the whole computation *)
Lemma ptry_k_all_sim {A} (m : pm pv) (mm : M A) (g : A -> pv) (pats : list xpat) (h : exn -> pm pv)
                     (k : pv -> pm pv) (hM : exn -> option (M A)) (f : A -> pv) (w : world) :
  m w = mres g (mm w) ->
  (forall a w1, k (g a) w1 = (XOk (f a), w1)) ->
  (forall e w1, mm w = (Exn e, w1) ->
                mbind (h e) k w1 = mres f (match hM e with Some kk => kk w1 | None => (Exn e, w1) end)) ->
  ptry_k m true pats h k w = mres f (try_catch mm hM w).
Proof.
  intros E K H. unfold ptry_k, try_catch. rewrite E.
  destruct (mm w) as [[a|e] w1]; cbn [mres fst snd orb].
  - apply K.
  - apply H. reflexivity.
Qed.

(* try: m finally: raise e *)
Lemma pfinally_raise_sim {B} (m : pm pv) (mm : M unit) (g : unit -> pv) (f : B -> pv) (e : exn) (w : world) :
  m w = mres g (mm w) ->
  @pfinally_raise pv m e w = mres f (@finally_raise B mm e w).
Proof.
  intros E. unfold pfinally_raise, finally_raise. rewrite E.
  destruct (mm w) as [[a|x] w1]; reflexivity.
Qed.

(* ---------- exception classes ---------- *)

Lemma is_exception_all (e : exn) : is_exception e = true.
Proof. destruct e; reflexivity. Qed.

Lemma matches_base (e : exn) :
  existsb (xpat_matches e) [XCls EXC_HSM2DongleBaseError] = exn_matches e [0].
Proof. destruct e; reflexivity. Qed.

Lemma matches_exception (e : exn) : exn_matches e [100] = true.
Proof. destruct e; reflexivity. Qed.

(* ---------- the frame of the model commands: PIN object and random source untouched ---------- *)

Definition frames {A} (m : M A) : Prop :=
  forall w, pin (snd (m w)) = pin w /\ rand_pins (snd (m w)) = rand_pins w.

Lemma frames_ret {A} (a : A) : frames (ret a).
Proof. intros w. split; reflexivity. Qed.

Lemma frames_raise {A} (e : exn) : frames (@raise A e).
Proof. intros w. split; reflexivity. Qed.

Lemma frames_bind {A B} (m : M A) (k : A -> M B) : frames m -> (forall a, frames (k a)) -> frames (bind m k).
Proof.
  intros Hm Hk w. unfold bind. destruct (Hm w) as [H1 H2].
  destruct (m w) as [[a|e] w1]; cbn [snd] in *.
  - destruct (Hk a w1) as [H3 H4]. rewrite H3, H4. split; assumption.
  - split; assumption.
Qed.

Lemma frames_try {A} (m : M A) (h : exn -> option (M A)) :
  frames m -> (forall e c, h e = Some c -> frames c) -> frames (try_catch m h).
Proof.
  intros Hm Hh w. unfold try_catch. destruct (Hm w) as [H1 H2].
  destruct (m w) as [[a|e] w1]; cbn [snd] in *.
  - split; assumption.
  - destruct (h e) as [c|] eqn:Ec; cbn [snd].
    + destruct (Hh e c Ec w1) as [H3 H4]. rewrite H3, H4. split; assumption.
    + split; assumption.
Qed.

Lemma frames_of_opt {A} (o : option A) (e : pyexc) : frames (of_opt o e).
Proof. destruct o; [apply frames_ret|apply frames_raise]. Qed.

Lemma frames_idxM {A} (l : list A) (i : nat) : frames (idxM l i).
Proof. apply frames_of_opt. Qed.

Lemma frames_send (c : N) (d : bytes) : frames (send_command c d).
Proof. intros w. unfold send_command. destruct (script w); split; reflexivity. Qed.

Lemma frames_connect : frames connect.
Proof.
  intros w. unfold connect. cbv zeta.
  destruct (match connects w with [] => true | b :: _ => b end); split; reflexivity.
Qed.

Lemma frames_disconnect : frames disconnect.
Proof. intros w. unfold disconnect. destruct (opened w); split; reflexivity. Qed.

Ltac frames_tac :=
  repeat first
    [ apply frames_ret | apply frames_raise | apply frames_send | apply frames_connect | apply frames_disconnect
    | apply frames_idxM | apply frames_of_opt
    | apply frames_bind; [|intros ?]
    | match goal with |- frames (if ?b then _ else _) => destruct b end
    | match goal with |- frames (match ?o with Some _ => _ | None => _ end) => destruct o end ].

Lemma frames_get_current_mode : frames get_current_mode.
Proof.
  unfold get_current_mode. apply frames_try; [frames_tac|].
  intros e c. destruct (exn_matches e GET_MODE_CATCHES); intros H; inversion H. apply frames_ret.
Qed.

Lemma frames_is_onboarded : frames is_onboarded.
Proof. unfold is_onboarded. frames_tac. Qed.

Lemma frames_get_version : frames get_version.
Proof. unfold get_version. frames_tac. Qed.

Lemma frames_echo (k : dongle_kind) : frames (echo k).
Proof. unfold echo. frames_tac. Qed.

Lemma frames_get_retries (k : dongle_kind) : frames (get_retries k).
Proof. unfold get_retries. frames_tac. Qed.

Lemma frames_send_pin_bytes (p : bytes) : forall i, frames (send_pin_bytes i p).
Proof.
  induction p as [|b r IH]; intros i; cbn [send_pin_bytes]; [apply frames_ret|].
  apply frames_bind; [apply frames_send|intros _; apply IH].
Qed.

Lemma frames_send_pin (p : bytes) (b : bool) : frames (send_pin p b).
Proof. unfold send_pin. apply frames_send_pin_bytes. Qed.

Lemma frames_unlock (p : bytes) : frames (unlock KLedger p).
Proof.
  unfold unlock. apply frames_bind; [apply frames_send_pin|intros _]. frames_tac.
Qed.

Lemma frames_new_pin (p : bytes) : frames (new_pin KLedger p).
Proof.
  unfold new_pin. apply frames_try.
  - apply frames_bind; [apply frames_send_pin|intros _]. frames_tac.
  - intros e c. destruct e as [sw| | | | | | | |x]; try (intros H; discriminate H).
    destruct (sw =? ERR_UI_INVALID_PIN)%N; intros H; inversion H. apply frames_ret.
Qed.

Lemma frames_exit_menu (b : bool) : frames (exit_menu b).
Proof. unfold exit_menu. frames_tac. Qed.

Lemma frames_check_version (fw mw : N * N * N) : frames (check_version fw mw).
Proof. unfold check_version. frames_tac. Qed.

Lemma frames_wait_and_reconnect : frames wait_and_reconnect.
Proof. unfold wait_and_reconnect. frames_tac. Qed.

(* a step that was run, seen through its frame *)
Lemma frames_step {A} (m : M A) (w w1 : world) (r : result A) :
  frames m -> m w = (r, w1) -> pin w1 = pin w /\ rand_pins w1 = rand_pins w.
Proof. intros H E. specialize (H w). rewrite E in H. exact H. Qed.

(* ---------- the PIN object's own methods ---------- *)

Lemma pin_get_pin_run (w : world) :
  pin_get_pin w = match pin w with Some p => (Ok (pin_cur p), w) | None => (Exn (Py AttributeError), w) end.
Proof. unfold pin_get_pin, with_pin. destruct (pin w); reflexivity. Qed.

Lemma pin_needs_change_run (w : world) :
  pin_needs_change_m w =
  match pin w with Some p => (Ok (pin_needs_change p), w) | None => (Exn (Py AttributeError), w) end.
Proof. unfold pin_needs_change_m, with_pin. destruct (pin w); reflexivity. Qed.

Lemma pin_get_new_pin_run (w : world) :
  pin_get_new_pin w =
  match pin w with
  | Some p => (Ok (if pin_changing p then pin_new p else None), w)
  | None => (Exn (Py AttributeError), w)
  end.
Proof. unfold pin_get_new_pin, with_pin. destruct (pin w); reflexivity. Qed.

(* generate_pin draws an element of the candidate stream *)
Lemma gen_pin_from_in (l : list bytes) (p : bytes) (r : list bytes) :
  gen_pin_from l = Some (p, r) -> In p l.
Proof.
  induction l as [|q l IH]; cbn [gen_pin_from]; [discriminate|].
  destruct (pin_is_valid q false).
  - intros H. inversion H. left. reflexivity.
  - intros H. right. apply IH. exact H.
Qed.

(* a PIN about to be sent as the new one satisfies P when the pending one did and all candidates do *)
Lemma start_change_new_pin (P : bytes -> Prop) (w w1 w2 : world) (np : bytes) :
  (forall p x, pin w = Some p -> pin_changing p = true -> pin_new p = Some x -> P x) ->
  Forall P (rand_pins w) ->
  pin_start_change w = (Ok tt, w1) ->
  pin_get_new_pin w1 = (Ok (Some np), w2) ->
  P np.
Proof.
  intros Hnew Hrand Es Eg. rewrite pin_get_new_pin_run in Eg.
  unfold pin_start_change, with_pin in Es.
  destruct (pin w) as [p|] eqn:Ep; [|discriminate Es].
  destruct (pin_changing p || negb (pin_needs_change p)) eqn:Ec.
  - unfold ret in Es. inversion Es; subst w1. rewrite Ep in Eg.
    destruct (pin_changing p) eqn:Ech; [|discriminate Eg].
    inversion Eg as [[Hn Hw]]. exact (Hnew p np eq_refl Ech Hn).
  - unfold bind, generate_pin in Es.
    destruct (gen_pin_from (rand_pins w)) as [[q r]|] eqn:Eq; [|discriminate Es].
    unfold put_pin, modify in Es. inversion Es; subst w1. cbn [pin set_pin pin_changing pin_new] in Eg.
    inversion Eg; subst q. rewrite Forall_forall in Hrand. apply Hrand.
    exact (gen_pin_from_in _ _ _ Eq).
Qed.

(* ---------- small computation rules ---------- *)

Lemma pmap_of_M {A} (g : A -> pv) (mm : M A) (w : world) : pmap g (of_M mm) w = mres g (mm w).
Proof. unfold pmap, of_M, mbind, mret, mres. destruct (mm w) as [[a|e] w1]; reflexivity. Qed.

Lemma bind_ret_run {A B} (a : A) (k : A -> M B) (w : world) : bind (ret a) k w = k a w.
Proof. reflexivity. Qed.

Lemma bind_finally_raise {A B} (mm : M unit) (e : exn) (k : A -> M B) (w : world) :
  bind (finally_raise mm e) k w = finally_raise mm e w.
Proof. unfold bind, finally_raise. destruct (mm w) as [r w1]. reflexivity. Qed.

Lemma bind_assoc_run {A B C} (m : M A) (f : A -> M B) (g : B -> M C) (w : world) :
  bind (bind m f) g w = bind m (fun a => bind (f a) g) w.
Proof. unfold bind. destruct (m w) as [[a|e] w1]; reflexivity. Qed.
