(* Refinement lemmas: ledger/signature.py (DER reader) and ledger/parameters.py as translated from the
   Python source text compute what Model/Dongle.v computes. *)
From PowHsm Require Import Gen.Src Model.Dongle.
From PowHsm Require Import Proofs.ValLemmas.
From PowHsm Require Import Proofs.ValLemmasAdmin.

(* ---------- ledger/signature.py ---------- *)

Definition sig_obj (r s_ : bytes) : pv :=
  VObj "HSM2DongleSignature" [("_s", VStr (hex s_)); ("_r", VStr (hex r))].

Lemma src_der_parse_ok : forall b : bytes,
  src_HSM2DongleSignature____init__ (VObj "HSM2DongleSignature" []) (VBytes b) =
  match der_parse b with Some (r, s_) => POk (sig_obj r s_) | None => PRaise ValueError end.
Proof.
  intros b. unfold src_HSM2DongleSignature____init__.
  destruct b as [|t [|l rest]]; [reflexivity|reflexivity|].
  set (B := t :: l :: rest).
  cbn [py_len pbind].
  rewrite !py_cmp_int.
  rewrite !py_slice_bytes_from by lia.
  rewrite !py_getitem_bytes by lia.
  cbn [pbind py_len].
  subst B.
  change (Z.to_nat 0) with 0%nat. change (Z.to_nat 1) with 1%nat.
  change (Z.to_nat 2) with 2%nat. change (Z.to_nat 3) with 3%nat. change (Z.to_nat 4) with 4%nat.
  cbn [nth_error skipn pbind].
  change (VInt 48) with (VInt (Z.of_N 48)). change (VInt 49) with (VInt (Z.of_N 49)).
  rewrite py_not_in_two, !py_cmp_int.
  assert (E0 : (Z.of_nat (length (t :: l :: rest)) <? 2)%Z = false)
    by (apply Z.ltb_ge; cbn [length]; lia).
  rewrite E0, Zltb_nat_N. fold (nlen rest). cbn [vbool pmap]. rewrite !py_or_bool. cbv iota.
  cbn [der_parse].
  destruct (negb (mem_N t [48; 49])) eqn:E1; [reflexivity|].
  destruct (nlen rest <? l) eqn:E2; [reflexivity|].
  cbn [orb pif py_truth].
  destruct rest as [|t2 [|rl rest2]]; [reflexivity|reflexivity|].
  assert (E3 : (Z.of_nat (length (t2 :: rl :: rest2)) <? 2)%Z = false)
    by (apply Z.ltb_ge; cbn [length]; lia).
  rewrite E3. cbv iota. cbn [pbind].
  rewrite py_ne_int, !py_cmp_int, Zltb_nat_N. fold (nlen rest2).
  change 2%Z with (Z.of_N 2) at 1. rewrite Zeqb_N.
  cbn [vbool pmap]. rewrite !py_or_bool.
  destruct (negb (t2 =? 2)) eqn:E4; [reflexivity|].
  destruct (nlen rest2 <? rl) eqn:E5; [reflexivity|].
  cbn [orb pif py_truth].
  rewrite !py_add_int. cbn [pbind].
  rewrite py_slice_v_bytes_range by lia.
  rewrite !py_slice_v_bytes_from by lia.
  rewrite !py_getitem_bytes by lia.
  set (n := N.to_nat rl).
  replace (Z.to_nat (Z.of_N rl)) with n by lia.
  replace (Z.to_nat (4 + Z.of_N rl)) with (4 + (n + 0))%nat by lia.
  replace (Z.to_nat (5 + Z.of_N rl)) with (4 + (n + 1))%nat by lia.
  replace (Z.to_nat (6 + Z.of_N rl)) with (4 + (n + 2))%nat by lia.
  change (Z.to_nat 4) with 4%nat.
  cbn [Nat.add skipn nth_error pbind py_len].
  rewrite <- !nth_error_skipn, !skipn_add.
  destruct (skipn n rest2) as [|t3 [|sl rest3]] eqn:Es; [reflexivity|reflexivity|].
  cbn [skipn nth_error pbind].
  assert (E6 : (Z.of_nat (length (t3 :: sl :: rest3)) <? 2)%Z = false)
    by (apply Z.ltb_ge; cbn [length]; lia).
  rewrite py_ne_int, !py_cmp_int, E6, Zltb_nat_N. fold (nlen rest3).
  change 2%Z with (Z.of_N 2). rewrite Zeqb_N.
  cbn [vbool pmap]. rewrite !py_or_bool. cbv iota.
  destruct (negb (t3 =? 2)) eqn:E7; [reflexivity|].
  destruct (nlen rest3 <? sl) eqn:E8; [reflexivity|].
  cbn [orb pif py_truth].
  rewrite py_add_int. cbn [pbind].
  rewrite py_slice_v_bytes_range by lia.
  replace (Z.to_nat (6 + Z.of_N rl)) with (4 + (n + 2))%nat by lia.
  cbn [Nat.add skipn]. rewrite skipn_add, Es. cbn [skipn].
  replace (Z.to_nat (Z.of_N sl)) with (N.to_nat sl) by lia.
  reflexivity.
Qed.

(* ---------- ledger/parameters.py ---------- *)

Definition params_obj (p : fw_params) : pv :=
  VObj "HSM2FirmwareParameters"
       [("network", VInt (Z.of_N (p_network p))); ("checkpoint", VStr (p_checkpoint p));
        ("min_required_difficulty", VInt (Z.of_N (p_mrd p)))].

Lemma mem_Z_of_N (x : N) (l : list N) : mem_Z (Z.of_N x) (map Z.of_N l) = mem_N x l.
Proof.
  induction l as [|y l IH]; [reflexivity|]. cbn [map mem_Z mem_N]. rewrite Zeqb_N, IH. reflexivity.
Qed.

Lemma src_params_from_dongle_ok : forall b : bytes,
  src_HSM2FirmwareParameters__from_dongle_format (VBytes b) =
  match params_from_dongle b with Some p => POk (params_obj p) | None => PRaise ValueError end.
Proof.
  intros b. unfold src_HSM2FirmwareParameters__from_dongle_format, params_from_dongle.
  cbn [py_len pbind]. rewrite py_ne_int. change 69%Z with (Z.of_N 69). rewrite Zeqb_nat_N.
  fold (nlen b). cbn [vbool pmap pif py_truth].
  destruct (nlen b =? 69) eqn:El; cbn [negb]; [|reflexivity].
  apply N.eqb_eq in El. unfold nlen in El.
  pose proof (py_slice_bytes_range b 0 32 ltac:(lia) ltac:(lia)) as S1.
  change (0 + 32)%Z with 32%Z in S1. rewrite S1. clear S1.
  pose proof (py_slice_bytes_range b 32 36 ltac:(lia) ltac:(lia)) as S2.
  change (32 + 36)%Z with 68%Z in S2. rewrite S2. clear S2.
  rewrite py_getitem_bytes by lia.
  change (Z.to_nat 0) with 0%nat. change (Z.to_nat 32) with 32%nat.
  change (Z.to_nat 36) with 36%nat. change (Z.to_nat 68) with 68%nat.
  cbn [pbind py_hex py_from_bytes_be]. unfold idx.
  destruct (nth_error b 68) as [net|] eqn:En.
  - cbn [pbind py_enum_of vnum].
    change [1%Z; 2%Z; 3%Z] with (map Z.of_N NETWORK_VALUES). rewrite mem_Z_of_N.
    destruct (mem_N net NETWORK_VALUES); reflexivity.
  - exfalso. apply nth_error_None in En. lia.
Qed.

