(* Refinement theorems for the device-monad backend: get_blockchain_state of ledger/hsm2dongle.py and the
   handler _blockchain_state of ledger/protocol.py as translated from the Python source text (Gen/SrcM.v) run on
   every world exactly as the models of Model/Dongle.v / Model/LedgerProtocol.v: the seven hashes under their
   selectors, the total difficulty as an unsigned big-endian number, the three flags. *)
From PowHsm Require Import Gen.SrcM Model.Dongle Model.LedgerProtocol.
From PowHsm Require Import Proofs.ValLemmas Proofs.SrcEquivDongleM Proofs.SrcEquivProtoM.
From PowHsm Require Import Proofs.ValLemmasM Proofs.ValLemmasPinM Proofs.ValLemmasSign.
From PowHsm Require Import Proofs.ValLemmasStateM.
Import MV.

(* run a translated program head first: right-nest the binds, run returns and pure values *)
Ltac mrun := repeat (first [rewrite ValLemmasPinM.mbind_assoc | rewrite ValLemmasPinM.mbind_ret
                           | rewrite mbind_lift_POk ];
                     cbv beta iota; cbn [Val.py_len Val.py_hex Val.py_setitem Val.py_from_bytes_be]).
Ltac ml := rewrite ValLemmasPinM.mbind_lift; cbv beta iota.

(* the dictionary the source builds: the hashes in selector order, then difficulty and flags *)
Definition state_pv (st : bc_state) : pv :=
  let '(f0, f1, f2) := st_flags st in
  VDict (map (fun p => (fst p, VStr (snd p))) (st_hashes st) ++
         [(s "updating.total_difficulty", VInt (Z.of_N (st_difficulty st)));
          (s "updating.in_progress", VBool f0);
          (s "updating.already_validated", VBool f1);
          (s "updating.found_best_block", VBool f2)]).

Theorem srcm_get_blockchain_state_ok : forall (self : pv) (w : world),
  srcm_HSM2Dongle__get_blockchain_state self w = mres state_pv (get_blockchain_state w).
Proof.
  intros self w. unfold srcm_HSM2Dongle__get_blockchain_state.
  rewrite pbind_POk. rewrite pbind_POk.
  match goal with |- context [py_for ?c _ _] => change c with (VList (map hitem GST_HASH_VALUES)) end.
  rewrite py_for_list. unfold pbind at 1.
  etransitivity.
  { apply hashes_pfold with (hv := GST_HASH_VALUES).
    - intros r0 m acc key code w0 Hcode. cbn [hitem fst snd]. cbv beta iota.
      rewrite pbind_POk.
      change (VList [VInt 1; VInt (Z.of_N code)]) with (VList (map (fun x => VInt (Z.of_N x)) [1%N; code])).
      rewrite py_bytes_N by (constructor; [lia|constructor; [exact Hcode|constructor]]).
      unfold hash_step, CMD_GET_STATE, GST_OP_HASH, HASH_SIZE, OFF_OPn, OFF_DATAn.
      change (N.to_nat OFF_OP) with 2%nat; change (N.to_nat OFF_DATA) with 3%nat.
      mv_unfold. unfold py_or, py_setitem. mnorm.
      apply mbind_sim with (g := VBytes); [exact (m_send_spec 32 _ _)|].
      intros r w1. mnorm.
      apply (m_getitem_idx r 2). intros b w2. mnorm.
      rewrite ValLemmasPinM.mbind_lift. change 1%Z with (Z.of_N 1). rewrite py_ne_N. mnorm.
      cbn [py_truth].
      destruct (b =? 1)%N; cbn [negb]; [|reflexivity]. mnorm.
      apply (m_getitem_idx r 3). intros c w3. mnorm.
      rewrite ValLemmasPinM.mbind_lift, py_ne_N. mnorm. cbn [py_truth].
      destruct (c =? code)%N; cbn [negb orb]; [|reflexivity]. mnorm.
      change (Val.py_add (VInt 3) (VInt (Z.of_N 1))) with (Val.POk (VInt 4)).
      ml. rewrite py_slice_v_bytes_from by lia. change (Z.to_nat 4) with 4%nat.
      ml. cbn [Val.py_len]. ml. mnorm. ml. rewrite py_ne_int. mnorm.
      change 32%Z with (Z.of_N 32). rewrite Zeqb_nat_N.
      cbn [py_truth]. unfold nlen, slice_from. change (3 + 1)%nat with 4%nat.
      destruct (N.of_nat (length (skipn 4 r)) =? 32)%N; cbn [negb]; [|reflexivity].
      mnorm. ml. rewrite py_slice_v_bytes_from by lia. change (Z.to_nat 4) with 4%nat.
      ml. cbn [Val.py_hex]. ml. mnorm. ml. cbn [Val.py_setitem]. reflexivity.
    - intros r m d w0. reflexivity.
    - repeat constructor.
    - exact hash_keys_nodup.
    - intros k _. reflexivity. }
  unfold get_blockchain_state. unfold bind at 1.
  destruct (get_hashes GST_HASH_VALUES w) as [[hs|e] w1] eqn:Hhs; [|reflexivity].
  cbv beta iota. cbn [app].
  unfold CMD_GET_STATE, GST_OP_DIFF, GST_OP_FLAGS, OFF_OPn.
  change (N.to_nat OFF_OP) with 2%nat.
  change (OFF_DATAn + N.to_nat GST_FLAG_IN_PROGRESS)%nat with 3%nat.
  change (OFF_DATAn + N.to_nat GST_FLAG_ALREADY_VALIDATED)%nat with 4%nat.
  change (OFF_DATAn + N.to_nat GST_FLAG_FOUND_BEST_BLOCK)%nat with 5%nat.
  change OFF_DATAn with 3%nat. cbv zeta.
  rewrite !pbind_POk.
  change (py_bytes (VList [VInt 2])) with (@mret pv (VBytes [2%N])).
  change (py_bytes (VList [VInt 3])) with (@mret pv (VBytes [3%N])).
  mv_unfold. unfold py_or, py_setitem, py_from_bytes_be.
  change (Val.py_add (VInt 3) (VInt 0)) with (Val.POk (VInt 3)).
  change (Val.py_add (VInt 3) (VInt 1)) with (Val.POk (VInt 4)).
  change (Val.py_add (VInt 3) (VInt 2)) with (Val.POk (VInt 5)).
  mnorm.
  apply mbind_sim with (g := VBytes); [exact (m_send_spec 32 _ _)|].
  intros r w2. mnorm.
  apply (m_getitem_idx r 2). intros op w3. mnorm.
  ml. change 2%Z with (Z.of_N 2). rewrite py_ne_N. mnorm. cbn [py_truth].
  destruct (op =? 2)%N; cbn [negb]; [|reflexivity]. mnorm.
  ml. rewrite py_slice_bytes_from by lia. change (Z.to_nat 3) with 3%nat.
  cbn [Val.py_from_bytes_be]. ml. mnorm. cbn [Val.py_setitem]. ml. mnorm.
  apply mbind_sim with (g := VBytes); [exact (m_send_spec 32 _ _)|].
  intros r2 w4. mnorm.
  apply (m_getitem_idx r2 2). intros op2 w5. mnorm.
  ml. change 3%Z with (Z.of_N 3) at 1. rewrite py_ne_N. mnorm. cbn [py_truth].
  destruct (op2 =? 3)%N; cbn [negb orb]; [|reflexivity]. mnorm.
  mrun. rewrite py_slice_bytes_from by lia. change (Z.to_nat 3) with 3%nat.
  mrun. rewrite py_ne_int. mrun.
  rewrite (Zeqb_nat_N _ 3). cbn [py_truth]. unfold nlen, slice_from.
  destruct (N.of_nat (length (skipn 3 r2)) =? 3)%N; cbn [negb]; [|reflexivity]. mrun.
  apply (m_getitem_idx r2 3). intros f0 w6. mrun.
  apply (m_getitem_idx r2 4). intros f1 w7. mrun.
  apply (m_getitem_idx r2 5). intros f2 w8. mrun.
  rewrite (state_dict_append hs _ _ _ _ (get_hashes_keys _ _ _ _ Hhs)).
  cbn [py_truth]. change 0%Z with (Z.of_N 0). rewrite !Zeqb_N. reflexivity.
Qed.

Section WithEnv.
Variable kind : dongle_kind.
Variable init : pm pv.

Theorem srcm_blockchain_state_handler_ok : forall (self request : pv) (req : obj) (w : world),
  init_ok kind init ->
  srcm_HSM2ProtocolLedger___blockchain_state init self request w =
  mres rtuple_pv (op_blockchain_state kind req w).
Proof.
  intros self request req w Hinit.
  unfold srcm_HSM2ProtocolLedger___blockchain_state, op_blockchain_state, with_ladder.
  rewrite pbind_POk. unfold ptry_k, try_catch.
  match goal with |- context [pbind (srcm_HSM2ProtocolLedger__ensure_connection init self) ?k w] =>
    assert (Hbody : pbind (srcm_HSM2ProtocolLedger__ensure_connection init self) k w =
                    mres (fun st => VList [VInt 1; VList [state_pv st; self]])
                         (bind (ensure_connection kind) (fun _ => get_blockchain_state) w))
  end.
  { unfold pbind at 1. apply mbind_sim with (g := fun _ : unit => VNone).
    - apply srcm_ensure_connection_ok. exact Hinit.
    - intros u w1. unfold pbind. apply mbind_mres_map with (g := state_pv).
      + apply srcm_get_blockchain_state_ok.
      + intros st w2. reflexivity. }
  rewrite Hbody. clear Hbody.
  match goal with |- context [bind (ensure_connection kind) (fun _ => bind get_blockchain_state ?rest) w] =>
    rewrite <- (bind_assoc_w (ensure_connection kind) (fun _ => get_blockchain_state) rest w)
  end.
  set (mm := bind (ensure_connection kind) (fun _ => get_blockchain_state)).
  rewrite (bind_run mm).
  destruct (mm w) as [[st|e] w2] eqn:Hmm; unfold mres at 1; cbn [fst snd].
  - assert (Hkeys : map fst (st_hashes st) = map fst GST_HASH_VALUES).
    { unfold mm in Hmm. rewrite bind_run in Hmm.
      destruct (ensure_connection kind w) as [[u|e] w1]; [|discriminate Hmm].
      exact (get_blockchain_state_keys _ _ _ Hmm). }
    clear Hmm. destruct st as [hs d [[f0 f1] f2]]. cbn [st_hashes] in Hkeys.
    destruct (hash_keys_inv hs Hkeys) as (h1 & h2 & h3 & h4 & h5 & h6 & h7 & Hhs). subst hs.
    reflexivity.
  - destruct e; reflexivity.
Qed.

End WithEnv.
