(* Refinement lemmas: admin/utils.py, admin/ledger_utils.py and admin/signer_authorization.py
   (SignerVersion) as translated from the Python source text compute what Model/SignerAuth.v computes. *)
From PowHsm Require Import Gen.Src Model.Dongle Model.SignerAuth.
From PowHsm Require Import Proofs.ValLemmas.
From PowHsm Require Import Proofs.ValLemmasAdmin.
(* ---------- admin/utils.py, admin/signer_authorization.py ---------- *)

(* the model's integer parser in terms of the oracle for int(x, base) *)
Definition py_int_of (oracle : str -> Z -> option Z) (x : str) : option Z :=
  oracle x (if is_prefix (s "0x") x then 16 else 10)%Z.

Lemma src_hex_or_decimal_ok : forall (oracle : str -> Z -> option Z) (x : str),
  src_admin_utils__hex_or_decimal_string_to_int oracle (VStr x) =
  match py_int_of oracle x with Some z => POk (VInt z) | None => PRaise ValueError end.
Proof.
  intros oracle x. unfold src_admin_utils__hex_or_decimal_string_to_int, py_int_of.
  cbn [py_startswith pif py_truth].
  destruct (is_prefix (s "0x") x); cbn [py_int_base]; reflexivity.
Qed.

Definition sv_obj (h : str) (z : Z) : pv :=
  VObj "SignerVersion" [("_iteration", VInt z); ("_hash", VStr h)].

Lemma src_admin_is_hex_ok : forall (j : json) (n : N),
  src_admin_utils__is_hex_string_of_length (of_json j) (VInt (Z.of_N n)) (VBool false) =
  POk (VBool (match j with JStr x => is_hex_string_of_length x n | _ => false end)).
Proof.
  intros j n. unfold src_admin_utils__is_hex_string_of_length.
  cbn [py_and py_truth pif]. rewrite py_fromhex_of_json.
  destruct j as [| b | z | i | x | l | kv]; try reflexivity.
  unfold is_hex_string_of_length, nlen. destruct (fromhex x) as [b|]; [|reflexivity].
  cbn [pbind py_len]. rewrite py_eq_int. cbn [vbool pmap ptry]. rewrite Zeqb_nat_N. reflexivity.
Qed.

(* the range test on an int and the construction of the object *)
Lemma sv_tail (x : str) (hb : bytes) (z : Z) :
  fromhex x = Some hb ->
  pif (py_or (pbind (POk (VType (py_type (VInt z)))) (fun t2_ => vbool (py_ne t2_ (VType TInt))))
    (py_or (vbool (py_cmp CLt (VInt z) (VInt (0)%Z)))
    (vbool (py_cmp CGe (VInt z) (VInt (65536)%Z)))))
    (PRaise ValueError)
    (pbind (pbind (py_fromhex (VStr x)) (fun t4_ => py_hex t4_)) (fun t3_ => pbind (py_setattr (VObj "SignerVersion" []) "_hash" t3_) (fun v_self =>
  pbind (POk (VInt z)) (fun t5_ => pbind (py_setattr v_self "_iteration" t5_) (fun v_self =>
  POk v_self))))) =
  match (if (0 <=? z)%Z && (z <? 65536)%Z then Some (hex hb, z) else None) with
  | Some (h, z') => POk (VObj "SignerVersion" [("_iteration", VInt z'); ("_hash", VStr h)])
  | None => PRaise ValueError
  end.
Proof.
  intros Eh. cbn [py_type pbind]. rewrite py_ne_type, !py_cmp_int.
  cbn [pty_eqb negb vbool pmap]. rewrite !py_or_bool. cbv iota.
  cbn [py_fromhex]. rewrite Eh.
  destruct (Z.ltb_spec z 0) as [H0|H0].
  { destruct (Z.leb_spec 0 z) as [H1|H1]; [lia|]. reflexivity. }
  destruct (Z.leb_spec 0 z) as [H1|H1]; [|lia].
  destruct (Z.leb_spec 65536 z) as [H2|H2].
  { destruct (Z.ltb_spec z 65536) as [H3|H3]; [lia|]. reflexivity. }
  destruct (Z.ltb_spec z 65536) as [H3|H3]; [|lia].
  reflexivity.
Qed.

Lemma src_signer_version_ok : forall (oracle : str -> Z -> option Z) (hash iteration : json),
  src_SignerVersion____init__ oracle (VObj "SignerVersion" []) (of_json hash) (of_json iteration) =
  match signer_version (py_int_of oracle) hash iteration with
  | Some (h, z) => POk (sv_obj h z)
  | None => PRaise ValueError
  end.
Proof.
  intros oracle hash iteration. unfold src_SignerVersion____init__.
  change (VInt 32%Z) with (VInt (Z.of_N 32)). rewrite src_admin_is_hex_ok.
  destruct hash as [| hb0 | hz | hi | x | hl | hkv]; try reflexivity.
  unfold is_hex_string_of_length, signer_version. cbn [of_json].
  destruct (fromhex x) as [hb|] eqn:Eh; [|reflexivity].
  cbn [py_not pmap py_truth pif].
  destruct (nlen hb =? 32) eqn:El; cbn [negb]; [|reflexivity].
  rewrite py_type_of_json.
  destruct iteration as [| ib | iz | ii | y | il | ikv]; try reflexivity.
  - cbn [pbind]. rewrite py_eq_type. cbn [pty_eqb vbool pmap pif py_truth of_json].
    apply (sv_tail x hb iz Eh).
  - cbn [pbind]. rewrite py_eq_type. cbn [pty_eqb vbool pmap pif py_truth of_json].
    rewrite src_hex_or_decimal_ok. destruct (py_int_of oracle y) as [z|]; [|reflexivity].
    cbn [pbind]. apply (sv_tail x hb z Eh).
Qed.

Lemma src_signer_msg_ok : forall (h : str) (z : Z),
  src_SignerVersion__msg (sv_obj h z) = POk (VStr (auth_msg h z)).
Proof.
  intros h z. unfold src_SignerVersion__msg, sv_obj, auth_msg.
  cbn [py_getattr fassoc String.eqb Ascii.eqb Bool.eqb pbind py_str py_fmt_field]. reflexivity.
Qed.

Definition ascii_str (x : str) : bool := forallb (fun c => c <? 128) x.

Lemma src_encode_eth_message_eq (m : str) :
  src_admin_ledger_utils__encode_eth_message (VStr m) =
  if forallb (fun c => c <? 128) (eth_message m) then POk (VBytes (eth_message m))
  else PRaise ValueError.
Proof.
  unfold src_admin_ledger_utils__encode_eth_message.
  cbn [py_len pbind py_str py_fmt_field py_encode_ascii].
  rewrite dec_Z_of_nat. fold (nlen m). reflexivity.
Qed.

Lemma ascii_eth_message (m : str) : ascii_str (eth_message m) = ascii_str m.
Proof.
  unfold ascii_str, eth_message. rewrite !forallb_app, dec_N_ascii_b. reflexivity.
Qed.

Lemma src_encode_eth_message_ok : forall m : str,
  ascii_str m = true ->
  src_admin_ledger_utils__encode_eth_message (VStr m) = POk (VBytes (eth_message m)).
Proof.
  intros m Hm. rewrite src_encode_eth_message_eq. fold (ascii_str (eth_message m)).
  rewrite (ascii_eth_message m), Hm. reflexivity.
Qed.

(* text that is not ASCII cannot be wrapped: UnicodeEncodeError (a ValueError) *)
Lemma src_encode_eth_message_non_ascii : forall m : str,
  ascii_str m = false ->
  src_admin_ledger_utils__encode_eth_message (VStr m) = PRaise ValueError.
Proof.
  intros m Hm. rewrite src_encode_eth_message_eq. fold (ascii_str (eth_message m)).
  rewrite (ascii_eth_message m), Hm. reflexivity.
Qed.

Lemma src_get_authorization_msg_ok : forall (h : str) (z : Z),
  ascii_str h = true ->
  src_SignerVersion__get_authorization_msg (sv_obj h z) = POk (VBytes (eth_message (auth_msg h z))).
Proof.
  intros h z Hh. unfold src_SignerVersion__get_authorization_msg.
  rewrite src_signer_msg_ok. cbn [pbind]. apply src_encode_eth_message_ok.
  unfold ascii_str, auth_msg. rewrite !forallb_app, dec_Z_ascii_b.
  unfold ascii_str in Hh. rewrite Hh. reflexivity.
Qed.

Lemma src_signer_to_dict_ok : forall (h : str) (z : Z),
  src_SignerVersion__to_dict (sv_obj h z) = POk (VDict [(s "hash", VStr h); (s "iteration", VInt z)]).
Proof. intros h z. reflexivity. Qed.

(* what SignerVersion accepts is always ASCII (the canonical lower-case hex of 32 bytes) *)
Lemma signer_version_hash_ascii : forall (pyint : str -> option Z) (hash iteration : json) (h : str) (z : Z),
  signer_version pyint hash iteration = Some (h, z) -> ascii_str h = true.
Proof.
  intros pyint hash iteration h z. unfold signer_version.
  destruct hash as [| hb0 | hz | hi | x | hl | hkv]; try discriminate.
  destruct (fromhex x) as [hb|] eqn:Eh; [|discriminate].
  destruct (negb (nlen hb =? 32)); [discriminate|].
  destruct (match iteration with JInt z0 => Some z0 | JStr x0 => pyint x0 | _ => None end)
    as [z0|]; [|discriminate].
  destruct ((0 <=? z0)%Z && (z0 <? 65536)%Z); [|discriminate].
  intros H. inversion H; subst. apply hex_ascii_b. apply (fromhex_bytes x). exact Eh.
Qed.

