(* Refinement theorem for the device-monad backend: the handler _sign of ledger/protocol.py (both the
   unauthorized / hash branch and the authorized / transaction branch), as translated from the Python source
   text (Gen/SrcM.v), runs on every world exactly as Model/LedgerProtocol.v's op_sign_v5: second-stage
   validation without any exchange, the clearing of the transaction (an oracle here, tied to Model/BtcTx.v's
   unsign_tx / deserialize_tx), the repair, the signing exchange, the except ladder, the result translation.

   SIDE CONDITION ADDED to the theorem: message_absent_or_object req ("message" is absent or a JSON object;
   Proofs/ValLemmasSignProtoM.v).  Without it the statement is false: for a string / list message Python's
   `"hash" in request["message"]` is a substring / membership test, for a number a TypeError, whereas
   op_sign_v5 treats every non-object message as "not a hash request" (see sign_handler_counterexample at the
   end of this file: {"keyId": ..., "message": "hash"} without "auth" is answered (-102,) by the source and
   (-101,) by the model).  The first-stage validation of the gate implies the side condition
   (gate_message_absent_or_object). *)
From PowHsm Require Import Gen.SrcM Model.LedgerProtocol.
From PowHsm Require Import Proofs.ValLemmas Proofs.SrcEquivBase Proofs.SrcEquivProto Proofs.SrcEquivLedger.
From PowHsm Require Import Proofs.SrcEquivDongleM Proofs.SrcEquivProtoM Proofs.SrcEquivSignM.
From PowHsm Require Import Proofs.ValLemmasSign Proofs.ValLemmasProtoM Proofs.ValLemmasSignProtoM.

Section WithEnv.
Variable kind : dongle_kind.
Variable init : pm pv.
Variable cm : string -> pv -> list pv -> pr pv.

Definition raises {A} (p : pr A) : Prop := exists e, p = PRaise e.

(* the third-party transaction codec behind comm.bitcoin, in terms of its model *)
Definition tx_oracles_ok : Prop :=
  (forall txhex : str,
     match (match fromhex txhex with Some raw => unsign_tx raw | None => None end) with
     | Some utx => cm "get_unsigned_tx" VNone [VStr txhex] = POk (VStr (hex utx))
     | None => raises (cm "get_unsigned_tx" VNone [VStr txhex])
     end) /\
  (forall utx : bytes,
     match deserialize_tx utx with
     | Some _ => exists h, cm "get_tx_hash" VNone [VStr (hex utx)] = POk (VStr h)
     | None => raises (cm "get_tx_hash" VNone [VStr (hex utx)])
     end).

(* try: get_unsigned_tx(msg["tx"]); get_tx_hash(unsigned)  except Exception: return (-102,) *)
Lemma unsign_try_ok (txh : str) (raw : bytes) (k : pv -> pm pv) (w : world) :
  tx_oracles_ok -> fromhex txh = Some raw ->
  MV.ptry_k
    (MV.pbind (MV.pbind (lift (POk (VStr txh))) (fun t6_ => lift (cm "get_unsigned_tx" VNone [t6_])))
       (fun u => MV.pbind (lift (cm "get_tx_hash" VNone [u])) (fun _ => MV.POk (VList [VInt 1; VList [u]]))))
    true [] (fun _ => MV.POk (VList [VInt 2; VList [VInt (-102)]])) k w =
  match (match unsign_tx raw with
         | Some utx => match deserialize_tx utx with Some _ => Some utx | None => None end
         | None => None end) with
  | Some utx => k (VList [VInt 1; VList [VStr (hex utx)]]) w
  | None => k (VList [VInt 2; VList [VInt (-102)]]) w
  end.
Proof.
  intros [Hu Hh] Hraw. specialize (Hu txh). rewrite Hraw in Hu.
  rewrite lift_POk, pbind_POk. unfold MV.ptry_k, MV.pbind, mbind, lift.
  destruct (unsign_tx raw) as [utx|].
  - rewrite Hu. specialize (Hh utx).
    destruct (deserialize_tx utx) as [t|].
    + destruct Hh as [h Hh]. rewrite Hh. reflexivity.
    + destruct Hh as [e Hh]. rewrite Hh. reflexivity.
  - destruct Hu as [e Hu]. rewrite Hu. reflexivity.
Qed.

Theorem srcm_sign_handler_ok :
  forall (fuel : nat) (self : pv) (req : obj) (x : str) (els : list N) (w : world),
  init_ok kind init -> tx_oracles_ok ->
  oracles_ok cm (path_obj els) (path_to_binary els) ->
  jget (s "keyId") req = Some (JStr x) -> bip32_path x = Some els ->
  message_absent_or_object req ->     (* ADDED side condition: see Proofs/ValLemmasSignProtoM.v *)
  (S (length (script (snd (ensure_connection kind w)))) <= fuel)%nat ->
  srcm_HSM2ProtocolLedger___sign fuel cm init self (request_with_path req els) w =
  mres rtuple_pv (op_sign_v5 kind req w).
Proof.
  intros fuel self req x els w Hinit [Hutx Htxh] Hor Hkey Hpath Hmsg Hfuel.
  unfold srcm_HSM2ProtocolLedger___sign.
  unfold MV.pif at 1. unfold mbind at 1. rewrite (sign_is_hash_cond req els w Hmsg). cbn [py_truth].
  unfold op_sign_v5. fold (sign_is_hash req).
  destruct (sign_is_hash req) eqn:Ehash.
  - (* unauthorized: the message carries a hash *)
    change (VStr (s "hash")) with (what_val WHash) at 1.
    rewrite src_validate_message_request, lift_POk, pbind_POk. cbv beta.
    unfold MV.py_cmp. rewrite py_cmp_int, vbool_lift_POk, pif_POk. cbn [py_truth].
    destruct (validate_message_cases (codes_of V5) req WHash) as [Emv|Emv]; rewrite Emv.
    2:{ rewrite v5_message_code. reflexivity. }
    change (0 <? 0)%Z with false. cbv iota. rewrite pbind_POk.
    destruct (validated_hash req Emv) as [m [h [Hm Hh]]].
    unfold with_ladder_sign.
    match goal with
    | |- _ = mres _ (try_catch (bind ?body _) _ _) =>
        apply ptry_k_mres with (f := fun r : sign_result => VList [VInt 1; VList [sign_res r; self]])
                               (mm := body) (res := finish_sign V5)
    end.
    + unfold MV.pbind at 1.
      apply mres_bind with (f := fun _ : unit => VNone).
      * apply srcm_ensure_connection_ok. exact Hinit.
      * intros u w1. unfold MV.py_getitem.
        rewrite getitem_request_key, (getitem_request_other (s "message")) by reflexivity.
        rewrite Hm, !lift_POk, !pbind_POk.
        change (of_json (JObj m)) with (of_obj m). rewrite py_getitem_of_obj, Hh, lift_POk, pbind_POk.
        cbn [of_json]. unfold MV.pbind, mbind.
        rewrite (srcm_sign_unauthorized_ok cm _ _ _ h w1 (proj1 Hor)).
        unfold key_path, jobj_field, jstr_field. rewrite Hkey, Hpath, Hm. cbn [of_opt].
        unfold bind at 1 2, ret at 1 2. rewrite Hh. unfold bind, ret, mres.
        destruct (sign_unauthorized (path_to_binary els) (fromhex h) w1) as [[r|e] w2]; reflexivity.
    + reflexivity.
    + intros r w1. cbv beta iota. apply sign_tail_ok.
    + intros e w1. apply (sign_handler_ladder self). 
      * left. reflexivity.
      * intros rv w2. reflexivity.
  - (* authorized: a transaction *)
    rewrite src_validate_auth_request, lift_POk, pbind_POk. cbv beta.
    unfold MV.py_cmp at 1. rewrite py_cmp_int, vbool_lift_POk, pif_POk. cbn [py_truth].
    destruct (validate_auth_cases_v5 req true) as [Eav|Eav]; rewrite Eav.
    2:{ rewrite v5_auth_code. reflexivity. }
    change (0 <? 0)%Z with false. cbv iota.
    change (VStr (s "tx")) with (what_val WTx) at 1.
    rewrite src_validate_message_request, lift_POk, pbind_POk. cbv beta.
    unfold MV.py_cmp at 1. rewrite py_cmp_int, vbool_lift_POk, pif_POk. cbn [py_truth].
    destruct (validate_message_cases (codes_of V5) req WTx) as [Emv|Emv]; rewrite Emv.
    2:{ rewrite v5_message_code. reflexivity. }
    change (0 <? 0)%Z with false. cbv iota.
    destruct (validated_auth req Eav) as [auth [rh [receipt [ph [proof [Hauth [Hrh [Hreceipt [Hph Hproof]]]]]]]]].
    destruct (validated_tx req Emv) as [m [txh [raw [input [Hm [Htx [Hraw [Hinput Hmode]]]]]]]].
    unfold MV.py_getitem at 1. rewrite (getitem_request_other (s "message")) by reflexivity.
    rewrite Hm, lift_POk, !pbind_POk. change (of_json (JObj m)) with (of_obj m).
    unfold MV.py_getitem at 1. rewrite py_getitem_of_obj, Htx. cbn [of_json].
    rewrite (unsign_try_ok txh raw _ w (conj Hutx Htxh) Hraw).
    rewrite (jobj_field_ok _ _ _ Hm), bind_ret_l. cbv beta.
    rewrite (hex_field_ok _ _ _ _ Htx Hraw), bind_ret_l. cbv beta.
    destruct (unsign_tx raw) as [utx|] eqn:Eutx; [|reflexivity].
    destruct (deserialize_tx utx) as [t|] eqn:Edes; [|reflexivity].
    cbv beta iota.
    pose proof (unsigned_hex_roundtrip txh raw utx Hraw Eutx) as Hutxhex.
    unfold with_ladder_sign.
    match goal with
    | |- _ = mres _ (try_catch (bind ?body _) _ _) =>
        apply ptry_k_mres with (f := fun r : sign_result => VList [VInt 1; VList [sign_res r; self]])
                               (mm := body) (res := finish_sign V5)
    end.
    + unfold MV.pbind at 1.
      apply mres_bind_at with (f := fun _ : unit => VNone).
      * apply srcm_ensure_connection_ok. exact Hinit.
      * intros u w1 Eec. rewrite Eec in Hfuel. cbn [snd] in Hfuel.
        destruct Hmode as [[Hmode [Hws Hov]] | [Hmode [wsh [ws [ov [Hws [Hwsb Hov]]]]]]].
        -- (* legacy: no witness script, no outpoint value *)
           rewrite (auth_sign_model req m x els auth rh receipt ph proof utx input (s "legacy") [] 0%Z
                      Hkey Hpath Hauth Hrh Hreceipt Hph Hproof Hinput Hmode)
             by (rewrite ?Hws, ?Hov; reflexivity).
           unfold MV.py_getitem, MV.py_dict_get.
           rewrite getitem_request_key, !(getitem_request_other (s "auth")) by reflexivity.
           rewrite Hauth, !lift_POk, !pbind_POk.
           change (of_json (JObj auth)) with (of_obj auth).
           rewrite !py_getitem_of_obj, !py_dict_get_of_obj, Hrh, Hph, Hinput, Hmode, Hws, Hov, of_json_strs.
           cbn [of_json]. rewrite !lift_POk, !pbind_POk.
           change (MV.py_enum_member _ (VStr (s "legacy"))) with (MV.POk (mode_obj false)).
           rewrite !pbind_POk. unfold MV.pbind, mbind.
           rewrite (srcm_sign_authorized_legacy_ok cm fuel _ _ _ rh (hex utx) ph receipt utx proof input VNone VNone w1
                      Hor Hreceipt Hutxhex Hproof Hfuel).
           change (mode_str false) with (s "legacy"). unfold mres.
           destruct (sign_authorized (path_to_binary els) receipt proof utx input (s "legacy") [] 0 w1)
             as [[r|e] w2]; reflexivity.
        -- (* segwit *)
           rewrite (auth_sign_model req m x els auth rh receipt ph proof utx input (s "segwit") ws ov
                      Hkey Hpath Hauth Hrh Hreceipt Hph Hproof Hinput Hmode)
             by (rewrite ?Hws, ?Hwsb, ?Hov; reflexivity).
           unfold MV.py_getitem, MV.py_dict_get.
           rewrite getitem_request_key, !(getitem_request_other (s "auth")) by reflexivity.
           rewrite Hauth, !lift_POk, !pbind_POk.
           change (of_json (JObj auth)) with (of_obj auth).
           rewrite !py_getitem_of_obj, !py_dict_get_of_obj, Hrh, Hph, Hinput, Hmode, Hws, Hov, of_json_strs.
           cbn [of_json]. rewrite !lift_POk, !pbind_POk.
           change (MV.py_enum_member _ (VStr (s "segwit"))) with (MV.POk (mode_obj true)).
           rewrite !pbind_POk. unfold MV.pbind, mbind.
           rewrite (srcm_sign_authorized_ok cm fuel _ _ _ rh (hex utx) wsh ph receipt utx ws proof input ov true w1
                      Hor Hreceipt Hutxhex Hwsb Hproof Hfuel).
           change (mode_str true) with (s "segwit"). unfold mres.
           destruct (sign_authorized (path_to_binary els) receipt proof utx input (s "segwit") ws ov w1)
             as [[r|e] w2]; reflexivity.
    + reflexivity.
    + intros r w1. cbv beta iota. apply sign_tail_ok.
    + intros e w1. apply (sign_handler_ladder self).
      * right. reflexivity.
      * intros rv w2. reflexivity.
Qed.

End WithEnv.

(* the statement without the side condition fails (whatever the bring-up, the oracles and the world are) *)
Remark sign_handler_counterexample :
  forall (kind : dongle_kind) (init : pm pv) (cm : string -> pv -> list pv -> pr pv) (fuel : nat) (w : world),
  let els := [2147483692; 2147483648; 2147483648; 0; 0]%N in
  let req : obj := [(s "keyId", JStr (s "m/44'/0'/0'/0/0")); (s "message", JStr (s "hash"))] in
  jget (s "keyId") req = Some (JStr (s "m/44'/0'/0'/0/0")) /\
  bip32_path (s "m/44'/0'/0'/0/0") = Some els /\
  srcm_HSM2ProtocolLedger___sign fuel cm init VNone (request_with_path req els) w =
    (XOk (VList [VInt (-102)]), w) /\
  mres rtuple_pv (op_sign_v5 kind req w) = (XOk (VList [VInt (-101)]), w).
Proof. intros kind init cm fuel w. repeat split; vm_compute; reflexivity. Qed.
