(* C01: signing relays to the device exactly what the client asked to have signed.
   Model/Sign.v: chunks_loop / send_data_in_chunks, btc_payload, extradata, merkle_proof_bytes,
   sign_unauthorized, sign_authorized.  Every theorem is for ALL device scripts. *)
From PowHsm Require Import Model.Sign Proofs.BytesLemmas Proofs.BtcTxProofs.
From Coq Require Import ZifyBool ZifyNat ZifyN Lia.
Ltac Zify.zify_post_hook ::= Z.to_euclidean_division_equations.
Open Scope N_scope.

Ltac wsimpl :=
  unfold push, set_script, set_trace, set_comm_issue, set_pin, set_opened, set_connects,
         set_rand_pins, set_fs_ok;
  cbn [script classify trace connects opened comm_issue pin rand_pins fs_ok fst snd].

(* ====================================================================== *)
(* 0. list facts                                                           *)
(* ====================================================================== *)

Lemma firstn_plus {A} (n m : nat) (l : list A) :
  firstn (n + m) l = firstn n l ++ firstn m (skipn n l).
Proof.
  revert l; induction n as [|n IH]; intro l; [reflexivity|].
  destruct l as [|x l]; cbn [Nat.add firstn skipn app].
  - destruct m; reflexivity.
  - f_equal. apply IH.
Qed.

Lemma firstn_length_eq {A} (L : nat) (l : list A) :
  firstn (length (firstn L l)) l = firstn L l.
Proof.
  rewrite firstn_length. destruct (Nat.le_ge_cases L (length l)).
  - rewrite Nat.min_l by assumption. reflexivity.
  - rewrite Nat.min_r by assumption. rewrite !firstn_all2 by lia. reflexivity.
Qed.

Lemma concat_split_nth {A} (cs : list (list A)) i c :
  nth_error cs i = Some c -> concat cs = concat (firstn i cs) ++ c ++ concat (skipn (S i) cs).
Proof.
  revert i; induction cs as [|x cs IH]; intros [|i] H; try discriminate.
  - inversion H; subst. reflexivity.
  - cbn [nth_error] in H. cbn [firstn skipn concat]. rewrite (IH _ H) at 1.
    rewrite <- app_assoc. reflexivity.
Qed.

(* a piece of a prefix of [data] is the slice of [data] at the offset of the pieces before it *)
Lemma prefix_piece_is_slice {A} (data : list A) (cs : list (list A)) L i c :
  concat cs = firstn L data -> nth_error cs i = Some c ->
  c = slice data (length (concat (firstn i cs))) (length (concat (firstn i cs)) + length c).
Proof.
  intros Hp Hi. rewrite (concat_split_nth cs i c Hi) in Hp.
  rewrite <- (firstn_skipn L data) at 1. rewrite <- Hp. rewrite <- !app_assoc.
  symmetry. apply slice_mid.
Qed.

(* ====================================================================== *)
(* 1. the chunk loop as a pure function of the script                      *)
(* ====================================================================== *)

Definition take_n (req : N) (rem : bytes) : nat := N.to_nat (N.min req (nlen rem)).

Inductive verdict := VStop (res : result (bool * bytes)) | VNext (nreq : N).

(* what the loop does with the answer [a] to a chunk, [rem'] being what is still unsent *)
Definition decide (op : N) (nexts : list N) (full : bool) (rem' : bytes) (a : resp) : verdict :=
  match classify a with
  | Exn e => VStop (Exn e)
  | Ok r =>
      match idx r 2 with
      | None => VStop (Exn (Py IndexError))
      | Some rop =>
          if negb (mem_N rop (op :: nexts)) then VStop (Ok (false, r)) else
          if full && negb (rop =? op) && (0 <? nlen rem') then VStop (Ok (false, r)) else
          if negb (rop =? op) then VStop (Ok (true, r)) else
          match idx r 3 with
          | None => VStop (Exn (Py IndexError))
          | Some q => VNext q
          end
      end
  end.

(* result, (chunk, answer) pairs oldest first, script left over *)
Fixpoint chunks_run (op : N) (nexts : list N) (full : bool) (sc : list resp) (rem : bytes) (req : N)
  : result (bool * bytes) * list (bytes * resp) * list resp :=
  let n := take_n req rem in
  match sc with
  | [] => (Exn DongleTimeout, [(firstn n rem, TimeoutR)], [])
  | a :: sc' =>
      match decide op nexts full (skipn n rem) a with
      | VStop res => (res, [(firstn n rem, a)], sc')
      | VNext q =>
          let '(res, evs, sc'') := chunks_run op nexts full sc' (skipn n rem) q in
          (res, (firstn n rem, a) :: evs, sc'')
      end
  end.

Definition chunk_events (cmd op : N) (evs : list (bytes * resp)) : list event :=
  map (fun ca => Apdu (CLA :: cmd :: op :: fst ca) (snd ca)) evs.

(* the world after [news] (oldest first) were exchanged and the script shrank to [sc'] *)
Definition after (w : world) (news : list event) (sc' : list resp) : world :=
  mkWorld sc' (connects w) (opened w) (rev news ++ trace w) (comm_issue w) (pin w)
          (rand_pins w) (fs_ok w).

Lemma chunks_loop_run_rec cmd op nexts full : forall sc fuel rem req cn o tr ci p rp fs,
  (length sc < fuel)%nat ->
  chunks_loop fuel cmd op nexts full rem req (mkWorld sc cn o tr ci p rp fs) =
  (fst (fst (chunks_run op nexts full sc rem req)),
   mkWorld (snd (chunks_run op nexts full sc rem req)) cn o
           (rev (chunk_events cmd op (snd (fst (chunks_run op nexts full sc rem req)))) ++ tr)
           ci p rp fs).
Proof.
  induction sc as [|a sc IH]; intros fuel rem req cn o tr ci p rp fs Hf;
    (destruct fuel as [|fuel]; [cbn [length] in Hf; lia|]).
  - cbn [chunks_loop chunks_run]. unfold bind at 1. unfold send_command. wsimpl. reflexivity.
  - cbn [chunks_loop chunks_run]. fold (take_n req rem).
    unfold bind at 1. unfold send_command. wsimpl.
    unfold decide. destruct (classify a) as [r|e]; [|reflexivity].
    unfold bind at 1. unfold idxM at 1. unfold OFF_OPn. change (N.to_nat OFF_OP) with 2%nat.
    destruct (idx r 2) as [rop|]; cbn [of_opt ret raise]; [|reflexivity].
    destruct (negb (mem_N rop (op :: nexts))); [reflexivity|].
    destruct (full && negb (rop =? op) && (0 <? nlen (skipn (take_n req rem) rem)));
      [reflexivity|].
    destruct (negb (rop =? op)); [reflexivity|].
    unfold bind at 1. unfold idxM at 1. unfold OFF_DATAn. change (N.to_nat OFF_DATA) with 3%nat.
    destruct (idx r 3) as [q|]; cbn [of_opt ret raise]; [|reflexivity].
    rewrite IH by (cbn [length] in Hf; lia).
    destruct (chunks_run op nexts full sc (skipn (take_n req rem) rem) q) as [[res evs] sc''].
    cbn [fst snd chunk_events map rev]. rewrite <- app_assoc. reflexivity.
Qed.

(* 1.0: the loop IS the pure function: result, new trace events, left-over script; nothing else
   in the world changes *)
Theorem chunks_loop_run cmd op nexts full fuel data req w :
  (length (script w) < fuel)%nat ->
  chunks_loop fuel cmd op nexts full data req w =
  (fst (fst (chunks_run op nexts full (script w) data req)),
   after w (chunk_events cmd op (snd (fst (chunks_run op nexts full (script w) data req))))
           (snd (chunks_run op nexts full (script w) data req))).
Proof. destruct w as [sc cn o tr ci p rp fs]. cbn [script]. intro H. rewrite chunks_loop_run_rec by assumption. reflexivity. Qed.

(* 1c: fuel never decides anything *)
Theorem chunks_fuel_irrelevant cmd op nexts full fuel data req w :
  (S (length (script w)) <= fuel)%nat ->
  chunks_loop fuel cmd op nexts full data req w =
  chunks_loop (S (length (script w))) cmd op nexts full data req w.
Proof. intro H. rewrite !chunks_loop_run by lia. reflexivity. Qed.

Theorem send_data_in_chunks_run cmd op nexts data full req w :
  send_data_in_chunks cmd op nexts data full req w =
  (fst (fst (chunks_run op nexts full (script w) data req)),
   after w (chunk_events cmd op (snd (fst (chunks_run op nexts full (script w) data req))))
           (snd (chunks_run op nexts full (script w) data req))).
Proof. unfold send_data_in_chunks. apply chunks_loop_run. lia. Qed.

(* ---------- what each verdict says about the answer ---------- *)

Lemma decide_next op nexts full rem' a q :
  decide op nexts full rem' a = VNext q ->
  exists d, a = Data d /\ idx d 2 = Some op /\ idx d 3 = Some q.
Proof.
  unfold decide. destruct a as [b|sw| | | |]; cbn [classify]; try discriminate.
  - destruct (idx b 2) as [rop|] eqn:E2; [|discriminate].
    destruct (negb (mem_N rop (op :: nexts))); [discriminate|].
    destruct (full && negb (rop =? op) && (0 <? nlen rem')); [discriminate|].
    destruct (rop =? op) eqn:Eo; cbn [negb]; [|discriminate].
    destruct (idx b 3) as [q'|] eqn:E3; [|discriminate].
    intro H; inversion H; subst. apply N.eqb_eq in Eo. subst. exists b. auto.
  - destruct (user_defined sw); discriminate.
Qed.

(* the device moved on to an allowed next operation *)
Definition moved_on (op : N) (nexts : list N) (r : bytes) : Prop :=
  exists rop, idx r 2 = Some rop /\ mem_N rop nexts = true /\ rop <> op.

Lemma decide_true op nexts full rem' a r :
  decide op nexts full rem' a = VStop (Ok (true, r)) ->
  a = Data r /\ moved_on op nexts r /\ (full = true -> rem' = []).
Proof.
  unfold decide. destruct a as [b|sw| | | |]; cbn [classify]; try discriminate.
  - destruct (idx b 2) as [rop|] eqn:E2; [|discriminate].
    destruct (mem_N rop (op :: nexts)) eqn:Em; cbn [negb]; [|discriminate].
    destruct (rop =? op) eqn:Eo; cbn [negb].
    + rewrite andb_false_r. cbn [andb]. destruct (idx b 3); discriminate.
    + rewrite andb_true_r.
      destruct (full && (0 <? nlen rem')) eqn:Ef; [discriminate|].
      intro H; inversion H; subst. split; [reflexivity|]. split.
      * exists rop. cbn [mem_N] in Em. rewrite Eo in Em. cbn [orb] in Em.
        apply N.eqb_neq in Eo. auto.
      * intros ->. cbn [andb] in Ef. destruct rem'; [reflexivity|].
        rewrite nlen_cons in Ef. lia.
  - destruct (user_defined sw); discriminate.
Qed.

Lemma decide_false op nexts full rem' a r :
  decide op nexts full rem' a = VStop (Ok (false, r)) ->
  a = Data r /\ exists rop, idx r 2 = Some rop /\
    (mem_N rop (op :: nexts) = false \/ (full = true /\ rop <> op /\ rem' <> [])).
Proof.
  unfold decide. destruct a as [b|sw| | | |]; cbn [classify]; try discriminate.
  - destruct (idx b 2) as [rop|] eqn:E2; [|discriminate].
    destruct (mem_N rop (op :: nexts)) eqn:Em; cbn [negb].
    + destruct (rop =? op) eqn:Eo; cbn [negb].
      * rewrite andb_false_r. cbn [andb]. destruct (idx b 3); discriminate.
      * rewrite andb_true_r. destruct (full && (0 <? nlen rem')) eqn:Ef; [|discriminate].
        intro H; inversion H; subst. split; [reflexivity|]. exists rop. split; [exact E2|].
        right. apply andb_prop in Ef. destruct Ef as [-> Ef]. apply N.eqb_neq in Eo.
        repeat split; auto. intros ->. discriminate.
    + intro H; inversion H; subst. split; [reflexivity|]. exists rop. auto.
  - destruct (user_defined sw); discriminate.
Qed.

(* an exception out of the loop is the transport's own, or a too-short answer *)
Lemma decide_exn op nexts full rem' a e :
  decide op nexts full rem' a = VStop (Exn e) ->
  classify a = Exn e \/
  exists d, a = Data d /\ e = Py IndexError /\
            (idx d 2 = None \/ (idx d 2 = Some op /\ idx d 3 = None)).
Proof.
  unfold decide. destruct (classify a) as [r|e'] eqn:Ec.
  - destruct a as [b|sw| | | |]; cbn [classify] in Ec; try discriminate;
      [|destruct (user_defined sw); discriminate].
    inversion Ec; subst b.
    destruct (idx r 2) as [rop|] eqn:E2.
    + destruct (negb (mem_N rop (op :: nexts))); [discriminate|].
      destruct (full && negb (rop =? op) && (0 <? nlen rem')); [discriminate|].
      destruct (rop =? op) eqn:Eo; cbn [negb]; [|discriminate].
      destruct (idx r 3) eqn:E3; [discriminate|].
      intro H; inversion H; subst. apply N.eqb_eq in Eo; subst. right. exists r. auto.
    + intro H; inversion H; subst. right. exists r. auto.
  - intro H; inversion H; subst. left; reflexivity.
Qed.

(* ---------- induction principle following the loop ---------- *)

Lemma chunks_run_ind op nexts full
      (P : list resp -> bytes -> N -> result (bool * bytes) -> list (bytes * resp) -> list resp -> Prop) :
  (forall rem req,
      P [] rem req (Exn DongleTimeout) [(firstn (take_n req rem) rem, TimeoutR)] []) ->
  (forall a sc rem req res,
      decide op nexts full (skipn (take_n req rem) rem) a = VStop res ->
      P (a :: sc) rem req res [(firstn (take_n req rem) rem, a)] sc) ->
  (forall a sc rem req q res evs sc',
      decide op nexts full (skipn (take_n req rem) rem) a = VNext q ->
      chunks_run op nexts full sc (skipn (take_n req rem) rem) q = (res, evs, sc') ->
      P sc (skipn (take_n req rem) rem) q res evs sc' ->
      P (a :: sc) rem req res ((firstn (take_n req rem) rem, a) :: evs) sc') ->
  forall sc rem req res evs sc',
    chunks_run op nexts full sc rem req = (res, evs, sc') -> P sc rem req res evs sc'.
Proof.
  intros H0 H1 H2. induction sc as [|a sc IH]; intros rem req res evs sc' H.
  - cbn [chunks_run] in H. inversion H; subst. apply H0.
  - cbn [chunks_run] in H.
    destruct (decide op nexts full (skipn (take_n req rem) rem) a) as [res0|q] eqn:Ed.
    + inversion H; subst. apply H1. exact Ed.
    + destruct (chunks_run op nexts full sc (skipn (take_n req rem) rem) q) as [[res1 evs1] sc1] eqn:Er.
      inversion H; subst. eapply H2; eauto.
Qed.

(* ---------- 1a: the chunks are consecutive pieces of the data ---------- *)

(* [evs] is a chunked relay of [rem] starting with request [req]: each chunk is the next
   min(requested, remaining) bytes; every answer but the last is a Data answer for the same
   operation whose byte 3 is the next request *)
Fixpoint chunked (op : N) (rem : bytes) (req : N) (evs : list (bytes * resp)) : Prop :=
  match evs with
  | [] => True
  | ca :: evs' =>
      fst ca = firstn (take_n req rem) rem /\
      match evs' with
      | [] => True
      | _ :: _ => exists d q, snd ca = Data d /\ idx d 2 = Some op /\ idx d 3 = Some q /\
                              chunked op (skipn (take_n req rem) rem) q evs'
      end
  end.

(* the script items consumed are exactly the answers recorded; a silent (exhausted) device
   shows up as one final TimeoutR *)
Definition consumed (sc : list resp) (evs : list (bytes * resp)) (sc' : list resp) : Prop :=
  sc = map snd evs ++ sc' \/ (sc' = [] /\ map snd evs = sc ++ [TimeoutR]).

Lemma chunks_run_chunked op nexts full sc rem req res evs sc' :
  chunks_run op nexts full sc rem req = (res, evs, sc') ->
  evs <> [] /\ chunked op rem req evs /\ consumed sc evs sc'.
Proof.
  revert sc rem req res evs sc'. apply chunks_run_ind.
  - intros rem req. split; [discriminate|]. split; [cbn; auto|]. right. auto.
  - intros a sc rem req res _. split; [discriminate|]. split; [cbn; auto|]. left. reflexivity.
  - intros a sc rem req q res evs sc' Hd _ [Hne [Hc Hs]]. split; [discriminate|]. split.
    + cbn [chunked fst snd]. split; [reflexivity|]. destruct evs as [|x evs]; [congruence|].
      destruct (decide_next _ _ _ _ _ _ Hd) as [d [-> [H2 H3]]]. exists d, q. auto.
    + destruct Hs as [->|[-> Hs]]; [left; reflexivity|right].
      split; [reflexivity|]. cbn [map snd app]. rewrite Hs. reflexivity.
Qed.

Lemma chunked_prefix_ex op evs : forall rem req,
  chunked op rem req evs -> exists L, concat (map fst evs) = firstn L rem.
Proof.
  induction evs as [|ca evs IH]; intros rem req H.
  - exists 0%nat. reflexivity.
  - cbn [chunked] in H. destruct H as [Hc H]. cbn [map concat]. rewrite Hc.
    destruct evs as [|x evs].
    + exists (take_n req rem). cbn [map concat]. apply app_nil_r.
    + destruct H as [d [q [_ [_ [_ H]]]]]. destruct (IH _ _ H) as [L HL].
      exists (take_n req rem + L)%nat. rewrite HL. symmetry. apply firstn_plus.
Qed.

Lemma chunked_prefix op evs rem req :
  chunked op rem req evs ->
  concat (map fst evs) = firstn (length (concat (map fst evs))) rem.
Proof.
  intro H. destruct (chunked_prefix_ex _ _ _ _ H) as [L HL]. rewrite HL.
  symmetry. apply firstn_length_eq.
Qed.

(* chunk i is the slice of the data starting where chunk i-1 ended: in order, no overlap, no gap *)
Lemma chunked_slices op evs data req i c :
  chunked op data req evs -> nth_error (map fst evs) i = Some c ->
  c = slice data (length (concat (firstn i (map fst evs))))
                 (length (concat (firstn i (map fst evs))) + length c).
Proof.
  intros H Hi. eapply prefix_piece_is_slice; [apply (chunked_prefix _ _ _ _ H)|exact Hi].
Qed.

(* requested_0 = req, requested_{i+1} = byte 3 of answer i *)
Fixpoint requests (req : N) (evs : list (bytes * resp)) : list N :=
  match evs with
  | [] => []
  | ca :: evs' =>
      req :: requests (match snd ca with
                       | Data d => match idx d 3 with Some q => q | None => 0 end
                       | _ => 0
                       end) evs'
  end.

(* chunk i has min(requested_i, remaining_i) bytes *)
Lemma chunked_sizes op evs : forall data req i c q,
  chunked op data req evs ->
  nth_error (map fst evs) i = Some c -> nth_error (requests req evs) i = Some q ->
  nlen c = N.min q (nlen data - nlen (concat (firstn i (map fst evs)))).
Proof.
  induction evs as [|ca evs IH]; intros data req i c q H Hc Hq.
  - destruct i; discriminate.
  - cbn [chunked] in H. destruct H as [H0 H]. destruct i as [|i].
    + cbn in Hc, Hq. inversion Hc; inversion Hq; subst. rewrite H0. cbn [firstn concat].
      unfold take_n, nlen. rewrite firstn_length. cbn [length]. lia.
    + cbn [map nth_error requests firstn concat] in *.
      destruct evs as [|x evs]; [destruct i; discriminate|].
      destruct H as [d [q0 [Hd [_ [H3 H]]]]]. rewrite Hd, H3 in Hq.
      rewrite (IH _ _ _ _ _ H Hc Hq). rewrite nlen_app.
      assert (nlen (skipn (take_n req data) data) = nlen data - nlen (fst ca)).
      { rewrite H0. unfold nlen. rewrite skipn_length, firstn_length. lia. }
      lia.
Qed.

(* 1a, on the loop itself *)
Theorem chunks_prefix cmd op nexts full fuel data req w res w' :
  (length (script w) < fuel)%nat ->
  chunks_loop fuel cmd op nexts full data req w = (res, w') ->
  exists evs : list (bytes * resp),
    evs <> [] /\
    w' = after w (chunk_events cmd op evs) (script w') /\
    consumed (script w) evs (script w') /\
    chunked op data req evs /\
    concat (map fst evs) = firstn (length (concat (map fst evs))) data /\
    (forall i c, nth_error (map fst evs) i = Some c ->
       c = slice data (length (concat (firstn i (map fst evs))))
                      (length (concat (firstn i (map fst evs))) + length c)) /\
    (forall i c q, nth_error (map fst evs) i = Some c -> nth_error (requests req evs) i = Some q ->
       nlen c = N.min q (nlen data - nlen (concat (firstn i (map fst evs))))).
Proof.
  intros Hf H. rewrite chunks_loop_run in H by assumption.
  destruct (chunks_run op nexts full (script w) data req) as [[res0 evs] sc'] eqn:Er.
  cbn [fst snd] in H. inversion H; subst. clear H.
  destruct (chunks_run_chunked _ _ _ _ _ _ _ _ _ Er) as [Hne [Hc Hs]].
  exists evs. cbn [after script]. repeat split; auto.
  - apply (chunked_prefix _ _ _ _ Hc).
  - intros i c. apply (chunked_slices _ _ _ _ _ _ Hc).
  - intros i c q. apply (chunked_sizes _ _ _ _ _ _ _ Hc).
Qed.

(* ---------- 1b: what a True result means ---------- *)

Lemma chunks_run_true op nexts full sc rem req res evs sc' :
  chunks_run op nexts full sc rem req = (res, evs, sc') ->
  forall r, res = Ok (true, r) ->
  (exists evs0 c, evs = evs0 ++ [(c, Data r)]) /\ moved_on op nexts r /\
  (full = true -> concat (map fst evs) = rem).
Proof.
  revert sc rem req res evs sc'.
  apply (chunks_run_ind op nexts full
    (fun sc rem req res evs sc' => forall r, res = Ok (true, r) ->
       (exists evs0 c, evs = evs0 ++ [(c, Data r)]) /\ moved_on op nexts r /\
       (full = true -> concat (map fst evs) = rem))).
  - intros; discriminate.
  - intros a sc rem req res Hd r ->. destruct (decide_true _ _ _ _ _ _ Hd) as [-> [Hm Hf]].
    split; [exists [], (firstn (take_n req rem) rem); reflexivity|]. split; [exact Hm|].
    intro F. cbn [map fst concat]. rewrite app_nil_r.
    transitivity (firstn (take_n req rem) rem ++ skipn (take_n req rem) rem);
      [rewrite (Hf F), app_nil_r; reflexivity|apply firstn_skipn].
  - intros a sc rem req q res evs sc' _ _ IH r Hr.
    destruct (IH r Hr) as [[evs0 [c ->]] [Hm Hf]].
    split; [exists ((firstn (take_n req rem) rem, a) :: evs0), c; reflexivity|].
    split; [exact Hm|]. intro F. cbn [map fst concat]. rewrite (Hf F). apply firstn_skipn.
Qed.

Lemma chunked_earlier op evs0 : forall x rem req,
  chunked op rem req (evs0 ++ [x]) ->
  Forall (fun ca => exists d, snd ca = Data d /\ idx d 2 = Some op) evs0.
Proof.
  induction evs0 as [|ca evs0 IH]; intros x rem req H; [constructor|].
  cbn [app chunked] in H. destruct H as [_ H].
  destruct (evs0 ++ [x]) as [|y l] eqn:E; [destruct evs0; discriminate|].
  destruct H as [d [q [Hd [H2 [_ H]]]]]. constructor; [exists d; auto|].
  rewrite <- E in H. eapply IH; eauto.
Qed.

Theorem chunks_ok_inv cmd op nexts full fuel data req w r w' :
  (length (script w) < fuel)%nat ->
  chunks_loop fuel cmd op nexts full data req w = (Ok (true, r), w') ->
  exists (evs0 : list (bytes * resp)) (c : bytes),
    w' = after w (chunk_events cmd op (evs0 ++ [(c, Data r)])) (script w') /\
    (* answers consumed = the first answers of the script, the last one being Data r *)
    script w = map snd evs0 ++ Data r :: script w' /\
    (* the device moved on to an allowed next operation *)
    (exists rop, idx r 2 = Some rop /\ mem_N rop nexts = true /\ rop <> op) /\
    (* every earlier answer asked for more of the same operation *)
    Forall (fun ca => exists d, snd ca = Data d /\ idx d 2 = Some op) evs0 /\
    chunked op data req (evs0 ++ [(c, Data r)]) /\
    (full = true -> concat (map fst (evs0 ++ [(c, Data r)])) = data).
Proof.
  intros Hf H. rewrite chunks_loop_run in H by assumption.
  destruct (chunks_run op nexts full (script w) data req) as [[res0 evs] sc'] eqn:Er.
  cbn [fst snd] in H. inversion H; subst. clear H.
  destruct (chunks_run_chunked _ _ _ _ _ _ _ _ _ Er) as [Hne [Hc Hs]].
  destruct (chunks_run_true _ _ _ _ _ _ _ _ _ Er r eq_refl) as [[evs0 [c ->]] [Hm Hfull]].
  exists evs0, c. cbn [after script]. split; [reflexivity|]. split.
  - destruct Hs as [Hs|[_ Hs]].
    + rewrite Hs, map_app, <- app_assoc. reflexivity.
    + rewrite map_app in Hs. apply app_inj_tail in Hs. destruct Hs as [_ Hs]. discriminate.
  - split; [exact Hm|]. split; [eapply chunked_earlier; eauto|]. split; assumption.
Qed.

(* converse: a run whose chunks add up to all the data and whose last answer names an allowed
   next operation did end with (True, that answer) *)
Lemma chunks_run_done op nexts sc rem req res evs sc' :
  chunks_run op nexts true sc rem req = (res, evs, sc') ->
  forall g0 c r rop,
    evs = g0 ++ [(c, Data r)] -> idx r 2 = Some rop -> mem_N rop nexts = true -> rop <> op ->
    concat (map fst evs) = rem -> res = Ok (true, r).
Proof.
  revert sc rem req res evs sc'.
  apply (chunks_run_ind op nexts true
    (fun sc rem req res evs sc' => forall g0 c r rop,
       evs = g0 ++ [(c, Data r)] -> idx r 2 = Some rop -> mem_N rop nexts = true -> rop <> op ->
       concat (map fst evs) = rem -> res = Ok (true, r))).
  - intros rem req g0 c r rop Hg. destruct g0 as [|x [|y g0]]; discriminate.
  - intros a sc rem req res Hd g0 c r rop Hg H2 Hm Hne Hcat.
    destruct g0 as [|x [|y g0]]; try discriminate. cbn [app] in Hg. inversion Hg; subst a c.
    cbn [map fst concat] in Hcat. rewrite app_nil_r in Hcat.
    assert (Hs : skipn (take_n req rem) rem = []).
    { apply (app_inv_head (firstn (take_n req rem) rem)). rewrite firstn_skipn, app_nil_r.
      symmetry. exact Hcat. }
    rewrite Hs in Hd. unfold decide in Hd. cbn [classify] in Hd. rewrite H2 in Hd.
    cbn [mem_N] in Hd. rewrite Hm, orb_true_r in Hd. cbn [negb] in Hd.
    apply N.eqb_neq in Hne. rewrite Hne in Hd. cbn [negb andb nlen length] in Hd.
    change (0 <? N.of_nat 0) with false in Hd. cbv iota in Hd. inversion Hd. reflexivity.
  - intros a sc rem req q res evs sc' _ Er IH g0 c r rop Hg H2 Hm Hne Hcat.
    destruct (chunks_run_chunked _ _ _ _ _ _ _ _ _ Er) as [Hnil _].
    destruct g0 as [|x g0]; cbn [app] in Hg; inversion Hg; subst; [congruence|].
    eapply IH; eauto. cbn [map fst concat] in Hcat.
    apply (app_inv_head (firstn (take_n req rem) rem)). rewrite firstn_skipn. exact Hcat.
Qed.

Lemma chunks_run_timeout op nexts full sc rem req res evs sc' :
  chunks_run op nexts full sc rem req = (res, evs, sc') ->
  res = Exn DongleTimeout -> exists evs0 c, evs = evs0 ++ [(c, TimeoutR)].
Proof.
  revert sc rem req res evs sc'.
  apply (chunks_run_ind op nexts full
    (fun sc rem req res evs sc' =>
       res = Exn DongleTimeout -> exists evs0 c, evs = evs0 ++ [(c, TimeoutR)])).
  - intros rem req _. exists [], (firstn (take_n req rem) rem). reflexivity.
  - intros a sc rem req res Hd ->.
    destruct (decide_exn _ _ _ _ _ _ Hd) as [Hc|[d [_ [? _]]]]; [|discriminate].
    destruct a as [b|sw| | | |]; cbn [classify] in Hc; try discriminate.
    + destruct (user_defined sw); discriminate.
    + exists [], (firstn (take_n req rem) rem). reflexivity.
  - intros a sc rem req q res evs sc' _ _ IH Hr. destruct (IH Hr) as [evs0 [c ->]].
    exists ((firstn (take_n req rem) rem, a) :: evs0), c. reflexivity.
Qed.

(* the O => raise DongleTimeout branch is never what send_data_in_chunks returns: a timeout
   out of it always comes with the transport's TimeoutR answer as the newest trace event *)
Theorem send_data_in_chunks_timeout cmd op nexts data full req w w' :
  send_data_in_chunks cmd op nexts data full req w = (Exn DongleTimeout, w') ->
  exists b rest, trace w' = Apdu b TimeoutR :: rest.
Proof.
  rewrite send_data_in_chunks_run.
  destruct (chunks_run op nexts full (script w) data req) as [[res0 evs] sc'] eqn:Er.
  cbn [fst snd]. intro H; inversion H; subst; clear H. cbn [after trace].
  destruct (chunks_run_timeout _ _ _ _ _ _ _ _ _ Er eq_refl) as [evs0 [c ->]].
  unfold chunk_events. rewrite map_app, rev_app_distr. cbn [map rev app fst snd]. eauto.
Qed.

(* a device that asks for 3 bytes, then 2, then moves on to the next operation *)
Example chunks_example :
  send_data_in_chunks 2 2 [4] [10; 11; 12; 13; 14] true 3
    (world0 [Data [128; 2; 2; 2]; Data [128; 2; 4; 7]; Data [1]] [])
  = (Ok (true, [128; 2; 4; 7]),
     mkWorld [Data [1]] [] true
             [Apdu [128; 2; 2; 13; 14] (Data [128; 2; 4; 7]);
              Apdu [128; 2; 2; 10; 11; 12] (Data [128; 2; 2; 2])] false None [] []).
Proof. vm_compute. reflexivity. Qed.

(* early termination: the device moves on with bytes still unsent -> (False, _) *)
Example chunks_example_early :
  fst (send_data_in_chunks 2 2 [4] [10; 11; 12; 13; 14] true 3
         (world0 [Data [128; 2; 4; 7]] []))
  = Ok (false, [128; 2; 4; 7]).
Proof. vm_compute. reflexivity. Qed.

(* ====================================================================== *)
(* 2. framing: what is sent can be parsed back, uniquely                   *)
(* ====================================================================== *)

Local Notation two64 := 18446744073709551616.
Local Notation two32 := 4294967296.

Lemma to_bytes_le_N k n :
  to_bytes_le k (Z.of_N n) = if n <? 256 ^ N.of_nat k then Some (le_bytes k n) else None.
Proof.
  unfold to_bytes_le. destruct (Z.of_N n <? 0)%Z eqn:E; [apply Z.ltb_lt in E; lia|]. rewrite N2Z.id. reflexivity.
Qed.

(* ---------- 2a: the BTC payload ---------- *)

Lemma btc_payload_eq tx nv ed :
  btc_payload tx nv ed =
  if (nv <? 256) && (nlen ed <? 65536) && (7 + nlen tx <? two32)
  then Some (le_bytes 4 (7 + nlen tx) ++ [nv] ++ le_bytes 2 (nlen ed) ++ tx ++ ed)
  else None.
Proof.
  unfold btc_payload. rewrite !to_bytes_le_N.
  replace (4 + 1 + 2 + nlen tx) with (7 + nlen tx) by lia.
  change (256 ^ N.of_nat 1) with 256. change (256 ^ N.of_nat 2) with 65536.
  change (256 ^ N.of_nat 4) with two32.
  destruct (nv <? 256) eqn:E1; [|reflexivity].
  destruct (nlen ed <? 65536) eqn:E2; [|reflexivity].
  destruct (7 + nlen tx <? two32) eqn:E3; [|reflexivity].
  cbn [andb]. change (le_bytes 1 nv) with [nv mod 256]. rewrite (N.mod_small nv 256) by lia. reflexivity.
Qed.

Theorem btc_payload_some_iff tx nv ed :
  (exists p, btc_payload tx nv ed = Some p) <->
  nv < 256 /\ nlen ed < 65536 /\ 7 + nlen tx < two32.
Proof.
  rewrite btc_payload_eq.
  destruct (nv <? 256) eqn:E1; destruct (nlen ed <? 65536) eqn:E2;
    destruct (7 + nlen tx <? two32) eqn:E3; cbn [andb];
    (split; [intros [p H]; try discriminate; lia | intros [? [? ?]]; try lia; eauto]).
Qed.

Theorem btc_payload_form tx nv ed p :
  btc_payload tx nv ed = Some p ->
  p = le_bytes 4 (7 + nlen tx) ++ [nv] ++ le_bytes 2 (nlen ed) ++ tx ++ ed /\
  nv < 256 /\ nlen ed < 65536 /\ 7 + nlen tx < two32.
Proof.
  intro H. split; [|apply btc_payload_some_iff; eauto].
  rewrite btc_payload_eq in H.
  destruct ((nv <? 256) && (nlen ed <? 65536) && (7 + nlen tx <? two32)); [|discriminate].
  inversion H; reflexivity.
Qed.

(* what the device does with the payload: total length, mode, extradata length, tx, extradata *)
Definition parse_btc_payload (p : bytes) : option (bytes * N * bytes) :=
  match read_n 4 p with
  | Some (pl, nv :: r2) =>
      match read_n 2 r2 with
      | Some (edl, r3) =>
          let total := from_bytes_le pl in
          let edlen := from_bytes_le edl in
          if (7 <=? total) && (nlen r3 =? total - 7 + edlen)
          then Some (firstn (N.to_nat (total - 7)) r3, nv, skipn (N.to_nat (total - 7)) r3)
          else None
      | None => None
      end
  | _ => None
  end.

Theorem btc_payload_parse tx nv ed p :
  btc_payload tx nv ed = Some p -> parse_btc_payload p = Some (tx, nv, ed).
Proof.
  intro H. destruct (btc_payload_form _ _ _ _ H) as [-> [H1 [H2 H3]]].
  unfold parse_btc_payload. rewrite read_n_app by apply le_bytes_length.
  cbn [app]. rewrite read_n_app by apply le_bytes_length.
  cbv zeta. rewrite from_le_4 by lia. rewrite from_le_2 by lia.
  replace (7 + nlen tx - 7) with (nlen tx) by lia.
  rewrite nlen_app. rewrite N.eqb_refl.
  destruct (7 <=? 7 + nlen tx) eqn:E; [|lia]. cbn [andb].
  rewrite nlen_to_nat, firstn_app_exact, skipn_app_exact. reflexivity.
Qed.

(* nothing added, dropped or reordered: the payload determines all three parts *)
Corollary btc_payload_injective tx nv ed tx' nv' ed' p :
  btc_payload tx nv ed = Some p -> btc_payload tx' nv' ed' = Some p ->
  tx = tx' /\ nv = nv' /\ ed = ed'.
Proof.
  intros H H'. apply btc_payload_parse in H. apply btc_payload_parse in H'.
  rewrite H in H'. inversion H'. auto.
Qed.

Example btc_payload_example :
  btc_payload [1; 2; 3] 1 [9; 9] = Some [10; 0; 0; 0; 1; 2; 0; 1; 2; 3; 9; 9] /\
  parse_btc_payload [10; 0; 0; 0; 1; 2; 0; 1; 2; 3; 9; 9] = Some ([1; 2; 3], 1, [9; 9]).
Proof. vm_compute. auto. Qed.

(* ---------- 2b: the extra data ---------- *)

Theorem extradata_legacy ws ov : extradata false ws ov = Some [].
Proof. reflexivity. Qed.

Theorem extradata_some_iff ws ov :
  (exists ed, extradata true ws ov = Some ed) <-> (0 <= ov < 18446744073709551616)%Z.
Proof.
  unfold extradata, to_bytes_le. change (256 ^ N.of_nat 8) with two64.
  destruct (ov <? 0)%Z eqn:E0.
  - split; [intros [? H]; discriminate|lia].
  - destruct (Z.to_N ov <? two64) eqn:E1.
    + split; [lia|eauto].
    + split; [intros [? H]; discriminate|lia].
Qed.

Theorem extradata_form ws ov ed :
  extradata true ws ov = Some ed ->
  (0 <= ov < 18446744073709551616)%Z /\
  ed = varint (nlen ws) ++ ws ++ le_bytes 8 (Z.to_N ov).
Proof.
  intro H. split; [apply (extradata_some_iff ws); eauto|].
  unfold extradata, to_bytes_le in H. destruct (ov <? 0)%Z; [discriminate|].
  destruct (Z.to_N ov <? 256 ^ N.of_nat 8); [|discriminate]. inversion H; reflexivity.
Qed.

Definition parse_extradata (ed : bytes) : option (bytes * N) :=
  match read_var_bytes ed with
  | Some (ws, r) => if Nat.eqb (length r) 8 then Some (ws, from_bytes_le r) else None
  | None => None
  end.

Theorem extradata_parse ws ov ed :
  nlen ws < two64 ->
  extradata true ws ov = Some ed -> parse_extradata ed = Some (ws, Z.to_N ov).
Proof.
  intros Hw H. destruct (extradata_form _ _ _ H) as [Ho ->].
  unfold parse_extradata. rewrite app_assoc. fold (ser_var_bytes ws).
  rewrite read_var_bytes_ser by assumption. rewrite le_bytes_length. cbn [Nat.eqb].
  rewrite from_le_8 by lia. reflexivity.
Qed.

Example extradata_example :
  extradata true [7; 8] 258 = Some [2; 7; 8; 2; 1; 0; 0; 0; 0; 0; 0] /\
  parse_extradata [2; 7; 8; 2; 1; 0; 0; 0; 0; 0; 0] = Some ([7; 8], 258).
Proof. vm_compute. auto. Qed.

(* the whole segwit payload: tx, mode, witness script and outpoint value all come back, with
   no separate bound on the witness script (the 16-bit extradata length bounds it) *)
Theorem segwit_payload_parse tx nv ws ov ed p :
  extradata true ws ov = Some ed -> btc_payload tx nv ed = Some p ->
  parse_btc_payload p = Some (tx, nv, ed) /\ parse_extradata ed = Some (ws, Z.to_N ov).
Proof.
  intros He Hp. split; [apply btc_payload_parse; assumption|].
  apply extradata_parse; [|assumption].
  destruct (btc_payload_form _ _ _ _ Hp) as [_ [_ [Hl _]]].
  destruct (extradata_form _ _ _ He) as [_ ->]. rewrite !nlen_app in Hl. lia.
Qed.

(* ---------- 2c: the merkle proof ---------- *)

Theorem merkle_proof_some_iff nodes :
  (exists b, merkle_proof_bytes nodes = Some b) <->
  (length nodes <= 255)%nat /\ Forall (fun nd => (length nd <= 255)%nat) nodes.
Proof.
  unfold merkle_proof_bytes.
  match goal with |- context [if forallb ?g nodes then _ else _] => set (fb := forallb g nodes) end.
  assert (Hfa : fb = true <-> Forall (fun nd => (length nd <= 255)%nat) nodes).
  { subst fb. rewrite forallb_forall, Forall_forall. split; intros H x Hx; specialize (H x Hx);
      unfold nlen in *; lia. }
  destruct (255 <? nlen nodes) eqn:E.
  - split; [intros [? H]; discriminate|]. unfold nlen in E. lia.
  - destruct fb.
    + split; [|eauto]. intros _. split; [unfold nlen in E; lia|apply Hfa; reflexivity].
    + split; [intros [? H]; discriminate|]. intros [_ H]. apply Hfa in H. discriminate.
Qed.

Theorem merkle_proof_form nodes b :
  merkle_proof_bytes nodes = Some b ->
  b = nlen nodes :: concat (map (fun nd => nlen nd :: nd) nodes).
Proof.
  unfold merkle_proof_bytes. destruct (255 <? nlen nodes); [discriminate|].
  match goal with |- context [if forallb ?g nodes then _ else _] => destruct (forallb g nodes) end;
    [|discriminate].
  intro H; inversion H; reflexivity.
Qed.

Fixpoint parse_nodes (k : nat) (b : bytes) : option (list bytes) :=
  match k with
  | O => match b with [] => Some [] | _ :: _ => None end
  | S k' =>
      match b with
      | [] => None
      | l :: r =>
          if Nat.leb (N.to_nat l) (length r)
          then match parse_nodes k' (skipn (N.to_nat l) r) with
               | Some ns => Some (firstn (N.to_nat l) r :: ns)
               | None => None
               end
          else None
      end
  end.

Definition parse_proof (b : bytes) : option (list bytes) :=
  match b with [] => None | n :: r => parse_nodes (N.to_nat n) r end.

Lemma parse_nodes_ser nodes :
  parse_nodes (length nodes) (concat (map (fun nd => nlen nd :: nd) nodes)) = Some nodes.
Proof.
  induction nodes as [|nd nodes IH]; [reflexivity|].
  cbn [length map concat app parse_nodes]. rewrite nlen_to_nat, app_length.
  destruct (Nat.leb (length nd) (length nd + length (concat (map (fun nd => nlen nd :: nd) nodes))))
    eqn:E; [|apply Nat.leb_gt in E; lia].
  rewrite skipn_app_exact, firstn_app_exact, IH. reflexivity.
Qed.

Theorem merkle_proof_parse nodes b :
  merkle_proof_bytes nodes = Some b -> parse_proof b = Some nodes.
Proof.
  intro H. rewrite (merkle_proof_form _ _ H). unfold parse_proof.
  rewrite nlen_to_nat. apply parse_nodes_ser.
Qed.

Corollary merkle_proof_injective nodes nodes' b :
  merkle_proof_bytes nodes = Some b -> merkle_proof_bytes nodes' = Some b -> nodes = nodes'.
Proof.
  intros H H'. apply merkle_proof_parse in H. apply merkle_proof_parse in H'.
  rewrite H in H'. inversion H'. reflexivity.
Qed.

Example merkle_proof_example :
  merkle_proof_bytes [[1; 2]; []; [3]] = Some [3; 2; 1; 2; 0; 1; 3] /\
  parse_proof [3; 2; 1; 2; 0; 1; 3] = Some [[1; 2]; []; [3]].
Proof. vm_compute. auto. Qed.

(* ====================================================================== *)
(* 3. unauthorized signing: one APDU, path + hash                          *)
(* ====================================================================== *)

(* the answer the next exchange will get (a silent device = timeout) *)
Definition next_answer (w : world) : resp :=
  match script w with [] => TimeoutR | r :: _ => r end.

Lemma send_command_after cmd data w :
  send_command cmd data w =
  (classify (next_answer w),
   after w [Apdu (CLA :: cmd :: data) (next_answer w)] (tl (script w))).
Proof.
  destruct w as [sc cn o tr ci p rp fs]. unfold send_command, next_answer, after. wsimpl.
  destruct sc; reflexivity.
Qed.

Theorem sign_unauthorized_trace path h w :
  exists res,
    sign_unauthorized path (Some h) w =
    (res, after w [Apdu ([CLA; CMD_SIGN; SIGN_OP_PATH] ++ path ++ h) (next_answer w)]
                (tl (script w))) /\
    forall r s_,
      res = Ok (inl (r, s_)) <->
      exists d, next_answer w = Data d /\ idx d 2 = Some SIGN_OP_SUCCESS /\
                der_parse (skipn 3 d) = Some (r, s_).
Proof.
  unfold sign_unauthorized. unfold bind at 1. unfold on_error_result, try_catch.
  unfold bind at 1. rewrite send_command_after. cbn [app].
  destruct (next_answer w) as [d|sw| | | |] eqn:Ea; cbn [classify].
  - unfold bind at 1. unfold idxM, OFF_OPn. change (N.to_nat OFF_OP) with 2%nat.
    destruct (idx d 2) as [op|] eqn:E2; cbn [of_opt ret raise].
    + destruct (op =? SIGN_OP_BTC_TX) eqn:Eb.
      * eexists; split; [reflexivity|]. intros r s_. split; [discriminate|].
        intros [d' [Hd [H2 _]]]. inversion Hd; subst d'. rewrite E2 in H2. inversion H2; subst.
        discriminate.
      * destruct (op =? SIGN_OP_SUCCESS) eqn:Es; cbn [negb].
        -- apply N.eqb_eq in Es. subst op.
           unfold ret; cbv beta iota. unfold parse_sig, slice_from, OFF_DATAn. change (N.to_nat OFF_DATA) with 3%nat.
           destruct (der_parse (skipn 3 d)) as [[r0 s0]|] eqn:Ed.
           ++ eexists; split; [reflexivity|]. intros r s_. split.
              ** intro H; inversion H; subst. exists d. repeat split; auto.
              ** intros [d' [Hd [_ H3]]]. inversion Hd; subst d'. rewrite Ed in H3.
                 inversion H3; reflexivity.
           ++ eexists; split; [reflexivity|]. intros r s_. split; [discriminate|].
              intros [d' [Hd [_ H3]]]. inversion Hd; subst d'. rewrite Ed in H3. discriminate.
        -- eexists; split; [reflexivity|]. intros r s_. split; [discriminate|].
           intros [d' [Hd [H2 _]]]. inversion Hd; subst d'. rewrite E2 in H2.
           inversion H2; subst. rewrite N.eqb_refl in Es. discriminate.
    + eexists; split; [reflexivity|]. intros r s_. split; [discriminate|].
      intros [d' [Hd [H2 _]]]. inversion Hd; subst d'. rewrite E2 in H2. discriminate.
  - destruct (user_defined sw); (eexists; split; [reflexivity|]);
      (intros r s_; split; [discriminate|intros [d' [Hd _]]; discriminate]).
  - eexists; split; [reflexivity|]. intros r s_; split; [discriminate|intros [d' [Hd _]]; discriminate].
  - eexists; split; [reflexivity|]. intros r s_; split; [discriminate|intros [d' [Hd _]]; discriminate].
  - eexists; split; [reflexivity|]. intros r s_; split; [discriminate|intros [d' [Hd _]]; discriminate].
  - eexists; split; [reflexivity|]. intros r s_; split; [discriminate|intros [d' [Hd _]]; discriminate].
Qed.

(* a malformed hash sends nothing at all *)
Theorem sign_unauthorized_bad_hash path w :
  sign_unauthorized path None w = (Ok (inr RESP_SIGN_ERROR_HASH), w).
Proof. reflexivity. Qed.

Example sign_unauthorized_example :
  sign_unauthorized [5; 1; 0; 0; 0] (Some [170; 187])
    (world0 [Data [128; 2; 129; 48; 8; 2; 2; 1; 2; 2; 2; 3; 4]] [])
  = (Ok (inl ([1; 2], [3; 4])),
     mkWorld [] [] true
             [Apdu [128; 2; 1; 5; 1; 0; 0; 0; 170; 187]
                   (Data [128; 2; 129; 48; 8; 2; 2; 1; 2; 2; 2; 3; 4])] false None [] []).
Proof. vm_compute. reflexivity. Qed.

(* ====================================================================== *)
(* 4. authorized signing: path, BTC tx, receipt, merkle proof, in order    *)
(* ====================================================================== *)

Lemma after_after w n1 s1 n2 s2 : after (after w n1 s1) n2 s2 = after w (n1 ++ n2) s2.
Proof. unfold after. cbn [connects opened trace comm_issue pin rand_pins fs_ok].
       rewrite rev_app_distr, <- app_assoc. reflexivity. Qed.

Lemma after_nil w : w = after w [] (script w).
Proof. destruct w; reflexivity. Qed.

(* one chunked step under its `except HSM2DongleErrorResult` *)
Lemma oer_sdic {X} op nexts data req (body : bool * bytes -> M X) (h : N -> M X) w :
  on_error_result (bind (send_data_in_chunks CMD_SIGN op nexts data true req) body) h w =
  match chunks_run op nexts true (script w) data req with
  | (res, evs, sc') =>
      let w1 := after w (chunk_events CMD_SIGN op evs) sc' in
      match res with
      | Ok cr => match body cr w1 with
                 | (Exn (ErrorResult sw), w2) => h sw w2
                 | x => x
                 end
      | Exn (ErrorResult sw) => h sw w1
      | Exn e => (Exn e, w1)
      end
  end.
Proof.
  unfold on_error_result, try_catch, bind. rewrite send_data_in_chunks_run.
  destruct (chunks_run op nexts true (script w) data req) as [[res evs] sc']. cbn [fst snd].
  destruct res as [cr|e].
  - destruct (body cr (after w (chunk_events CMD_SIGN op evs) sc')) as [[a|e] w2];
      [reflexivity|destruct e; reflexivity].
  - destruct e; reflexivity.
Qed.

Definition group (op : N) (g : list (bytes * resp)) : list event := chunk_events CMD_SIGN op g.

(* [data] was offered in chunks, the first request being [req] (so what was sent is a prefix) *)
Definition part_tried (op : N) (data : bytes) (req : N) (g : list (bytes * resp)) : Prop :=
  g <> [] /\ chunked op data req g.

(* ... and ALL of it was sent, the last answer being Data r announcing operation [next] *)
Definition part_done (op next : N) (data : bytes) (req : N) (g : list (bytes * resp)) (r : bytes)
  : Prop :=
  chunked op data req g /\ concat (map fst g) = data /\
  (exists g0 c, g = g0 ++ [(c, Data r)]) /\ idx r 2 = Some next.

Definition not_signed (res : result sign_result) : Prop := forall rs, res <> Ok (inl rs).

Lemma part_tried_prefix op data req g :
  part_tried op data req g -> concat (map fst g) = firstn (length (concat (map fst g))) data.
Proof. intros [_ H]. apply (chunked_prefix _ _ _ _ H). Qed.

Lemma run_part op next sc data req res evs sc' :
  chunks_run op [next] true sc data req = (res, evs, sc') ->
  part_tried op data req evs /\
  (forall r, res = Ok (true, r) -> part_done op next data req evs r).
Proof.
  intro Er. destruct (chunks_run_chunked _ _ _ _ _ _ _ _ _ Er) as [Hne [Hc _]].
  split; [split; assumption|]. intros r ->.
  destruct (chunks_run_true _ _ _ _ _ _ _ _ _ Er r eq_refl) as [Hl [[rop [H2 [Hm _]]] Hf]].
  split; [assumption|]. split; [apply Hf; reflexivity|]. split; [assumption|].
  cbn [mem_N] in Hm. rewrite orb_false_r in Hm. apply N.eqb_eq in Hm. subst. assumption.
Qed.

(* shape of the trace of a middle step (BTC tx, receipt): the part is offered; the rest of the
   trace is non-empty only if the part went through completely and the device named the next
   operation and its first request *)
Definition step_shape (op next : N) (data : bytes) (req : N)
           (Shape : N -> list event -> result sign_result -> Prop)
           (news : list event) (res : result sign_result) : Prop :=
  exists g rest, news = group op g ++ rest /\ part_tried op data req g /\
    ((rest = [] /\ not_signed res) \/
     exists r q, part_done op next data req g r /\ idx r 3 = Some q /\ Shape q rest res).

Lemma relay_step_shape op next data req (h : N -> Z) (k : N -> M sign_result)
      (Shape : N -> list event -> result sign_result -> Prop) :
  (forall q w res w', k q w = (res, w') ->
                      exists news, w' = after w news (script w') /\ Shape q news res) ->
  forall w res w',
    (s <- on_error_result
            (cr <- send_data_in_chunks CMD_SIGN op [next] data true req ;;
             if negb (fst cr) then ret (inr RESP_SIGN_ERROR_UNEXPECTED) else
             q <- idxM (snd cr) OFF_DATAn ;; ret (inl q))
            (fun sw => ret (inr (h sw))) ;;
     match s with inr c => ret (inr c) | inl q => k q end) w = (res, w') ->
    exists news, w' = after w news (script w') /\ step_shape op next data req Shape news res.
Proof.
  intros Hk w res w' H. unfold bind at 1 in H. rewrite oer_sdic in H.
  destruct (chunks_run op [next] true (script w) data req) as [[res0 evs] sc'] eqn:Er.
  destruct (run_part _ _ _ _ _ _ _ _ Er) as [Ht Hd]. cbv zeta in H.
  assert (Hstop : forall x, not_signed x ->
            (x, after w (chunk_events CMD_SIGN op evs) sc') = (res, w') ->
            exists news, w' = after w news (script w') /\ step_shape op next data req Shape news res).
  { intros x Hx E. inversion E; subst. exists (group op evs). split; [reflexivity|].
    exists evs, []. split; [symmetry; apply app_nil_r|]. split; [exact Ht|]. left. auto. }
  destruct res0 as [[[|] r]|e].
  - cbn [fst snd negb] in H. unfold bind at 1 in H. unfold idxM, OFF_DATAn in H.
    change (N.to_nat OFF_DATA) with 3%nat in H.
    destruct (idx r 3) as [q|] eqn:E3; cbn [of_opt ret raise] in H.
    + destruct (Hk _ _ _ _ H) as [news [Hw Hs]].
      exists (group op evs ++ news). split.
      * rewrite Hw at 1. rewrite after_after. reflexivity.
      * exists evs, news. split; [reflexivity|]. split; [exact Ht|]. right.
        exists r, q. auto.
    + eapply Hstop; [|exact H]. intros rs; discriminate.
  - cbn [fst snd negb ret] in H. eapply Hstop; [|exact H]. intros rs; discriminate.
  - destruct e; cbn [ret] in H; (eapply Hstop; [|exact H]); intros rs; discriminate.
Qed.

(* last step: merkle proof, then the signature *)
Definition shape4 (proof : list bytes) (req3 : N) (news : list event) (res : result sign_result)
  : Prop :=
  (news = [] /\ not_signed res) \/
  exists mp g4,
    merkle_proof_bytes proof = Some mp /\ news = group SIGN_OP_MERKLE_PROOF g4 /\
    part_tried SIGN_OP_MERKLE_PROOF mp req3 g4 /\
    forall r s_,
      res = Ok (inl (r, s_)) <->
      exists r4, part_done SIGN_OP_MERKLE_PROOF SIGN_OP_SUCCESS mp req3 g4 r4 /\
                 der_parse (skipn 3 r4) = Some (r, s_).

Definition sa_step4 (proof : list bytes) (req3 : N) : M sign_result :=
  match merkle_proof_bytes proof with
  | None => ret (inr RESP_SIGN_ERROR_MERKLE_PROOF)
  | Some mp =>
      on_error_result
        (cr <- send_data_in_chunks CMD_SIGN SIGN_OP_MERKLE_PROOF [SIGN_OP_SUCCESS] mp true req3 ;;
         if negb (fst cr) then ret (inr RESP_SIGN_ERROR_UNEXPECTED) else
         ret (parse_sig (slice_from (snd cr) OFF_DATAn)))
        (fun sw => ret (inr (lookup_err sw SIGN_AUTH_STEP4_ERRS SIGN_AUTH_STEP4_DEFAULT)))
  end.

Lemma last_answer_unique {A} (g0 g0' : list (A * resp)) c c' r r' :
  g0 ++ [(c, Data r)] = g0' ++ [(c', Data r')] -> r = r'.
Proof. intro H. apply app_inj_tail in H. destruct H as [_ H]. inversion H. reflexivity. Qed.

Lemma run_part_conv op next sc data req res evs sc' r :
  chunks_run op [next] true sc data req = (res, evs, sc') -> next <> op ->
  part_done op next data req evs r -> res = Ok (true, r).
Proof.
  intros Er Hne [_ [Hcat [[g0 [c Hg]] H2]]].
  eapply (chunks_run_done _ _ _ _ _ _ _ _ Er g0 c r next); auto.
  cbn [mem_N]. rewrite N.eqb_refl. reflexivity.
Qed.

Lemma sa_step4_shape proof req3 w res w' :
  sa_step4 proof req3 w = (res, w') ->
  exists news, w' = after w news (script w') /\ shape4 proof req3 news res.
Proof.
  unfold sa_step4. destruct (merkle_proof_bytes proof) as [mp|] eqn:Em.
  - intro H. rewrite oer_sdic in H.
    destruct (chunks_run SIGN_OP_MERKLE_PROOF [SIGN_OP_SUCCESS] true (script w) mp req3)
      as [[res0 evs] sc'] eqn:Er.
    destruct (run_part _ _ _ _ _ _ _ _ Er) as [Ht Hd]. cbv zeta in H.
    assert (Hconv : forall r4, part_done SIGN_OP_MERKLE_PROOF SIGN_OP_SUCCESS mp req3 evs r4 ->
                               res0 = Ok (true, r4)).
    { intros r4. apply (run_part_conv _ _ _ _ _ _ _ _ _ Er). discriminate. }
    assert (Hstop : forall x, not_signed x -> (forall r, res0 <> Ok (true, r)) ->
              (x, after w (chunk_events CMD_SIGN SIGN_OP_MERKLE_PROOF evs) sc') = (res, w') ->
              exists news, w' = after w news (script w') /\ shape4 proof req3 news res).
    { intros x Hx Hn E. inversion E; subst. exists (group SIGN_OP_MERKLE_PROOF evs).
      split; [reflexivity|]. right. exists mp, evs. split; [exact Em|]. split; [reflexivity|].
      split; [exact Ht|]. intros r s_. split; [intro F; destruct (Hx _ F)|].
      intros [r4 [Hp _]]. destruct (Hn _ (Hconv _ Hp)). }
    destruct res0 as [[[|] r]|e].
    + cbn [fst snd negb ret] in H.
      remember (parse_sig (slice_from r OFF_DATAn)) as ps eqn:Eps.
      injection H as Hr Hw. subst res w'.
      exists (group SIGN_OP_MERKLE_PROOF evs). split; [reflexivity|]. right. exists mp, evs.
      split; [exact Em|]. split; [reflexivity|]. split; [exact Ht|].
      intros r0 s0.
      assert (Eps' : ps = match der_parse (skipn 3 r) with
                          | Some rs => inl rs
                          | None => inr RESP_SIGN_ERROR_UNEXPECTED
                          end) by (subst ps; reflexivity).
      clear Eps. split.
      * intro F. injection F as F. rewrite F in Eps'.
        destruct (der_parse (skipn 3 r)) as [rs|] eqn:Ed; [|discriminate].
        injection Eps' as E'. subst rs. exists r. split; [apply Hd; reflexivity|exact Ed].
      * intros [r4 [Hp Hder]]. pose proof (Hconv _ Hp) as E. injection E as E. subst r4.
        rewrite Eps', Hder. reflexivity.
    + cbn [fst snd negb ret] in H. eapply Hstop; [| |exact H]; intros; discriminate.
    + destruct e; cbn [ret] in H; (eapply Hstop; [| |exact H]); intros; discriminate.
  - intro H. cbn [ret] in H. inversion H; subst. exists []. split; [apply after_nil|].
    left. split; [reflexivity|]. intros rs; discriminate.
Qed.

Definition shape3 (receipt : bytes) (proof : list bytes) (req2 : N) :=
  step_shape SIGN_OP_TX_RECEIPT SIGN_OP_MERKLE_PROOF receipt req2 (shape4 proof).

Definition shape2 (payload receipt : bytes) (proof : list bytes) (req1 : N) :=
  step_shape SIGN_OP_BTC_TX SIGN_OP_TX_RECEIPT payload req1 (shape3 receipt proof).

Definition sa_step3 (receipt : bytes) (proof : list bytes) (req2 : N) : M sign_result :=
  s3 <- on_error_result
          (cr <- send_data_in_chunks CMD_SIGN SIGN_OP_TX_RECEIPT [SIGN_OP_MERKLE_PROOF] receipt true req2 ;;
           if negb (fst cr) then ret (inr RESP_SIGN_ERROR_UNEXPECTED) else
           q <- idxM (snd cr) OFF_DATAn ;; ret (inl q))
          (fun sw => ret (inr (lookup_err sw SIGN_AUTH_STEP3_ERRS SIGN_AUTH_STEP3_DEFAULT))) ;;
  match s3 with inr c => ret (inr c) | inl req3 => sa_step4 proof req3 end.

Definition sa_step2 (payload receipt : bytes) (proof : list bytes) (req1 : N) : M sign_result :=
  s2 <- on_error_result
          (cr <- send_data_in_chunks CMD_SIGN SIGN_OP_BTC_TX [SIGN_OP_TX_RECEIPT] payload true req1 ;;
           if negb (fst cr) then ret (inr RESP_SIGN_ERROR_UNEXPECTED) else
           q <- idxM (snd cr) OFF_DATAn ;; ret (inl q))
          (fun sw => ret (inr (lookup_err sw SIGN_AUTH_STEP2_ERRS SIGN_AUTH_STEP2_DEFAULT))) ;;
  match s2 with inr c => ret (inr c) | inl req2 => sa_step3 receipt proof req2 end.

Lemma sa_step3_shape receipt proof req2 w res w' :
  sa_step3 receipt proof req2 w = (res, w') ->
  exists news, w' = after w news (script w') /\ shape3 receipt proof req2 news res.
Proof.
  apply (relay_step_shape SIGN_OP_TX_RECEIPT SIGN_OP_MERKLE_PROOF receipt req2
           (fun sw => lookup_err sw SIGN_AUTH_STEP3_ERRS SIGN_AUTH_STEP3_DEFAULT)
           (sa_step4 proof) (shape4 proof)).
  intros q w0 res0 w0'. apply sa_step4_shape.
Qed.

Lemma sa_step2_shape payload receipt proof req1 w res w' :
  sa_step2 payload receipt proof req1 w = (res, w') ->
  exists news, w' = after w news (script w') /\ shape2 payload receipt proof req1 news res.
Proof.
  apply (relay_step_shape SIGN_OP_BTC_TX SIGN_OP_TX_RECEIPT payload req1
           (fun sw => lookup_err sw SIGN_AUTH_STEP2_ERRS SIGN_AUTH_STEP2_DEFAULT)
           (sa_step3 receipt proof) (shape3 receipt proof)).
  intros q w0 res0 w0'. apply sa_step3_shape.
Qed.

(* the model's sign_authorized is literally these steps *)
Lemma sign_authorized_unfold path receipt proof tx input mode ws ov :
  sign_authorized path receipt proof tx input mode ws ov =
  (inb <- of_opt (to_bytes_le 4 input) OverflowError ;;
   s1 <- on_error_result
           (r <- send_command CMD_SIGN (SIGN_OP_PATH :: path ++ inb) ;;
            op <- idxM r OFF_OPn ;;
            if negb (op =? SIGN_OP_BTC_TX) then ret (inr RESP_SIGN_ERROR_UNEXPECTED) else
            q <- idxM r OFF_DATAn ;; ret (inl q))
           (fun sw => ret (inr (lookup_err sw SIGN_AUTH_STEP1_ERRS SIGN_AUTH_STEP1_DEFAULT))) ;;
   match s1 with inr c => ret (inr c) | inl req1 =>
   nv <- of_opt (sighash_netvalue mode) ValueError ;;
   match (match extradata (nv =? 1) ws ov with
          | Some ed => btc_payload tx nv ed | None => None end) with
   | None => ret (inr (-2)%Z)
   | Some payload => sa_step2 payload receipt proof req1
   end end).
Proof. reflexivity. Qed.

Lemma oer_send {X} cmd data (body : bytes -> M X) (h : N -> M X) w :
  on_error_result (bind (send_command cmd data) body) h w =
  let w1 := after w [Apdu (CLA :: cmd :: data) (next_answer w)] (tl (script w)) in
  match classify (next_answer w) with
  | Ok r => match body r w1 with
            | (Exn (ErrorResult sw), w2) => h sw w2
            | x => x
            end
  | Exn (ErrorResult sw) => h sw w1
  | Exn e => (Exn e, w1)
  end.
Proof.
  unfold on_error_result, try_catch, bind. rewrite send_command_after. cbv zeta.
  destruct (classify (next_answer w)) as [r|e].
  - destruct (body r _) as [[a|e] w2]; [reflexivity|destruct e; reflexivity].
  - destruct e; reflexivity.
Qed.

(* the whole trace of an authorized signing request *)
Definition sign_trace_shape (path receipt : bytes) (proof : list bytes) (tx : bytes) (input : Z)
           (mode : str) (ws : bytes) (ov : Z) (news : list event) (res : result sign_result)
  : Prop :=
  match to_bytes_le 4 input with
  | None => news = [] /\ res = Exn (Py OverflowError)
  | Some inb =>
      exists a1 rest,
        news = Apdu (CLA :: CMD_SIGN :: SIGN_OP_PATH :: path ++ inb) a1 :: rest /\
        ((rest = [] /\ not_signed res) \/
         exists d1 req1 nv ed payload,
           a1 = Data d1 /\ idx d1 2 = Some SIGN_OP_BTC_TX /\ idx d1 3 = Some req1 /\
           sighash_netvalue mode = Some nv /\ extradata (nv =? 1) ws ov = Some ed /\
           btc_payload tx nv ed = Some payload /\
           shape2 payload receipt proof req1 rest res)
  end.

Theorem sign_authorized_relays path receipt proof tx input mode ws ov w res w' :
  sign_authorized path receipt proof tx input mode ws ov w = (res, w') ->
  exists news, w' = after w news (script w') /\
               sign_trace_shape path receipt proof tx input mode ws ov news res.
Proof.
  rewrite sign_authorized_unfold. unfold sign_trace_shape.
  destruct (to_bytes_le 4 input) as [inb|] eqn:Ei; cbn [of_opt].
  - unfold bind at 1. unfold ret at 1. cbv beta iota.
    unfold bind at 1. rewrite oer_send. cbv zeta.
    set (w1 := after w [Apdu (CLA :: CMD_SIGN :: SIGN_OP_PATH :: path ++ inb) (next_answer w)]
                     (tl (script w))).
    assert (Hstop : forall x, not_signed x -> (x, w1) = (res, w') ->
      exists news, w' = after w news (script w') /\
        exists a1 rest,
          news = Apdu (CLA :: CMD_SIGN :: SIGN_OP_PATH :: path ++ inb) a1 :: rest /\
          ((rest = [] /\ not_signed res) \/
           exists d1 req1 nv ed payload,
             a1 = Data d1 /\ idx d1 2 = Some SIGN_OP_BTC_TX /\ idx d1 3 = Some req1 /\
             sighash_netvalue mode = Some nv /\ extradata (nv =? 1) ws ov = Some ed /\
             btc_payload tx nv ed = Some payload /\
             shape2 payload receipt proof req1 rest res)).
    { intros x Hx E. injection E as Hr Hw. subst x w'. eexists. split; [reflexivity|].
      eexists _, []. split; [reflexivity|]. left. auto. }
    destruct (next_answer w) as [d|sw| | | |] eqn:Ea; cbn [classify].
    + unfold bind at 1. unfold idxM at 1. unfold OFF_OPn. change (N.to_nat OFF_OP) with 2%nat.
      destruct (idx d 2) as [op|] eqn:E2; cbn [of_opt ret raise].
      * destruct (op =? SIGN_OP_BTC_TX) eqn:Eo; cbn [negb].
        -- apply N.eqb_eq in Eo. subst op.
           unfold bind at 1. unfold idxM at 1. unfold OFF_DATAn. change (N.to_nat OFF_DATA) with 3%nat.
           destruct (idx d 3) as [req1|] eqn:E3; cbn [of_opt ret raise].
           ++ destruct (sighash_netvalue mode) as [nv|] eqn:En; cbn [of_opt].
              ** unfold bind at 1. unfold ret at 1. cbv beta iota.
                 destruct (extradata (nv =? 1) ws ov) as [ed|] eqn:Ee.
                 --- destruct (btc_payload tx nv ed) as [payload|] eqn:Ep.
                     +++ intro H. destruct (sa_step2_shape _ _ _ _ _ _ _ H) as [news [Hw Hs]].
                         exists (Apdu (CLA :: CMD_SIGN :: SIGN_OP_PATH :: path ++ inb) (Data d) :: news).
                         split.
                         *** rewrite Hw at 1. unfold w1. rewrite after_after. reflexivity.
                         *** eexists _, news. split; [reflexivity|]. right.
                             exists d, req1, nv, ed, payload. auto 10.
                     +++ cbn [ret]. apply Hstop. intros rs; discriminate.
                 --- cbn [ret]. apply Hstop. intros rs; discriminate.
              ** unfold bind at 1. unfold raise at 1. apply Hstop. intros rs; discriminate.
           ++ apply Hstop. intros rs; discriminate.
        -- apply Hstop. intros rs; discriminate.
      * apply Hstop. intros rs; discriminate.
    + destruct (user_defined sw); cbn [ret]; apply Hstop; intros rs; discriminate.
    + apply Hstop; intros rs; discriminate.
    + apply Hstop; intros rs; discriminate.
    + apply Hstop; intros rs; discriminate.
    + apply Hstop; intros rs; discriminate.
  - unfold bind at 1. unfold raise at 1. intro H. injection H as Hr Hw. subst.
    exists []. split; [apply after_nil|]. auto.
Qed.

(* success, spelled out: the trace is exactly PATH, then the whole payload, the whole receipt
   and the whole merkle proof in chunks, each step ending with the device naming the next
   operation, and (r, s) is the DER body of the final SUCCESS answer *)
Theorem sign_authorized_success path receipt proof tx input mode ws ov w r s_ w' :
  sign_authorized path receipt proof tx input mode ws ov w = (Ok (inl (r, s_)), w') ->
  exists inb d1 req1 nv ed payload g2 r2 req2 g3 r3 req3 mp g4 r4,
    to_bytes_le 4 input = Some inb /\
    sighash_netvalue mode = Some nv /\ extradata (nv =? 1) ws ov = Some ed /\
    btc_payload tx nv ed = Some payload /\ merkle_proof_bytes proof = Some mp /\
    w' = after w (Apdu (CLA :: CMD_SIGN :: SIGN_OP_PATH :: path ++ inb) (Data d1)
                  :: group SIGN_OP_BTC_TX g2 ++ group SIGN_OP_TX_RECEIPT g3
                  ++ group SIGN_OP_MERKLE_PROOF g4) (script w') /\
    idx d1 2 = Some SIGN_OP_BTC_TX /\ idx d1 3 = Some req1 /\
    part_done SIGN_OP_BTC_TX SIGN_OP_TX_RECEIPT payload req1 g2 r2 /\ idx r2 3 = Some req2 /\
    part_done SIGN_OP_TX_RECEIPT SIGN_OP_MERKLE_PROOF receipt req2 g3 r3 /\ idx r3 3 = Some req3 /\
    part_done SIGN_OP_MERKLE_PROOF SIGN_OP_SUCCESS mp req3 g4 r4 /\
    der_parse (skipn 3 r4) = Some (r, s_).
Proof.
  intro H. destruct (sign_authorized_relays _ _ _ _ _ _ _ _ _ _ _ H) as [news [Hw Hs]].
  unfold sign_trace_shape in Hs. destruct (to_bytes_le 4 input) as [inb|]; [|destruct Hs; discriminate].
  destruct Hs as [a1 [rest [Hn [[_ Hx]|Hs]]]]; [destruct (Hx _ eq_refl)|].
  destruct Hs as [d1 [req1 [nv [ed [payload [-> [H12 [H13 [Hnv [Hed [Hp Hs]]]]]]]]]]].
  destruct Hs as [g2 [rest2 [-> [_ [[_ Hx]|Hs]]]]]; [destruct (Hx _ eq_refl)|].
  destruct Hs as [r2 [req2 [Hd2 [H23 Hs]]]].
  destruct Hs as [g3 [rest3 [-> [_ [[_ Hx]|Hs]]]]]; [destruct (Hx _ eq_refl)|].
  destruct Hs as [r3 [req3 [Hd3 [H33 Hs]]]].
  destruct Hs as [[_ Hx]|[mp [g4 [Hmp [-> [_ Hiff]]]]]]; [destruct (Hx _ eq_refl)|].
  destruct (proj1 (Hiff r s_) eq_refl) as [r4 [Hd4 Hder]].
  exists inb, d1, req1, nv, ed, payload, g2, r2, req2, g3, r3, req3, mp, g4, r4.
  subst news. repeat split; try assumption; try (destruct Hd2 as [? [? [? ?]]]; assumption);
    try (destruct Hd3 as [? [? [? ?]]]; assumption); try (destruct Hd4 as [? [? [? ?]]]; assumption).
Qed.

(* what the device ends up holding on success: reassembling the chunks of each operation and
   parsing them as the device does gives back exactly the client's tx, sighash mode, witness
   script and outpoint value (segwit), receipt and merkle-proof nodes *)
Theorem sign_authorized_device_holds path receipt proof tx input mode ws ov w r s_ w' :
  sign_authorized path receipt proof tx input mode ws ov w = (Ok (inl (r, s_)), w') ->
  exists inb nv ed a1 g2 g3 g4,
    w' = after w (Apdu ([CLA; CMD_SIGN; SIGN_OP_PATH] ++ path ++ inb) a1
                  :: group SIGN_OP_BTC_TX g2 ++ group SIGN_OP_TX_RECEIPT g3
                  ++ group SIGN_OP_MERKLE_PROOF g4) (script w') /\
    to_bytes_le 4 input = Some inb /\
    sighash_netvalue mode = Some nv /\
    parse_btc_payload (concat (map fst g2)) = Some (tx, nv, ed) /\
    (nv = 1 -> parse_extradata ed = Some (ws, Z.to_N ov)) /\
    (nv <> 1 -> ed = []) /\
    concat (map fst g3) = receipt /\
    parse_proof (concat (map fst g4)) = Some proof.
Proof.
  intro H. destruct (sign_authorized_success _ _ _ _ _ _ _ _ _ _ _ _ H)
    as [inb [d1 [req1 [nv [ed [payload [g2 [r2 [req2 [g3 [r3 [req3 [mp [g4 [r4 Hall]]]]]]]]]]]]]]].
  destruct Hall as [Hi [Hnv [Hed [Hp [Hmp [Hw [_ [_ [Hd2 [_ [Hd3 [_ [Hd4 _]]]]]]]]]]]]].
  destruct Hd2 as [_ [Hc2 _]]. destruct Hd3 as [_ [Hc3 _]]. destruct Hd4 as [_ [Hc4 _]].
  exists inb, nv, ed, (Data d1), g2, g3, g4. split; [exact Hw|]. split; [exact Hi|].
  split; [exact Hnv|]. rewrite Hc2, Hc3, Hc4.
  split; [apply btc_payload_parse; exact Hp|]. split; [|split; [|split]].
  - intros ->. change (1 =? 1) with true in Hed.
    apply (segwit_payload_parse _ _ _ _ _ _ Hed Hp).
  - intro Hne. apply N.eqb_neq in Hne. rewrite Hne in Hed. cbn in Hed. inversion Hed. reflexivity.
  - reflexivity.
  - apply merkle_proof_parse. exact Hmp.
Qed.

(* a device asking for 4 then 6 bytes of the payload, 2 then 5 of the receipt, 3 of the proof *)
Definition ex_script : list resp :=
  [Data [128; 2; 2; 4]; Data [128; 2; 2; 6]; Data [128; 2; 4; 2]; Data [128; 2; 4; 5];
   Data [128; 2; 8; 3]; Data [128; 2; 129; 48; 8; 2; 2; 1; 2; 2; 2; 3; 4]].

Example sign_authorized_example :
  let run := sign_authorized [1; 2] [7; 7; 7] [[9]] [1; 2; 3] 0%Z (s "legacy") [] 0%Z
                             (world0 ex_script []) in
  fst run = Ok (inl ([1; 2], [3; 4])) /\
  apdus (snd run) = [[128; 2; 1; 1; 2; 0; 0; 0; 0];
                     [128; 2; 2; 10; 0; 0; 0]; [128; 2; 2; 0; 0; 0; 1; 2; 3];
                     [128; 2; 4; 7; 7]; [128; 2; 4; 7];
                     [128; 2; 8; 1; 1; 9]] /\
  script (snd run) = [].
Proof. vm_compute. auto. Qed.

(* same device, segwit request: the payload is longer than the device lets through before
   moving on, so the request fails and neither receipt nor proof is ever sent *)
Example sign_authorized_example_early :
  let run := sign_authorized [1; 2] [7; 7; 7] [[9]] [1; 2; 3] 0%Z (s "segwit") [5; 6] 300%Z
                             (world0 ex_script []) in
  fst run = Ok (inr (-10)%Z) /\
  apdus (snd run) = [[128; 2; 1; 1; 2; 0; 0; 0; 0];
                     [128; 2; 2; 10; 0; 0; 0]; [128; 2; 2; 1; 11; 0; 1; 2; 3]].
Proof. vm_compute. auto. Qed.
