(* C07: an SGX (version-2) attestation is accepted only if the whole quote-to-root chain
   verifies.  Everything is proved for every crypto oracle; the struct offsets are closed
   checks on the generated layouts. *)
From PowHsm Require Import Model.Cert Model.CertV2 Proofs.CertProofs.
From Coq Require Import ZifyBool ZifyNat ZifyN Lia.

(* ---------- 1. offsets from the generated layouts (closed checks) ---------- *)

Lemma report_data_field : field_of LAYOUT_SgxReportBody (s "report_data") = (320, 64)%N.
Proof. vm_compute. reflexivity. Qed.

Lemma report_body_field : field_of LAYOUT_SgxQuote (s "report_body") = (48, 384)%N.
Proof. vm_compute. reflexivity. Qed.

Lemma sizeof_report_body : SIZEOF_SgxReportBody = 384%N.
Proof. vm_compute. reflexivity. Qed.

Lemma sizeof_quote : SIZEOF_SgxQuote = 432%N.
Proof. vm_compute. reflexivity. Qed.

Lemma cert_v2_root : CERT_V2_ROOT = s "sgx_root".
Proof. vm_compute. reflexivity. Qed.

(* the report body is the tail of the quote, the report data the tail of the report body *)
Lemma layout_tails :
  (fst (field_of LAYOUT_SgxReportBody (s "report_data")) +
   snd (field_of LAYOUT_SgxReportBody (s "report_data")) = SIZEOF_SgxReportBody)%N /\
  (fst (field_of LAYOUT_SgxQuote (s "report_body")) +
   snd (field_of LAYOUT_SgxQuote (s "report_body")) = SIZEOF_SgxQuote)%N /\
  snd (field_of LAYOUT_SgxQuote (s "report_body")) = SIZEOF_SgxReportBody.
Proof. vm_compute. repeat split; reflexivity. Qed.

Lemma n2n_320 : N.to_nat 320 = 320%nat. Proof. reflexivity. Qed.
Lemma n2n_64 : N.to_nat 64 = 64%nat. Proof. reflexivity. Qed.
Lemma n2n_48 : N.to_nat 48 = 48%nat. Proof. reflexivity. Qed.
Lemma n2n_384 : N.to_nat 384 = 384%nat. Proof. reflexivity. Qed.

Lemma skipn_firstn_sub {A} (n m : nat) (l : list A) :
  (n <= m)%nat -> skipn n (firstn m l) = firstn (m - n) (skipn n l).
Proof.
  intro H. rewrite firstn_skipn_comm. replace (n + (m - n))%nat with m by lia. reflexivity.
Qed.

Lemma skipn_skipn' {A} (n m : nat) (l : list A) : skipn n (skipn m l) = skipn (m + n) l.
Proof.
  revert l. induction m as [|m IH]; intro l; [reflexivity|].
  destruct l as [|x l]; [rewrite !skipn_nil; reflexivity|]. cbn [skipn Nat.add]. apply IH.
Qed.

Lemma report_data_of_body_some body :
  (384 <= length body)%nat ->
  report_data_of_body body = Some (firstn 64 (skipn 320 body)).
Proof.
  intro H. unfold report_data_of_body. rewrite sizeof_report_body, report_data_field.
  destruct (nlen body <? 384)%N eqn:E; [unfold nlen in E; lia|].
  unfold sub. cbn [fst snd]. rewrite n2n_320, n2n_64. reflexivity.
Qed.

Lemma report_data_of_body_none body :
  (length body < 384)%nat -> report_data_of_body body = None.
Proof.
  intro H. unfold report_data_of_body. rewrite sizeof_report_body.
  destruct (nlen body <? 384)%N eqn:E; [reflexivity|unfold nlen in E; lia].
Qed.

Lemma report_data_of_quote_some q :
  (432 <= length q)%nat ->
  report_data_of_quote q = Some (firstn 64 (skipn 368 q)).
Proof.
  intro H. unfold report_data_of_quote. rewrite sizeof_quote, report_body_field.
  destruct (nlen q <? 432)%N eqn:E; [unfold nlen in E; lia|].
  unfold sub. cbn [fst snd]. rewrite n2n_48, n2n_384.
  rewrite report_data_of_body_some.
  - f_equal. rewrite skipn_firstn_sub by lia. rewrite firstn_firstn, skipn_skipn'.
    replace (Nat.min 64 (384 - 320)) with 64%nat by lia.
    replace (48 + 320)%nat with 368%nat by lia. reflexivity.
  - rewrite firstn_length, skipn_length. lia.
Qed.

Lemma report_data_of_quote_none q :
  (length q < 432)%nat -> report_data_of_quote q = None.
Proof.
  intro H. unfold report_data_of_quote. rewrite sizeof_quote.
  destruct (nlen q <? 432)%N eqn:E; [reflexivity|unfold nlen in E; lia].
Qed.

Theorem report_data_offsets :
  (forall body, (384 <= length body)%nat ->
                report_data_of_body body = Some (firstn 64 (skipn 320 body))) /\
  (forall body, (length body < 384)%nat -> report_data_of_body body = None) /\
  (forall q, (432 <= length q)%nat ->
             report_data_of_quote q = Some (firstn 64 (skipn 368 q))) /\
  (forall q, (length q < 432)%nat -> report_data_of_quote q = None).
Proof.
  split; [exact report_data_of_body_some|]. split; [exact report_data_of_body_none|].
  split; [exact report_data_of_quote_some|exact report_data_of_quote_none].
Qed.

(* inversions: a report data exists exactly when the whole struct is present *)
Lemma report_data_of_body_inv body rd :
  report_data_of_body body = Some rd <->
  (384 <= length body)%nat /\ rd = firstn 64 (skipn 320 body).
Proof.
  destruct (Nat.ltb (length body) 384) eqn:E.
  - rewrite report_data_of_body_none by lia. split; [discriminate|lia].
  - rewrite report_data_of_body_some by lia. split.
    + intro H. inversion H. split; [lia|reflexivity].
    + intros [_ ->]. reflexivity.
Qed.

Lemma report_data_of_quote_inv q rd :
  report_data_of_quote q = Some rd <->
  (432 <= length q)%nat /\ rd = firstn 64 (skipn 368 q).
Proof.
  destruct (Nat.ltb (length q) 432) eqn:E.
  - rewrite report_data_of_quote_none by lia. split; [discriminate|lia].
  - rewrite report_data_of_quote_some by lia. split.
    + intro H. inversion H. split; [lia|reflexivity].
    + intros [_ ->]. reflexivity.
Qed.

(* ---------- 2. the three link predicates, exactly, for all oracles ---------- *)

Lemma bytes_eqb_eq (a b : bytes) : bytes_eqb a b = true <-> a = b.
Proof.
  unfold bytes_eqb. revert b. induction a as [|x a IH]; intros [|y b]; cbn [list_eqb].
  - tauto.
  - split; discriminate.
  - split; discriminate.
  - rewrite Bool.andb_true_iff, IH, N.eqb_eq. split.
    + intros [-> ->]. reflexivity.
    + intro H. inversion H. tauto.
Qed.

Section Links.
Variable hash : bytes -> bytes.
Variable p256_verify : bytes -> bytes -> bytes -> bool.
Variable p256_key : str -> option bytes.
Variable x509_parse : str -> option x509_info.
Variable x509_sig_ok : str -> str -> bool.
Variable now : Z.
Variable root_elem : celem.

Notation pubkey := (pubkey_of p256_key x509_parse).
Notation cfe := (certifier_elem root_elem).
Notation Q := (quote_ok hash p256_verify p256_key x509_parse root_elem).
Notation A := (attkey_ok hash p256_verify p256_key x509_parse root_elem).
Notation X := (x509_ok x509_parse x509_sig_ok now root_elem).
Notation L := (link_v2 hash p256_verify p256_key x509_parse x509_sig_ok now root_elem).

(* "d is the beginning of rd" *)
Definition begins_with (rd d : bytes) : Prop := d = firstn (length d) rd.

Lemma begins_with_app rd d : begins_with rd d <-> exists tl, rd = d ++ tl.
Proof.
  unfold begins_with. split.
  - intro H. exists (skipn (length d) rd). rewrite H at 1. symmetry. apply firstn_skipn.
  - intros [tl ->]. clear. induction d as [|x d IH]; cbn [length firstn app]; [reflexivity|].
    f_equal. exact IH.
Qed.

Theorem quote_ok_iff e cf :
  Q e cf = true <->
  exists msg custom sg rd k,
    fromhex (ce_message e) = Some msg /\ fromhex (ce_extra1 e) = Some custom /\
    fromhex (ce_signature e) = Some sg /\
    report_data_of_quote msg = Some rd /\
    hash custom = firstn (length (hash custom)) rd /\
    pubkey (cfe cf) = Some k /\ p256_verify k (hash msg) sg = true.
Proof.
  unfold quote_ok. split.
  - destruct (fromhex (ce_message e)) as [msg|]; [|discriminate].
    destruct (fromhex (ce_extra1 e)) as [custom|]; [|discriminate].
    destruct (fromhex (ce_signature e)) as [sg|]; [|discriminate].
    destruct (report_data_of_quote msg) as [rd|] eqn:Erd; [|discriminate].
    destruct (bytes_eqb (hash custom) (firstn (length (hash custom)) rd)) eqn:Eb;
      cbn [negb]; [|discriminate].
    destruct (pubkey (cfe cf)) as [k|]; [|discriminate].
    intro H. exists msg, custom, sg, rd, k. apply bytes_eqb_eq in Eb. repeat split; assumption.
  - intros (msg & custom & sg & rd & k & -> & -> & -> & -> & Hh & -> & Hv).
    apply bytes_eqb_eq in Hh. rewrite Hh. cbn [negb]. exact Hv.
Qed.

Theorem attkey_ok_iff e cf :
  A e cf = true <->
  exists msg k64 auth sg rd k,
    fromhex (ce_message e) = Some msg /\ p256_key (ce_extra1 e) = Some k64 /\
    fromhex (ce_extra2 e) = Some auth /\ fromhex (ce_signature e) = Some sg /\
    report_data_of_body msg = Some rd /\
    hash (k64 ++ auth) = firstn (length (hash (k64 ++ auth))) rd /\
    pubkey (cfe cf) = Some k /\ p256_verify k (hash msg) sg = true.
Proof.
  unfold attkey_ok. split.
  - destruct (fromhex (ce_message e)) as [msg|]; [|discriminate].
    destruct (p256_key (ce_extra1 e)) as [k64|]; [|discriminate].
    destruct (fromhex (ce_extra2 e)) as [auth|]; [|discriminate].
    destruct (fromhex (ce_signature e)) as [sg|]; [|discriminate].
    destruct (report_data_of_body msg) as [rd|] eqn:Erd; [|discriminate].
    cbv zeta.
    destruct (bytes_eqb (hash (k64 ++ auth)) (firstn (length (hash (k64 ++ auth))) rd)) eqn:Eb;
      cbn [negb]; [|discriminate].
    destruct (pubkey (cfe cf)) as [k|]; [|discriminate].
    intro H. exists msg, k64, auth, sg, rd, k. apply bytes_eqb_eq in Eb.
    repeat split; assumption.
  - intros (msg & k64 & auth & sg & rd & k & -> & -> & -> & -> & -> & Hh & -> & Hv).
    cbv zeta. apply bytes_eqb_eq in Hh. rewrite Hh. cbn [negb]. exact Hv.
Qed.

Theorem x509_ok_iff e cf :
  X e cf = true <->
  ce_kind (cfe cf) = KX509 /\
  exists si ci,
    x509_parse (ce_message e) = Some si /\ x509_parse (ce_message (cfe cf)) = Some ci /\
    (x_not_before si <= now <= x_not_after si)%Z /\
    x509_sig_ok (ce_message e) (ce_message (cfe cf)) = true.
Proof.
  unfold x509_ok. cbv zeta. split.
  - destruct (ce_kind (cfe cf)); try discriminate.
    destruct (x509_parse (ce_message e)) as [si|]; [|discriminate].
    destruct (x509_parse (ce_message (cfe cf))) as [ci|]; [|discriminate].
    destruct ((now <? x_not_before si)%Z || (x_not_after si <? now)%Z) eqn:Et; [discriminate|].
    intro H. split; [reflexivity|]. exists si, ci. repeat split; try assumption; lia.
  - intros (-> & si & ci & -> & -> & Ht & Hs).
    destruct ((now <? x_not_before si)%Z || (x_not_after si <? now)%Z) eqn:Et; [lia|exact Hs].
Qed.

(* the same with the generated offsets substituted *)
Corollary quote_ok_iff_offsets e cf :
  Q e cf = true <->
  exists msg custom sg k,
    fromhex (ce_message e) = Some msg /\ fromhex (ce_extra1 e) = Some custom /\
    fromhex (ce_signature e) = Some sg /\
    (432 <= length msg)%nat /\
    begins_with (firstn 64 (skipn 368 msg)) (hash custom) /\
    pubkey (cfe cf) = Some k /\ p256_verify k (hash msg) sg = true.
Proof.
  rewrite quote_ok_iff. unfold begins_with. split.
  - intros (msg & custom & sg & rd & k & H1 & H2 & H3 & H4 & H5 & H6 & H7).
    apply report_data_of_quote_inv in H4. destruct H4 as [Hl ->].
    exists msg, custom, sg, k. repeat split; assumption.
  - intros (msg & custom & sg & k & H1 & H2 & H3 & H4 & H5 & H6 & H7).
    exists msg, custom, sg, (firstn 64 (skipn 368 msg)), k.
    rewrite report_data_of_quote_some by exact H4. repeat split; assumption.
Qed.

Corollary attkey_ok_iff_offsets e cf :
  A e cf = true <->
  exists msg k64 auth sg k,
    fromhex (ce_message e) = Some msg /\ p256_key (ce_extra1 e) = Some k64 /\
    fromhex (ce_extra2 e) = Some auth /\ fromhex (ce_signature e) = Some sg /\
    (384 <= length msg)%nat /\
    begins_with (firstn 64 (skipn 320 msg)) (hash (k64 ++ auth)) /\
    pubkey (cfe cf) = Some k /\ p256_verify k (hash msg) sg = true.
Proof.
  rewrite attkey_ok_iff. unfold begins_with. split.
  - intros (msg & k64 & auth & sg & rd & k & H1 & H2 & H3 & H4 & H5 & H6 & H7 & H8).
    apply report_data_of_body_inv in H5. destruct H5 as [Hl ->].
    exists msg, k64, auth, sg, k. repeat split; assumption.
  - intros (msg & k64 & auth & sg & k & H1 & H2 & H3 & H4 & H5 & H6 & H7 & H8).
    exists msg, k64, auth, sg, (firstn 64 (skipn 320 msg)), k.
    rewrite report_data_of_body_some by exact H5. repeat split; assumption.
Qed.

(* a certifier that offers no P-256 key certifies neither a quote nor an attestation key *)
Lemma no_pubkey_invalid e cf :
  pubkey (cfe cf) = None -> Q e cf = false /\ A e cf = false.
Proof.
  intro Hk. split.
  - destruct (Q e cf) eqn:E; [|reflexivity]. apply quote_ok_iff in E.
    destruct E as (? & ? & ? & ? & k & _ & _ & _ & _ & _ & H & _). congruence.
  - destruct (A e cf) eqn:E; [|reflexivity]. apply attkey_ok_iff in E.
    destruct E as (? & ? & ? & ? & ? & k & _ & _ & _ & _ & _ & _ & H & _). congruence.
Qed.

Lemma pubkey_none_cases c :
  (ce_kind c = KX509 /\
   (x509_parse (ce_message c) = None \/
    exists i, x509_parse (ce_message c) = Some i /\ x_p256_key i = None)) \/
  ce_kind c = KQuote \/ ce_kind c = KV1 \/
  (ce_kind c = KAttKey /\ p256_key (ce_extra1 c) = None) <->
  pubkey c = None.
Proof.
  unfold pubkey_of. split.
  - intros [[-> [->|(i & -> & Hi)]]|[->|[->|[-> Hk]]]]; auto.
  - destruct (ce_kind c).
    + auto.
    + auto.
    + intro H. right. right. right. auto.
    + destruct (x509_parse (ce_message c)) as [i|] eqn:Ei.
      * intro H. left. split; [reflexivity|]. right. exists i. auto.
      * intros _. left. auto.
Qed.

Theorem non_p256_certifier_invalid e cf :
  (ce_kind (cfe cf) = KX509 /\
   (x509_parse (ce_message (cfe cf)) = None \/
    exists i, x509_parse (ce_message (cfe cf)) = Some i /\ x_p256_key i = None)) \/
  ce_kind (cfe cf) = KQuote \/ ce_kind (cfe cf) = KV1 \/
  (ce_kind (cfe cf) = KAttKey /\ p256_key (ce_extra1 (cfe cf)) = None) ->
  Q e cf = false /\ A e cf = false.
Proof. intro H. apply no_pubkey_invalid. apply pubkey_none_cases. exact H. Qed.

(* an X.509 element is only ever certified by an X.509 element *)
Lemma non_x509_certifier_invalid e cf : ce_kind (cfe cf) <> KX509 -> X e cf = false.
Proof.
  intro H. destruct (X e cf) eqn:E; [|reflexivity]. apply x509_ok_iff in E. tauto.
Qed.

(* link_v2 by kind *)
Lemma link_v2_kind e cf :
  L e cf = match ce_kind e with
           | KQuote => Q e cf | KAttKey => A e cf | KX509 => X e cf | KV1 => false end.
Proof. reflexivity. Qed.

Lemma link_v2_x509 e cf : ce_kind e = KX509 -> L e cf = X e cf.
Proof. unfold link_v2. intros ->. reflexivity. Qed.
Lemma link_v2_attkey e cf : ce_kind e = KAttKey -> L e cf = A e cf.
Proof. unfold link_v2. intros ->. reflexivity. Qed.
Lemma link_v2_quote e cf : ce_kind e = KQuote -> L e cf = Q e cf.
Proof. unfold link_v2. intros ->. reflexivity. Qed.
Lemma link_v2_v1 e cf : ce_kind e = KV1 -> L e cf = false.
Proof. unfold link_v2. intros ->. reflexivity. Qed.

End Links.

(* ---------- chain facts for every link oracle ---------- *)

Lemma links_hold_forall (link : celem -> certifier -> bool) cf p :
  links_hold link cf p <->
  forall pre x post, p = pre ++ x :: post -> link x (cf_after cf pre) = true.
Proof.
  revert cf. induction p as [|y r IH]; intro cf; cbn [links_hold].
  - split; [|trivial]. intros _ pre x post H. destruct pre; discriminate.
  - split.
    + intros [H1 H2] pre x post Hp. destruct pre as [|z pre]; inversion Hp; subst.
      * exact H1.
      * cbn [cf_after]. rewrite IH in H2. eapply H2. reflexivity.
    + intro H. split; [apply (H [] y r eq_refl)|].
      apply IH. intros pre x post ->. apply (H (y :: pre) x post eq_refl).
Qed.

Lemma cf_after_snoc cf pre y : cf_after cf (pre ++ [y]) = ByElem y.
Proof. revert cf. induction pre as [|z pre IH]; intro cf; cbn [app cf_after]; auto. Qed.

Lemma last_nonempty_irrel {A} (pre : list A) y a b : last (y :: pre) a = last (y :: pre) b.
Proof.
  revert y. induction pre as [|x pre IH]; intro y; [reflexivity|].
  change (last (x :: pre) a = last (x :: pre) b). apply IH.
Qed.

(* the certifier of the element that follows pre is the last element of pre, or the root *)
Lemma certifier_after root cf pre :
  certifier_elem root (cf_after cf pre) = last pre (certifier_elem root cf).
Proof.
  revert cf. induction pre as [|z pre IH]; intro cf; [reflexivity|].
  cbn [cf_after]. rewrite IH. cbn [certifier_elem]. destruct pre as [|y pre]; [reflexivity|].
  change (last (z :: y :: pre) (certifier_elem root cf)) with (last (y :: pre) (certifier_elem root cf)).
  apply last_nonempty_irrel.
Qed.

(* ---------- 3. the quote target is Valid iff the whole chain verifies ---------- *)

Section Chain.
Variable hash : bytes -> bytes.
Variable p256_verify : bytes -> bytes -> bytes -> bool.
Variable p256_key : str -> option bytes.
Variable x509_parse : str -> option x509_info.
Variable x509_sig_ok : str -> str -> bool.
Variable now : Z.
Variable root_elem : celem.

Notation pubkey := (pubkey_of p256_key x509_parse).
Notation cfe := (certifier_elem root_elem).
Notation Q := (quote_ok hash p256_verify p256_key x509_parse root_elem).
Notation A := (attkey_ok hash p256_verify p256_key x509_parse root_elem).
Notation X := (x509_ok x509_parse x509_sig_ok now root_elem).
Notation L := (link_v2 hash p256_verify p256_key x509_parse x509_sig_ok now root_elem).

(* any depth, any shape: Valid iff every element of the path verifies against the element
   before it (the root of trust for the first) *)
Theorem v2_valid_general c tg e :
  validate_target L c tg = Some (Valid e) <->
  exists p, target_path c tg = Some p /\ tbl_get tg (c_elems c) = Some e /\
            links_hold L ByRoot p.
Proof. apply target_valid_iff. Qed.

Theorem v2_valid_pointwise c tg e :
  validate_target L c tg = Some (Valid e) <->
  exists p, target_path c tg = Some p /\ tbl_get tg (c_elems c) = Some e /\
    forall pre x post, p = pre ++ x :: post ->
      match ce_kind x with
      | KX509 => X x (cf_after ByRoot pre) = true
      | KAttKey => A x (cf_after ByRoot pre) = true
      | KQuote => Q x (cf_after ByRoot pre) = true
      | KV1 => False
      end.
Proof.
  rewrite v2_valid_general. split; intros (p & Hp & Hg & H); exists p; (split; [exact Hp|]);
    (split; [exact Hg|]).
  - rewrite links_hold_forall in H. intros pre x post Hx. specialize (H pre x post Hx).
    unfold link_v2 in H. destruct (ce_kind x); try exact H. discriminate.
  - apply links_hold_forall. intros pre x post Hx. specialize (H pre x post Hx).
    unfold link_v2. destruct (ce_kind x); try exact H. contradiction.
Qed.

(* "every X.509 element is inside its validity period and is signed by the key of the
   certificate that certifies it (the root of trust at the top)" *)
Corollary valid_every_x509 c tg e p pre x post :
  validate_target L c tg = Some (Valid e) ->
  target_path c tg = Some p -> p = pre ++ x :: post -> ce_kind x = KX509 ->
  let issuer := last pre root_elem in
  ce_kind issuer = KX509 /\
  exists si ci, x509_parse (ce_message x) = Some si /\
                x509_parse (ce_message issuer) = Some ci /\
                (x_not_before si <= now <= x_not_after si)%Z /\
                x509_sig_ok (ce_message x) (ce_message issuer) = true.
Proof.
  intros H Hp Hx Hk. apply v2_valid_pointwise in H. destruct H as (p' & Hp' & _ & H).
  rewrite Hp in Hp'. inversion Hp'; subst p'. specialize (H pre x post Hx). rewrite Hk in H.
  apply x509_ok_iff in H. rewrite certifier_after in H. exact H.
Qed.

(* every element above an X.509 element is an X.509 element *)
Corollary valid_x509_above_x509 c tg e p pre x post y :
  validate_target L c tg = Some (Valid e) -> ce_kind root_elem = KX509 ->
  target_path c tg = Some p -> p = pre ++ x :: post -> ce_kind x = KX509 ->
  In y pre -> ce_kind y = KX509.
Proof.
  intros H Hr Hp. revert x post y. induction pre as [|z pre IH] using rev_ind;
    intros x post y Hx Hk Hy; [destruct Hy|].
  pose proof (valid_every_x509 c tg e p _ x post H Hp Hx Hk) as Hz. cbv zeta in Hz.
  rewrite last_last in Hz. destruct Hz as [Hz _].
  apply in_app_or in Hy. destruct Hy as [Hy|[<-|[]]]; [|exact Hz].
  rewrite <- app_assoc in Hx. cbn [app] in Hx. eapply IH; eassumption.
Qed.

(* no version-1 element on a valid path *)
Corollary valid_no_v1 c tg e p x :
  validate_target L c tg = Some (Valid e) -> target_path c tg = Some p -> In x p ->
  ce_kind x <> KV1.
Proof.
  intros H Hp Hx Hk. apply v2_valid_pointwise in H. destruct H as (p' & Hp' & _ & H).
  rewrite Hp in Hp'. inversion Hp'; subst p'. apply in_split in Hx.
  destruct Hx as (pre & post & Hx). specialize (H pre x post Hx). rewrite Hk in H. exact H.
Qed.

(* the standard shape: platform CA, quoting enclave, attestation key, quote *)
Theorem v2_valid_iff c tg pca qe att q e :
  target_path c tg = Some [pca; qe; att; q] ->
  ce_kind pca = KX509 -> ce_kind qe = KX509 -> ce_kind att = KAttKey -> ce_kind q = KQuote ->
  (validate_target L c tg = Some (Valid e) <->
   e = q /\
   X pca ByRoot = true /\ X qe (ByElem pca) = true /\
   A att (ByElem qe) = true /\ Q q (ByElem att) = true).
Proof.
  intros Hp K1 K2 K3 K4. rewrite v2_valid_general.
  pose proof (target_path_last _ _ _ Hp) as (e' & pre & Hg & Hpre).
  change [pca; qe; att; q] with ([pca; qe; att] ++ [q]) in Hpre.
  apply app_inj_tail in Hpre. destruct Hpre as [_ <-].
  split.
  - intros (p & Hp' & Hg' & Hl). rewrite Hp in Hp'. inversion Hp'; subst p.
    cbn [links_hold] in Hl. rewrite (link_v2_x509 _ _ _ _ _ _ _ pca), (link_v2_x509 _ _ _ _ _ _ _ qe),
      (link_v2_attkey _ _ _ _ _ _ _ att), (link_v2_quote _ _ _ _ _ _ _ q) in Hl by assumption.
    split; [congruence|tauto].
  - intros (-> & H1 & H2 & H3 & H4). exists [pca; qe; att; q].
    split; [exact Hp|]. split; [exact Hg|]. cbn [links_hold].
    rewrite (link_v2_x509 _ _ _ _ _ _ _ pca), (link_v2_x509 _ _ _ _ _ _ _ qe),
      (link_v2_attkey _ _ _ _ _ _ _ att), (link_v2_quote _ _ _ _ _ _ _ q) by assumption.
    tauto.
Qed.

Corollary v2_valid_iff_q c tg pca qe att q :
  target_path c tg = Some [pca; qe; att; q] ->
  ce_kind pca = KX509 -> ce_kind qe = KX509 -> ce_kind att = KAttKey -> ce_kind q = KQuote ->
  (validate_target L c tg = Some (Valid q) <->
   X pca ByRoot = true /\ X qe (ByElem pca) = true /\
   A att (ByElem qe) = true /\ Q q (ByElem att) = true).
Proof.
  intros Hp K1 K2 K3 K4. rewrite (v2_valid_iff c tg pca qe att q q Hp K1 K2 K3 K4). tauto.
Qed.

(* depth 2: the quoting-enclave certificate is signed by the root of trust *)
Theorem v2_valid_iff_depth2 c tg qe att q e :
  target_path c tg = Some [qe; att; q] ->
  ce_kind qe = KX509 -> ce_kind att = KAttKey -> ce_kind q = KQuote ->
  (validate_target L c tg = Some (Valid e) <->
   e = q /\ X qe ByRoot = true /\ A att (ByElem qe) = true /\ Q q (ByElem att) = true).
Proof.
  intros Hp K2 K3 K4. rewrite v2_valid_general.
  pose proof (target_path_last _ _ _ Hp) as (e' & pre & Hg & Hpre).
  change [qe; att; q] with ([qe; att] ++ [q]) in Hpre.
  apply app_inj_tail in Hpre. destruct Hpre as [_ <-].
  split.
  - intros (p & Hp' & Hg' & Hl). rewrite Hp in Hp'. inversion Hp'; subst p.
    cbn [links_hold] in Hl. rewrite (link_v2_x509 _ _ _ _ _ _ _ qe),
      (link_v2_attkey _ _ _ _ _ _ _ att), (link_v2_quote _ _ _ _ _ _ _ q) in Hl by assumption.
    split; [congruence|tauto].
  - intros (-> & H2 & H3 & H4). exists [qe; att; q].
    split; [exact Hp|]. split; [exact Hg|]. cbn [links_hold].
    rewrite (link_v2_x509 _ _ _ _ _ _ _ qe),
      (link_v2_attkey _ _ _ _ _ _ _ att), (link_v2_quote _ _ _ _ _ _ _ q) by assumption.
    tauto.
Qed.

(* depth 4 (three X.509 certificates) *)
Theorem v2_valid_iff_depth4 c tg ca pca qe att q e :
  target_path c tg = Some [ca; pca; qe; att; q] ->
  ce_kind ca = KX509 -> ce_kind pca = KX509 -> ce_kind qe = KX509 ->
  ce_kind att = KAttKey -> ce_kind q = KQuote ->
  (validate_target L c tg = Some (Valid e) <->
   e = q /\ X ca ByRoot = true /\ X pca (ByElem ca) = true /\ X qe (ByElem pca) = true /\
   A att (ByElem qe) = true /\ Q q (ByElem att) = true).
Proof.
  intros Hp K0 K1 K2 K3 K4. rewrite v2_valid_general.
  pose proof (target_path_last _ _ _ Hp) as (e' & pre & Hg & Hpre).
  change [ca; pca; qe; att; q] with ([ca; pca; qe; att] ++ [q]) in Hpre.
  apply app_inj_tail in Hpre. destruct Hpre as [_ <-].
  split.
  - intros (p & Hp' & Hg' & Hl). rewrite Hp in Hp'. inversion Hp'; subst p.
    cbn [links_hold] in Hl. rewrite (link_v2_x509 _ _ _ _ _ _ _ ca),
      (link_v2_x509 _ _ _ _ _ _ _ pca), (link_v2_x509 _ _ _ _ _ _ _ qe),
      (link_v2_attkey _ _ _ _ _ _ _ att), (link_v2_quote _ _ _ _ _ _ _ q) in Hl by assumption.
    split; [congruence|tauto].
  - intros (-> & H0 & H1 & H2 & H3 & H4). exists [ca; pca; qe; att; q].
    split; [exact Hp|]. split; [exact Hg|]. cbn [links_hold].
    rewrite (link_v2_x509 _ _ _ _ _ _ _ ca),
      (link_v2_x509 _ _ _ _ _ _ _ pca), (link_v2_x509 _ _ _ _ _ _ _ qe),
      (link_v2_attkey _ _ _ _ _ _ _ att), (link_v2_quote _ _ _ _ _ _ _ q) by assumption.
    tauto.
Qed.

(* ---------- 4. the reported value is the signed one; the first failure is reported ---------- *)

(* When the quote target is Valid, the element reported is the target's own; its custom
   message decodes to bytes whose hash begins the report data found at bytes 368..431 of the
   very message bytes whose hash the certifier's key (the attestation key in the standard
   shape) signed. *)
Theorem value_is_signed c tg q :
  validate_target L c tg = Some (Valid q) -> ce_kind q = KQuote ->
  tbl_get tg (c_elems c) = Some q /\
  exists pre msg custom sg k,
    target_path c tg = Some (pre ++ [q]) /\
    fromhex (ce_message q) = Some msg /\ fromhex (ce_extra1 q) = Some custom /\
    fromhex (ce_signature q) = Some sg /\
    (432 <= length msg)%nat /\
    report_data_of_quote msg = Some (firstn 64 (skipn 368 msg)) /\
    begins_with (firstn 64 (skipn 368 msg)) (hash custom) /\
    pubkey (last pre root_elem) = Some k /\ p256_verify k (hash msg) sg = true.
Proof.
  intros H Hk. pose proof (valid_value_is_target_message _ _ _ _ H) as Hg.
  split; [exact Hg|].
  apply v2_valid_pointwise in H. destruct H as (p & Hp & _ & H).
  pose proof (target_path_last _ _ _ Hp) as (e' & pre & Hg' & ->).
  rewrite Hg in Hg'. inversion Hg'; subst e'. specialize (H pre q [] eq_refl).
  rewrite Hk in H. apply quote_ok_iff_offsets in H.
  destruct H as (msg & custom & sg & k & H1 & H2 & H3 & H4 & H5 & H6 & H7).
  rewrite certifier_after in H6. exists pre, msg, custom, sg, k.
  repeat split; try assumption. apply report_data_of_quote_some. exact H4.
Qed.

(* standard shape, fully expanded: one key at every joint *)
Theorem standard_chain_expanded c tg pca qe att q :
  target_path c tg = Some [pca; qe; att; q] ->
  ce_kind pca = KX509 -> ce_kind qe = KX509 -> ce_kind att = KAttKey -> ce_kind q = KQuote ->
  (validate_target L c tg = Some (Valid q) <->
   (* X.509 part *)
   ce_kind root_elem = KX509 /\
   (exists ri pi qi kqe,
      x509_parse (ce_message root_elem) = Some ri /\
      x509_parse (ce_message pca) = Some pi /\ x509_parse (ce_message qe) = Some qi /\
      (x_not_before pi <= now <= x_not_after pi)%Z /\
      (x_not_before qi <= now <= x_not_after qi)%Z /\
      x509_sig_ok (ce_message pca) (ce_message root_elem) = true /\
      x509_sig_ok (ce_message qe) (ce_message pca) = true /\
      x_p256_key qi = Some kqe /\
   (* attestation key: report body signed by the quoting enclave's P-256 key, report data
      begins with hash (key || auth data) *)
    exists amsg k64 auth asg,
      fromhex (ce_message att) = Some amsg /\ p256_key (ce_extra1 att) = Some k64 /\
      fromhex (ce_extra2 att) = Some auth /\ fromhex (ce_signature att) = Some asg /\
      (384 <= length amsg)%nat /\
      begins_with (firstn 64 (skipn 320 amsg)) (hash (k64 ++ auth)) /\
      p256_verify kqe (hash amsg) asg = true /\
   (* quote: signed by that attestation key, report data begins with hash (custom data) *)
    exists qmsg custom qsg,
      fromhex (ce_message q) = Some qmsg /\ fromhex (ce_extra1 q) = Some custom /\
      fromhex (ce_signature q) = Some qsg /\
      (432 <= length qmsg)%nat /\
      begins_with (firstn 64 (skipn 368 qmsg)) (hash custom) /\
      p256_verify k64 (hash qmsg) qsg = true)).
Proof.
  intros Hp K1 K2 K3 K4. rewrite (v2_valid_iff_q c tg pca qe att q Hp K1 K2 K3 K4).
  rewrite !x509_ok_iff, attkey_ok_iff_offsets, quote_ok_iff_offsets.
  cbn [certifier_elem]. unfold pubkey_of. rewrite K2, K3. split.
  - intros ((Kr & pi & ri & P1 & P2 & P3 & P4) & (_ & qi & pi' & P5 & P6 & P7 & P8) &
            (amsg & k64 & auth & asg & kqe & A1 & A2 & A3 & A4 & A5 & A6 & A7 & A8) &
            (qmsg & custom & qsg & k & Q1 & Q2 & Q3 & Q4 & Q5 & Q6 & Q7)).
    rewrite P5 in A7. rewrite A2 in Q6. inversion Q6; subst k.
    split; [exact Kr|]. exists ri, pi, qi, kqe. repeat split; try assumption; try lia.
    exists amsg, k64, auth, asg. repeat split; try assumption.
    exists qmsg, custom, qsg. repeat split; assumption.
  - intros (Kr & ri & pi & qi & kqe & P1 & P2 & P3 & P4 & P5 & P6 & P7 & P8 &
            amsg & k64 & auth & asg & A1 & A2 & A3 & A4 & A5 & A6 & A7 &
            qmsg & custom & qsg & Q1 & Q2 & Q3 & Q4 & Q5 & Q6).
    split; [split; [exact Kr|]; exists pi, ri; repeat split; try assumption; lia|].
    split; [split; [exact K1|]; exists qi, pi; repeat split; try assumption; lia|].
    split.
    + exists amsg, k64, auth, asg, kqe. rewrite P3. repeat split; assumption.
    + exists qmsg, custom, qsg, k64. repeat split; assumption.
Qed.

(* the first failing element from the root is the one named *)
Theorem v2_first_failure c tg n :
  validate_target L c tg = Some (Invalid n) <->
  exists p pre x post, target_path c tg = Some p /\ p = pre ++ x :: post /\
    links_hold L ByRoot pre /\ L x (cf_after ByRoot pre) = false /\ n = ce_name x.
Proof. apply target_invalid_iff. Qed.

Theorem v2_first_failure_down cf path n :
  validate_down L cf path = Some (Invalid n) <->
  exists pre x post, path = pre ++ x :: post /\ links_hold L cf pre /\
                     L x (cf_after cf pre) = false /\ n = ce_name x.
Proof. apply first_failure_reported. Qed.

(* standard shape: which element is named *)
Corollary v2_verdict_standard c tg pca qe att q :
  target_path c tg = Some [pca; qe; att; q] ->
  ce_kind pca = KX509 -> ce_kind qe = KX509 -> ce_kind att = KAttKey -> ce_kind q = KQuote ->
  validate_target L c tg =
  Some (if negb (X pca ByRoot) then Invalid (ce_name pca)
        else if negb (X qe (ByElem pca)) then Invalid (ce_name qe)
        else if negb (A att (ByElem qe)) then Invalid (ce_name att)
        else if negb (Q q (ByElem att)) then Invalid (ce_name q)
        else Valid q).
Proof.
  intros Hp K1 K2 K3 K4. rewrite validate_target_path, Hp. cbn [validate_down].
  rewrite (link_v2_x509 _ _ _ _ _ _ _ pca), (link_v2_x509 _ _ _ _ _ _ _ qe),
    (link_v2_attkey _ _ _ _ _ _ _ att), (link_v2_quote _ _ _ _ _ _ _ q) by assumption.
  destruct (X pca ByRoot); cbn [negb]; [|reflexivity].
  destruct (X qe (ByElem pca)); cbn [negb]; [|reflexivity].
  destruct (A att (ByElem qe)); cbn [negb]; [|reflexivity].
  destruct (Q q (ByElem att)); reflexivity.
Qed.

(* a loaded certificate: every target gets a verdict, Valid exactly when all links hold *)
Theorem v2_verdict_total c tg :
  cert_ok c -> In tg (c_targets c) ->
  exists p, target_path c tg = Some p /\
    ((links_hold L ByRoot p /\
      exists e, tbl_get tg (c_elems c) = Some e /\ validate_target L c tg = Some (Valid e)) \/
     (~ links_hold L ByRoot p /\ exists n, validate_target L c tg = Some (Invalid n))).
Proof.
  intros Hok Hin. destruct (validate_total_ok L c tg Hok Hin) as [[e|n] Hv].
  - pose proof Hv as Hv'. apply v2_valid_general in Hv'. destruct Hv' as (p & Hp & Hg & Hl).
    exists p. split; [exact Hp|]. left. split; [exact Hl|]. exists e. split; assumption.
  - pose proof Hv as Hv'. apply v2_first_failure in Hv'.
    destruct Hv' as (p & pre & x & post & Hp & Hx & _ & Hf & _).
    exists p. split; [exact Hp|]. right. split; [|exists n; exact Hv].
    intro Hl. rewrite links_hold_forall in Hl. rewrite (Hl pre x post Hx) in Hf. discriminate.
Qed.

End Chain.

(* ---------- examples: toy oracles, the theorems are not vacuous ---------- *)

Module Examples.

Definition t_hash (b : bytes) : bytes := firstn 32 (b ++ repeat 0%N 32).
Definition t_verify (k d sg : bytes) : bool := bytes_eqb sg (k ++ d).
Definition t_key (x : str) : option bytes := fromhex x.
(* certificates are named by their text: validity period and key *)
Definition t_parse (m : str) : option x509_info :=
  if str_eqb m (s "ROOT") then Some (mkX509 0 100 (Some [0%N]))
  else if str_eqb m (s "PCA0") then Some (mkX509 0 100 (Some [1%N]))
  else if str_eqb m (s "QE00") then Some (mkX509 0 100 (Some [2%N]))
  else if str_eqb m (s "OLD0") then Some (mkX509 0 10 (Some [2%N]))
  else if str_eqb m (s "NEW0") then Some (mkX509 90 100 (Some [2%N]))
  else if str_eqb m (s "RSA0") then Some (mkX509 0 100 None)
  else None.
(* every certificate but "BAD0" carries a good signature of the issuer named *)
Definition t_sig (subject issuer : str) : bool :=
  (str_eqb issuer (s "ROOT") && str_eqb subject (s "PCA0")) ||
  (str_eqb issuer (s "ROOT") && str_eqb subject (s "QE00")) ||
  (str_eqb issuer (s "PCA0") &&
   (str_eqb subject (s "QE00") || str_eqb subject (s "OLD0") || str_eqb subject (s "NEW0") ||
    str_eqb subject (s "RSA0"))).
Definition t_now : Z := 50.
Definition t_root : celem :=
  mkElem (JStr CERT_V2_ROOT) (JStr CERT_V2_ROOT) KX509 None (s "ROOT") [] [] [].

Definition t_link := link_v2 t_hash t_verify t_key t_parse t_sig t_now t_root.

Definition zeros (n : nat) : bytes := repeat 0%N n.

Definition k64 : bytes := [7; 7]%N.
Definition auth : bytes := [9]%N.
Definition att_msg : bytes := zeros 320 ++ t_hash (k64 ++ auth) ++ zeros 32.
Definition custom : bytes := [5; 5; 5]%N.
Definition quote_msg : bytes := zeros 368 ++ t_hash custom ++ zeros 32.

Definition jx509 (name signer msg : string) : json :=
  JObj [(s "name", JStr (s name)); (s "type", JStr (s "x509_pem")); (s "message", JStr (s msg));
        (s "signed_by", JStr (s signer))].
Definition jatt (signer : string) (msg key ad sg : bytes) : json :=
  JObj [(s "name", JStr (s "att")); (s "type", JStr (s "sgx_attestation_key"));
        (s "message", JStr (hex msg)); (s "key", JStr (hex key)); (s "auth_data", JStr (hex ad));
        (s "signature", JStr (hex sg)); (s "signed_by", JStr (s signer))].
Definition jquote (signer : string) (msg cd sg : bytes) : json :=
  JObj [(s "name", JStr (s "quote")); (s "type", JStr (s "sgx_quote"));
        (s "message", JStr (hex msg)); (s "custom_data", JStr (hex cd));
        (s "signature", JStr (hex sg)); (s "signed_by", JStr (s signer))].
Definition jdoc (els : list json) : json :=
  JObj [(s "version", JInt 2); (s "targets", JArr [JStr (s "quote")]); (s "elements", JArr els)].

Definition summary (v : option verdict) : option (bool * json * str) :=
  match v with
  | Some (Valid e) => Some (true, ce_name e, ce_extra1 e)
  | Some (Invalid n) => Some (false, n, [])
  | None => None
  end.

Definition run (d : json) : option (list (option (bool * json * str))) :=
  match load_cert (fun x => Some x) d with
  | LOk c => Some (map (fun r => summary (snd r)) (validate_all t_link c))
  | LError => None
  end.

(* the standard chain: qe_key signs the attestation body, the attestation key signs the quote *)
Definition good_att (signer : string) : json :=
  jatt signer att_msg k64 auth ([2%N] ++ t_hash att_msg).
Definition good_quote : json := jquote "att" quote_msg custom (k64 ++ t_hash quote_msg).

Definition chain (qe_text : string) (att q : json) : json :=
  jdoc [q; att; jx509 "qe" "pca" qe_text; jx509 "pca" "sgx_root" "PCA0"].

Example chain_accepted :
  run (chain "QE00" (good_att "qe") good_quote) =
  Some [Some (true, JStr (s "quote"), hex custom)].
Proof. vm_compute. reflexivity. Qed.

(* the path is the standard shape of v2_valid_iff *)
Example chain_shape :
  match load_cert (fun x => Some x) (chain "QE00" (good_att "qe") good_quote) with
  | LOk c => match target_path c (JStr (s "quote")) with
             | Some p => map ce_kind p = [KX509; KX509; KAttKey; KQuote] /\
                         map ce_name p = map (fun x => JStr (s x)) ["pca"; "qe"; "att"; "quote"]
             | None => False end
  | LError => False
  end.
Proof. vm_compute. split; reflexivity. Qed.

(* custom data that does not match the report data: rejected at the quote *)
Example custom_mismatch_rejected :
  run (chain "QE00" (good_att "qe")
         (jquote "att" quote_msg [5; 5; 6]%N (k64 ++ t_hash quote_msg))) =
  Some [Some (false, JStr (s "quote"), [])].
Proof. vm_compute. reflexivity. Qed.

(* one byte of the quote's message changed (outside the report data): the signature fails *)
Example quote_byte_rejected :
  run (chain "QE00" (good_att "qe")
         (jquote "att" ([1%N] ++ skipn 1 quote_msg) custom (k64 ++ t_hash quote_msg))) =
  Some [Some (false, JStr (s "quote"), [])].
Proof. vm_compute. reflexivity. Qed.

(* a quote one byte short of the struct: no report data *)
Example quote_short_rejected :
  run (chain "QE00" (good_att "qe")
         (jquote "att" (firstn 431 quote_msg) custom (k64 ++ t_hash (firstn 431 quote_msg)))) =
  Some [Some (false, JStr (s "quote"), [])].
Proof. vm_compute. reflexivity. Qed.

(* quote signed by another key *)
Example quote_other_key_rejected :
  run (chain "QE00" (good_att "qe")
         (jquote "att" quote_msg custom ([7; 8]%N ++ t_hash quote_msg))) =
  Some [Some (false, JStr (s "quote"), [])].
Proof. vm_compute. reflexivity. Qed.

(* attestation key whose auth data is not the hashed one: rejected at the attestation key *)
Example auth_mismatch_rejected :
  run (chain "QE00" (jatt "qe" att_msg k64 [8]%N ([2%N] ++ t_hash att_msg)) good_quote) =
  Some [Some (false, JStr (s "att"), [])].
Proof. vm_compute. reflexivity. Qed.

(* expired / not yet valid quoting-enclave certificate: rejected there *)
Example expired_rejected :
  run (chain "OLD0" (good_att "qe") good_quote) = Some [Some (false, JStr (s "qe"), [])].
Proof. vm_compute. reflexivity. Qed.
Example not_yet_valid_rejected :
  run (chain "NEW0" (good_att "qe") good_quote) = Some [Some (false, JStr (s "qe"), [])].
Proof. vm_compute. reflexivity. Qed.

(* a quoting-enclave certificate with a non P-256 key is itself fine, the attestation key
   it would certify is not *)
Example non_p256_rejected :
  run (chain "RSA0" (good_att "qe") good_quote) = Some [Some (false, JStr (s "att"), [])].
Proof. vm_compute. reflexivity. Qed.

(* a certificate not signed by its issuer *)
Example bad_x509_signature_rejected :
  run (jdoc [good_quote; good_att "qe"; jx509 "qe" "pca" "QE00"; jx509 "pca" "sgx_root" "QE00"])
  = Some [Some (false, JStr (s "qe"), [])].
Proof. vm_compute. reflexivity. Qed.

(* depth 2 *)
Example depth2_accepted :
  run (jdoc [good_quote; good_att "qe"; jx509 "qe" "sgx_root" "QE00"]) =
  Some [Some (true, JStr (s "quote"), hex custom)].
Proof. vm_compute. reflexivity. Qed.

(* the shape is not imposed: a quote certified directly by an X.509 P-256 key is accepted,
   with no attestation key anywhere *)
Example quote_under_x509_accepted :
  run (jdoc [jquote "qe" quote_msg custom ([2%N] ++ t_hash quote_msg);
             jx509 "qe" "sgx_root" "QE00"]) =
  Some [Some (true, JStr (s "quote"), hex custom)].
Proof. vm_compute. reflexivity. Qed.

End Examples.

