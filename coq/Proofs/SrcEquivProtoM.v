(* Refinement theorems for the device-monad backend, protocol layer: ensure_connection, _get_pubkey and
   _reset_advance_blockchain of ledger/protocol.py (class HSM2ProtocolLedger), as translated from the Python
   source text (Gen/SrcM.v), run on every world exactly as Model/Bringup.v / Model/LedgerProtocol.v say:
   same result tuple or exception, same final world (APDU trace, reconnection flag).  The bring-up
   (initialize_device) is a parameter: it has its own model and theorems (C09). *)
From PowHsm Require Import Gen.SrcM Model.LedgerProtocol.
From PowHsm Require Import Proofs.ValLemmas Proofs.SrcEquivBase Proofs.SrcEquivDongleM.
From PowHsm Require Import Proofs.ValLemmasProtoM.

Section WithEnv.
Variable keccak : bytes -> bytes.
Variable kind : dongle_kind.
Variable init : pm pv.                                   (* self.initialize_device() as translated code sees it *)
Variable cm : string -> pv -> list pv -> pr pv.          (* methods of objects the translation does not enter *)

(* the abstract bring-up is the model's bring-up *)
Definition init_ok : Prop := forall w, init w = mres (fun _ => VNone) (initialize_device kind w).

Definition rtuple_pv (r : rtuple) : pv :=
  match r with
  | (c, Some o) => VList [VInt c; of_obj o]
  | (c, None) => VList [VInt c]
  end.

Theorem srcm_ensure_connection_ok : forall (self : pv) (w : world),
  init_ok ->
  srcm_HSM2ProtocolLedger__ensure_connection init self w = mres (fun _ => VNone) (ensure_connection kind w).
Proof.
  intros self w Hinit. destruct w as [sc cn op tr ci p rp fs].
  unfold srcm_HSM2ProtocolLedger__ensure_connection, ensure_connection.
  destruct ci; cbn [comm_issue negb].
  - unfold MV.pif, MV.py_not, MV.pmap, MV.m_get_comm_issue. unfold mbind at 1 2. cbn [comm_issue mret py_truth negb].
    unfold MV.pbind. unfold mbind at 1, bind at 1.
    rewrite m_disconnect_eq, disconnect_eq. cbn [fst snd].
    set (w1 := snd (disconnect _)). clearbody w1.
    unfold MV.ptry_k, try_catch, mbind, bind. rewrite Hinit. unfold mres.
    destruct (initialize_device kind w1) as [[u|e] w2]; cbn [fst snd].
    + reflexivity.
    + destruct e; reflexivity.
  - reflexivity.
Qed.

Theorem srcm_report_comm_issue_ok : forall (self : pv) (w : world),
  srcm_HSM2ProtocolLedger__report_comm_issue self w = (XOk VNone, set_comm_issue w true).
Proof. intros self w. reflexivity. Qed.

(* the request as the handler receives it: the validator has replaced the key id by the parsed path object *)
Definition request_with_path (req : obj) (els : list N) : pv :=
  VDict (vassoc_set (s "keyId") (path_obj els) (map (fun p => (fst p, of_json (snd p))) req)).

Theorem srcm_get_pubkey_ok : forall (self : pv) (req : obj) (x : str) (els : list N) (w : world),
  init_ok ->
  jget (s "keyId") req = Some (JStr x) -> bip32_path x = Some els ->
  cm "to_binary" (path_obj els) [] = POk (VBytes (path_to_binary els)) ->
  srcm_HSM2ProtocolLedger___get_pubkey cm init self (request_with_path req els) w =
  mres rtuple_pv (op_get_pubkey kind V5 req w).
Proof.
  intros self req x els w Hinit Hget Hpath Hcm.
  unfold srcm_HSM2ProtocolLedger___get_pubkey, op_get_pubkey, with_ladder.
  assert (Hkp : key_path req = ret els).
  { unfold key_path. rewrite Hget, Hpath. reflexivity. }
  rewrite Hkp.
  apply ptry_k_mres with
    (f := fun pk : str => VList [VInt 2; VList [VInt 0; VDict [(s "pubKey", VStr pk)]]])
    (mm := bind (ensure_connection kind) (fun _ => get_public_key (path_to_binary els)))
    (res := fun pk : str => (0%Z, Some [(s "pubKey", JStr pk)])).
  - unfold MV.pbind at 1.
    apply mres_bind with (f := fun _ : unit => VNone).
    + apply srcm_ensure_connection_ok. exact Hinit.
    + intros u w1. unfold request_with_path, MV.py_getitem, py_getitem. rewrite vassoc_set_same.
      unfold MV.pbind, mbind, lift. rewrite (srcm_dongle_get_public_key_ok cm _ _ _ w1 Hcm). unfold mres.
      destruct (get_public_key (path_to_binary els) w1) as [[pk|e] w2]; reflexivity.
  - unfold bind, ret. destruct (ensure_connection kind w) as [[u|e] w1]; [|reflexivity].
    destruct (get_public_key (path_to_binary els) w1) as [[pk|e] w2]; reflexivity.
  - intros pk w1. reflexivity.
  - intros e w1. destruct e; reflexivity.
Qed.

Theorem srcm_reset_advance_blockchain_ok : forall (self request : pv) (req : obj) (w : world),
  init_ok ->
  srcm_HSM2ProtocolLedger___reset_advance_blockchain init self request w =
  mres rtuple_pv (op_reset_advance kind req w).
Proof.
  intros self request req w Hinit.
  unfold srcm_HSM2ProtocolLedger___reset_advance_blockchain, op_reset_advance, with_ladder.
  apply ptry_k_mres with
    (f := fun _ : bool => VList [VInt 1; VList [self]])
    (mm := bind (ensure_connection kind) (fun _ => reset_advance_blockchain))
    (res := fun _ : bool => (0%Z, Some (@nil (str * json)))).
  - unfold MV.pbind at 1.
    apply mres_bind with (f := fun _ : unit => VNone).
    + apply srcm_ensure_connection_ok. exact Hinit.
    + intros u w1. unfold MV.pbind, mbind. rewrite srcm_dongle_reset_advance_blockchain_ok. unfold mres.
      destruct (reset_advance_blockchain w1) as [[b|e] w2]; reflexivity.
  - unfold bind, ret. destruct (ensure_connection kind w) as [[u|e] w1]; [|reflexivity].
    destruct (reset_advance_blockchain w1) as [[b|e] w2]; reflexivity.
  - intros b w1. reflexivity.
  - intros e w1. destruct e; reflexivity.
Qed.

End WithEnv.
