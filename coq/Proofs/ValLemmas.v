(* Specification lemmas about the Python value kit (Py/Val.v, Py/ValGen.v) on embedded values:
   what the total operations compute on [of_json j], [of_obj kv], [VStr x], [VBytes b] ... *)
From PowHsm Require Import Py.ValGen.
From Coq Require Import Lia.

(* ---------- booleans of N / Z / nat comparisons ---------- *)

Lemma bool_eq_iff (a b : bool) : (a = true <-> b = true) -> a = b.
Proof. destruct a, b; intuition congruence. Qed.

Lemma Zltb_N (a b : N) : (Z.of_N a <? Z.of_N b)%Z = (a <? b)%N.
Proof. apply bool_eq_iff. rewrite Z.ltb_lt, N.ltb_lt. lia. Qed.

Lemma Zleb_N (a b : N) : (Z.of_N a <=? Z.of_N b)%Z = (a <=? b)%N.
Proof. apply bool_eq_iff. rewrite Z.leb_le, N.leb_le. lia. Qed.

Lemma Zeqb_N (a b : N) : (Z.of_N a =? Z.of_N b)%Z = (a =? b)%N.
Proof. apply bool_eq_iff. rewrite Z.eqb_eq, N.eqb_eq. lia. Qed.

Lemma Zeqb_nat_N (k : nat) (n : N) : (Z.of_nat k =? Z.of_N n)%Z = (N.of_nat k =? n)%N.
Proof. apply bool_eq_iff. rewrite Z.eqb_eq, N.eqb_eq. lia. Qed.

Lemma Zltb_0_nat (k : nat) : (0 <? Z.of_nat k)%Z = (0 <? N.of_nat k)%N.
Proof. apply bool_eq_iff. rewrite Z.ltb_lt, N.ltb_lt. lia. Qed.

Lemma Zeqb_nat_nat (k m : nat) : (Z.of_nat k =? Z.of_nat m)%Z = Nat.eqb k m.
Proof. apply bool_eq_iff. rewrite Z.eqb_eq, Nat.eqb_eq. lia. Qed.

(* ---------- dictionaries built from JSON objects ---------- *)

Lemma vassoc_of_json (k : str) (kv : list (str * json)) :
  vassoc k (map (fun p => (fst p, of_json (snd p))) kv) = option_map of_json (assoc_str k kv).
Proof.
  induction kv as [|[k' v] r IH]; [reflexivity|].
  cbn [map fst snd vassoc assoc_str]. destruct (str_eqb k k'); [reflexivity|exact IH].
Qed.

Lemma py_in_of_obj (k : str) (kv : list (str * json)) :
  py_in (VStr k) (of_obj kv) = POk (jhas k kv).
Proof.
  unfold of_obj, jhas, jget. cbn [of_json py_in]. rewrite vassoc_of_json.
  destruct (assoc_str k kv); reflexivity.
Qed.

Lemma py_getitem_of_obj (k : str) (kv : list (str * json)) :
  py_getitem (of_obj kv) (VStr k) =
  match jget k kv with Some j => POk (of_json j) | None => PRaise KeyError end.
Proof.
  unfold of_obj, jget. cbn [of_json py_getitem]. rewrite vassoc_of_json.
  destruct (assoc_str k kv); reflexivity.
Qed.

Lemma py_type_of_json (j : json) :
  py_type (of_json j) =
  match j with
  | JNull => TNone | JBool _ => TBool | JInt _ => TInt | JFloat _ => TFloat
  | JStr _ => TStr | JArr _ => TList | JObj _ => TDict
  end.
Proof. destruct j; reflexivity. Qed.

Lemma py_fromhex_of_json (j : json) :
  py_fromhex (of_json j) =
  match j with
  | JStr x => match fromhex x with Some b => POk (VBytes b) | None => PRaise ValueError end
  | _ => PRaise TypeError
  end.
Proof. destruct j; reflexivity. Qed.

(* ---------- elementary equalities / comparisons ---------- *)

Lemma py_eq_type (a b : pty) : py_eq (VType a) (VType b) = POk (pty_eqb a b).
Proof. reflexivity. Qed.

Lemma py_ne_type (a b : pty) : py_ne (VType a) (VType b) = POk (negb (pty_eqb a b)).
Proof. reflexivity. Qed.

Lemma py_eq_int (a b : Z) : py_eq (VInt a) (VInt b) = POk (a =? b)%Z.
Proof. reflexivity. Qed.

Lemma py_ne_int (a b : Z) : py_ne (VInt a) (VInt b) = POk (negb (a =? b)%Z).
Proof. reflexivity. Qed.

Lemma py_eq_str (a b : str) : py_eq (VStr a) (VStr b) = POk (str_eqb a b).
Proof. reflexivity. Qed.

Lemma py_ne_str (a b : str) : py_ne (VStr a) (VStr b) = POk (negb (str_eqb a b)).
Proof. reflexivity. Qed.

Lemma py_cmp_int (op : cmpop) (x y : Z) :
  py_cmp op (VInt x) (VInt y) =
  POk (match op with
       | CLt => (x <? y)%Z | CLe => (x <=? y)%Z | CGt => (y <? x)%Z | CGe => (y <=? x)%Z
       end).
Proof. reflexivity. Qed.

Lemma pty_eqb_refl (t : pty) : pty_eqb t t = true.
Proof. destruct t; reflexivity. Qed.

Lemma pty_eqb_neq (a b : pty) : a <> b -> pty_eqb a b = false.
Proof. destruct a, b; intros H; try reflexivity; exfalso; apply H; reflexivity. Qed.

Lemma str_eqb_refl (x : str) : str_eqb x x = true.
Proof.
  unfold str_eqb. induction x as [|a r IH]; [reflexivity|].
  cbn [list_eqb]. rewrite N.eqb_refl. exact IH.
Qed.

Lemma str_eqb_eq (x y : str) : str_eqb x y = true <-> x = y.
Proof.
  unfold str_eqb. revert y. induction x as [|a r IH]; intros [|b y]; cbn [list_eqb];
    try (split; [discriminate|discriminate]); try (split; reflexivity).
  rewrite Bool.andb_true_iff, N.eqb_eq, IH. split.
  - intros [Ha Hr]. subst. reflexivity.
  - intros H. inversion H. split; reflexivity.
Qed.

(* ---------- substring test with a one-character needle ---------- *)

Lemma is_infix_single (c : N) (l : str) : is_infix [c] l = mem_N c l.
Proof.
  induction l as [|y l' IH]; [reflexivity|].
  cbn [is_infix is_prefix mem_N]. rewrite Bool.andb_true_r, IH. reflexivity.
Qed.

Lemma py_in_chr_str (c : N) (chars : str) : py_in (VStr [c]) (VStr chars) = POk (mem_N c chars).
Proof. cbn [py_in]. rewrite is_infix_single. reflexivity. Qed.

(* ---------- indices and slices ---------- *)

Lemma rev_cons_inv {A} (x : list A) (c : A) (r : list A) : rev x = c :: r -> x = rev r ++ [c].
Proof. intros H. rewrite <- (rev_involutive x), H. reflexivity. Qed.

Lemma rev_nil_inv {A} (x : list A) : rev x = [] -> x = [].
Proof. intros H. rewrite <- (rev_involutive x), H. reflexivity. Qed.

Lemma seq_index_last {A} (l : list A) (a : A) : seq_index (l ++ [a]) (-1) = Some a.
Proof.
  unfold seq_index. cbv zeta. rewrite app_length. cbn [length].
  change (-1 <? 0)%Z with true. cbv iota.
  replace (-1 + Z.of_nat (length l + 1))%Z with (Z.of_nat (length l)) by lia.
  destruct (Z.ltb_spec (Z.of_nat (length l)) 0) as [H1|H1]; [lia|].
  destruct (Z.leb_spec (Z.of_nat (length l + 1)) (Z.of_nat (length l))) as [H2|H2]; [lia|].
  cbn [orb]. rewrite Nat2Z.id, nth_error_app2 by lia. rewrite Nat.sub_diag. reflexivity.
Qed.

Lemma seq_slice_but_last {A} (l : list A) (a : A) : seq_slice (l ++ [a]) None (Some (-1)%Z) = l.
Proof.
  unfold seq_slice, clamp_index. cbv zeta. rewrite app_length. cbn [length].
  change (-1 <? 0)%Z with true. cbv iota.
  replace (Z.to_nat (Z.max 0 (Z.min (Z.of_nat (length l + 1)) (-1 + Z.of_nat (length l + 1)))) - 0)%nat
    with (length l) by lia.
  cbn [skipn]. rewrite firstn_app, Nat.sub_diag, firstn_all. cbn [firstn]. apply app_nil_r.
Qed.

Lemma seq_slice_first {A} (l : list A) (k : nat) :
  seq_slice l None (Some (Z.of_nat k)) = firstn k l.
Proof.
  unfold seq_slice, clamp_index. cbv zeta.
  destruct (Z.ltb_spec (Z.of_nat k) 0) as [H|H]; [lia|].
  cbn [skipn].
  destruct (Nat.le_gt_cases (length l) k) as [Hle|Hgt].
  - replace (Z.to_nat (Z.max 0 (Z.min (Z.of_nat (length l)) (Z.of_nat k))) - 0)%nat
      with (length l) by lia.
    rewrite firstn_all, firstn_all2 by lia. reflexivity.
  - replace (Z.to_nat (Z.max 0 (Z.min (Z.of_nat (length l)) (Z.of_nat k))) - 0)%nat
      with k by lia.
    reflexivity.
Qed.

Lemma seq_slice_from {A} (l : list A) (k : nat) :
  seq_slice l (Some (Z.of_nat k)) None = skipn k l.
Proof.
  unfold seq_slice, clamp_index. cbv zeta.
  destruct (Z.ltb_spec (Z.of_nat k) 0) as [H|H]; [lia|].
  destruct (Nat.le_gt_cases (length l) k) as [Hle|Hgt].
  - replace (Z.to_nat (Z.max 0 (Z.min (Z.of_nat (length l)) (Z.of_nat k)))) with (length l) by lia.
    rewrite Nat.sub_diag, skipn_all, skipn_all2 by lia. reflexivity.
  - replace (Z.to_nat (Z.max 0 (Z.min (Z.of_nat (length l)) (Z.of_nat k)))) with k by lia.
    apply firstn_all2. rewrite skipn_length. lia.
Qed.

(* ---------- str.split ---------- *)

Lemma split_chr_split_on (sep : N) (x cur : str) : split_chr sep x cur = split_on sep x cur.
Proof.
  revert cur. induction x as [|c r IH]; intros cur; [reflexivity|].
  cbn [split_chr split_on]. rewrite !IH. reflexivity.
Qed.

(* ---------- all(...) / any(...) over a mapped list ---------- *)

Lemma py_all_map {A} (h : A -> pv) (l : list A) (f : pv -> pr pv) (g : A -> bool) :
  (forall a, In a l -> f (h a) = POk (VBool (g a))) ->
  py_all (map h l) f = POk (VBool (forallb g l)).
Proof.
  induction l as [|a r IH]; intros H; [reflexivity|].
  cbn [map py_all forallb]. rewrite (H a (or_introl eq_refl)). cbn [py_truth].
  destruct (g a); [|reflexivity]. cbn [andb]. apply IH. intros b Hb. apply H. right. exact Hb.
Qed.

Lemma py_any_map {A} (h : A -> pv) (l : list A) (f : pv -> pr pv) (g : A -> bool) :
  (forall a, In a l -> f (h a) = POk (VBool (g a))) ->
  py_any (map h l) f = POk (VBool (existsb g l)).
Proof.
  induction l as [|a r IH]; intros H; [reflexivity|].
  cbn [map py_any existsb]. rewrite (H a (or_introl eq_refl)). cbn [py_truth].
  destruct (g a); [reflexivity|]. cbn [orb]. apply IH. intros b Hb. apply H. right. exact Hb.
Qed.

(* ---------- list(map(f, xs)) where f either returns or raises ValueError ---------- *)

Lemma pmap_list_all_some {A B} (h : A -> pv) (k : B -> pv) (l : list A)
      (f : pv -> pr pv) (g : A -> option B) :
  (forall a, f (h a) = match g a with Some b => POk (k b) | None => PRaise ValueError end) ->
  pmap_list (map h l) f =
  match all_some (map g l) with Some bs => POk (map k bs) | None => PRaise ValueError end.
Proof.
  intros H. induction l as [|a r IH]; [reflexivity|].
  cbn [map pmap_list all_some]. rewrite H. destruct (g a) as [b|]; [|reflexivity].
  cbn [pbind]. rewrite IH. destruct (all_some (map g r)) as [bs|]; reflexivity.
Qed.

(* ---------- chr(b) for a byte ---------- *)

Lemma py_chr_byte (b : N) : (b < 256)%N -> py_chr (VInt (Z.of_N b)) = POk (VStr [b]).
Proof.
  intros H. cbn [py_chr].
  destruct (Z.ltb_spec (Z.of_N b) 0) as [H1|H1]; [lia|].
  destruct (Z.ltb_spec 1114111 (Z.of_N b)) as [H2|H2]; [lia|].
  cbn [orb]. rewrite N2Z.id. reflexivity.
Qed.
