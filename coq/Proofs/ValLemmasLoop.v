(* Specification lemmas about the loop / list part of the Python value kit (Py/Val.v, third group):
   py_loop unrolling, list append / pop, binds. *)
From PowHsm Require Import Py.ValGen.
From PowHsm Require Import Proofs.ValLemmas.
From Coq Require Import Lia.

(* ---------- py_loop: one turn ---------- *)

Lemma py_loop_S (f : nat) (st : pv) (body : pv -> pr pv) :
  py_loop (S f) st body =
  match body st with
  | POk (VList [VBool true; st']) => py_loop f st' body
  | POk (VList [VBool false; st']) => POk st'
  | POk _ => PStuck
  | PRaise e => PRaise e
  | PStuck => PStuck
  end.
Proof. reflexivity. Qed.

Lemma py_loop_continue (f : nat) (st st' : pv) (body : pv -> pr pv) :
  body st = POk (VList [VBool true; st']) -> py_loop (S f) st body = py_loop f st' body.
Proof. intros H. rewrite py_loop_S, H. reflexivity. Qed.

Lemma py_loop_break (f : nat) (st st' : pv) (body : pv -> pr pv) :
  body st = POk (VList [VBool false; st']) -> py_loop (S f) st body = POk st'.
Proof. intros H. rewrite py_loop_S, H. reflexivity. Qed.

(* the body computes something that may raise, then breaks *)
Lemma py_loop_bind_break (f : nat) (st : pv) (body : pv -> pr pv) (m : pr pv) (g : pv -> pv) :
  body st = pbind m (fun x => POk (VList [VBool false; g x])) ->
  py_loop (S f) st body = pbind m (fun x => POk (g x)).
Proof. intros H. rewrite py_loop_S, H. destruct m; reflexivity. Qed.

(* ---------- binds ---------- *)

Lemma pbind_assoc {A B C} (m : pr A) (f : A -> pr B) (g : B -> pr C) :
  pbind (pbind m f) g = pbind m (fun a => pbind (f a) g).
Proof. destruct m; reflexivity. Qed.

Lemma pbind_ext {A B} (m : pr A) (f g : A -> pr B) :
  (forall a, f a = g a) -> pbind m f = pbind m g.
Proof. intros H. destruct m; [apply H|reflexivity|reflexivity]. Qed.

(* ---------- lists ---------- *)

Lemma py_list_append_list (xs : list pv) (x : pv) :
  py_list_append (VList xs) x = POk (VList (xs ++ [x])).
Proof. reflexivity. Qed.

Lemma py_list_pop_snoc (xs : list pv) (x : pv) :
  py_list_pop (VList (xs ++ [x])) = POk (VList [x; VList xs]).
Proof.
  unfold py_list_pop. rewrite rev_app_distr. cbn [rev app]. rewrite rev_involutive. reflexivity.
Qed.

Lemma len_snoc_nonzero {A} (xs : list A) (x : A) : (Z.of_nat (length (xs ++ [x])) =? 0)%Z = false.
Proof. apply Z.eqb_neq. rewrite app_length. cbn [length]. lia. Qed.

Lemma py_len_list_is_zero_nil :
  pbind (py_len (VList [])) (fun t => vbool (py_eq t (VInt 0%Z))) = POk (VBool true).
Proof. reflexivity. Qed.

Lemma py_len_list_is_zero_snoc (xs : list pv) (x : pv) :
  pbind (py_len (VList (xs ++ [x]))) (fun t => vbool (py_eq t (VInt 0%Z))) = POk (VBool false).
Proof.
  cbn [py_len pbind]. rewrite ValLemmas.py_eq_int. cbn [vbool pmap]. rewrite len_snoc_nonzero. reflexivity.
Qed.

(* ---------- for loops over an explicit list ---------- *)

Lemma py_for_list (l : list pv) (acc : pv) (body : pv -> pv -> pr pv) :
  py_for (VList l) acc body = pfold l acc body.
Proof. reflexivity. Qed.

Lemma pfold_cons (x : pv) (r : list pv) (acc : pv) (body : pv -> pv -> pr pv) :
  pfold (x :: r) acc body = pbind (body acc x) (fun acc' => pfold r acc' body).
Proof. reflexivity. Qed.
