(* Round-trip facts about the RLP codec model (Model/Rlp.v) and their consequences for the
   block_utils helpers of Model/BlockOps.v. *)
From PowHsm Require Import Py.Base Model.Rlp Model.BlockOps Proofs.BytesLemmas.
From Coq Require Import ZifyBool ZifyNat ZifyN Lia.
Ltac Zify.zify_post_hook ::= Z.to_euclidean_division_equations.

Local Opaque N.pow.

(* ------------------------------------------------------------------------------------ *)
(* be_min                                                                                 *)
(* ------------------------------------------------------------------------------------ *)

Lemma from_bytes_be_cons x l :
  from_bytes_be (x :: l) = x * 256 ^ nlen l + from_bytes_be l.
Proof.
  change (x :: l) with ([x] ++ l). rewrite from_bytes_be_app, from_bytes_be_single. reflexivity.
Qed.

Lemma pow2_S f : 2 ^ N.of_nat (S f) = 2 * 2 ^ N.of_nat f.
Proof. replace (N.of_nat (S f)) with (N.succ (N.of_nat f)) by lia. apply N.pow_succ_r'. Qed.

Lemma pow256_S k : 256 ^ N.of_nat (S k) = 256 * 256 ^ N.of_nat k.
Proof. replace (N.of_nat (S k)) with (N.succ (N.of_nat k)) by lia. apply N.pow_succ_r'. Qed.

Lemma pow_0 a : a ^ 0 = 1.
Proof. apply N.pow_0_r. Qed.

Lemma be_min_aux_value f : forall n acc,
  n < 2 ^ N.of_nat f ->
  from_bytes_be (be_min_aux f n acc) = n * 256 ^ nlen acc + from_bytes_be acc.
Proof.
  induction f as [|f IH]; intros n acc Hn.
  - change (N.of_nat 0) with 0 in Hn. rewrite pow_0 in Hn. cbn [be_min_aux].
    assert (n = 0) by lia. subst n. lia.
  - cbn [be_min_aux]. destruct (N.eqb_spec n 0) as [->|Hnz]; [lia|].
    rewrite pow2_S in Hn.
    rewrite IH by lia.
    rewrite from_bytes_be_cons, nlen_cons.
    rewrite N.pow_add_r. change (256 ^ 1) with (256 ^ N.of_nat 1).
    rewrite pow256_S. change (N.of_nat 0) with 0. rewrite pow_0.
    remember (256 ^ nlen acc) as P.
    rewrite (N.div_mod n 256) at 3 by lia. ring.
Qed.

Lemma size_bound n : n < 2 ^ N.of_nat (S (N.to_nat (N.size n))).
Proof.
  rewrite pow2_S. rewrite N2Nat.id.
  destruct (N.eq_dec n 0) as [->|Hn].
  - cbn. rewrite pow_0. lia.
  - pose proof (N.size_gt n). lia.
Qed.

Lemma from_bytes_be_be_min n : from_bytes_be (be_min n) = n.
Proof.
  unfold be_min. rewrite be_min_aux_value by apply size_bound.
  unfold nlen, from_bytes_be. cbn [length fold_left]. change (N.of_nat 0) with 0.
  rewrite pow_0. lia.
Qed.

Lemma be_min_aux_length f : forall k n acc,
  n < 256 ^ N.of_nat k ->
  (length (be_min_aux f n acc) <= k + length acc)%nat.
Proof.
  induction f as [|f IH]; intros k n acc Hn; cbn [be_min_aux]; [lia|].
  destruct (N.eqb_spec n 0) as [->|Hnz]; [lia|].
  destruct k as [|k].
  - change (N.of_nat 0) with 0 in Hn. rewrite pow_0 in Hn. lia.
  - rewrite pow256_S in Hn.
    specialize (IH k (n / 256) (n mod 256 :: acc)). cbn [length] in IH.
    assert (n / 256 < 256 ^ N.of_nat k) by (remember (256 ^ N.of_nat k) as P; lia).
    lia.
Qed.

Lemma be_min_length n : n < 256 ^ 8 -> nlen (be_min n) <= 8.
Proof.
  intro H. unfold be_min.
  pose proof (be_min_aux_length (S (N.to_nat (N.size n))) 8 n [] H) as L.
  unfold nlen. cbn [length] in L. lia.
Qed.

Lemma be_min_aux_head f : forall n acc,
  n < 2 ^ N.of_nat f -> n <> 0 ->
  exists d t, be_min_aux f n acc = d :: t /\ d <> 0.
Proof.
  induction f as [|f IH]; intros n acc Hn Hnz.
  - change (N.of_nat 0) with 0 in Hn. rewrite pow_0 in Hn. lia.
  - cbn [be_min_aux]. destruct (N.eqb_spec n 0) as [|_]; [contradiction|].
    rewrite pow2_S in Hn.
    destruct (N.eq_dec (n / 256) 0) as [Hz|Hz].
    + rewrite Hz. exists (n mod 256), acc. split; [|lia].
      destruct f; cbn [be_min_aux]; reflexivity.
    + apply IH; [lia|assumption].
Qed.

Lemma be_min_head n : n <> 0 -> exists d t, be_min n = d :: t /\ d <> 0.
Proof. intro H. unfold be_min. apply be_min_aux_head; [apply size_bound|assumption]. Qed.

Lemma be_min_aux_wf f : forall n acc, wf_bytes acc -> wf_bytes (be_min_aux f n acc).
Proof.
  induction f as [|f IH]; intros n acc Ha; cbn [be_min_aux]; [assumption|].
  destruct (n =? 0); [assumption|]. apply IH. constructor; [lia|assumption].
Qed.

Lemma be_min_wf n : wf_bytes (be_min n).
Proof. unfold be_min. apply be_min_aux_wf. constructor. Qed.

(* ------------------------------------------------------------------------------------ *)
(* Well-formedness                                                                        *)
(* ------------------------------------------------------------------------------------ *)

(* every payload length that gets encoded fits the 8-byte length-of-length limit *)
Fixpoint lens_ok (i : item) : Prop :=
  match i with
  | RStr b => nlen b < 256 ^ 8
  | RLst l => nlen (concat (map encode l)) < 256 ^ 8 /\
              (fix all (l : list item) : Prop :=
                 match l with [] => True | x :: r => lens_ok x /\ all r end) l
  end.

Fixpoint bytes_ok (i : item) : Prop :=
  match i with
  | RStr b => wf_bytes b
  | RLst l => (fix all (l : list item) : Prop :=
                 match l with [] => True | x :: r => bytes_ok x /\ all r end) l
  end.

Definition wf_item (i : item) : Prop := bytes_ok i /\ lens_ok i.

Lemma lens_ok_lst l :
  lens_ok (RLst l) <-> nlen (concat (map encode l)) < 256 ^ 8 /\ Forall lens_ok l.
Proof.
  cbn [lens_ok]. apply and_iff_compat_l.
  induction l as [|x r IH]; [split; auto|].
  rewrite IH. split; [intros [? ?]; constructor; auto|intro H; inversion H; auto].
Qed.

Lemma bytes_ok_lst l : bytes_ok (RLst l) <-> Forall bytes_ok l.
Proof.
  cbn [bytes_ok].
  induction l as [|x r IH]; [split; auto|].
  rewrite IH. split; [intros [? ?]; constructor; auto|intro H; inversion H; auto].
Qed.

(* induction principle for the nested inductive *)
Fixpoint item_ind' (P : item -> Prop)
  (HS : forall b, P (RStr b))
  (HL : forall l, Forall P l -> P (RLst l)) (i : item) : P i :=
  match i with
  | RStr b => HS b
  | RLst l => HL l ((fix go (l : list item) : Forall P l :=
                       match l with
                       | [] => Forall_nil P
                       | x :: r => Forall_cons x (item_ind' P HS HL x) (go r)
                       end) l)
  end.

(* ------------------------------------------------------------------------------------ *)
(* read_prefix on encodings                                                               *)
(* ------------------------------------------------------------------------------------ *)

Lemma to_nat_nlen {A} (l : list A) : N.to_nat (nlen l) = length l.
Proof. unfold nlen. apply Nat2N.id. Qed.

Lemma read_prefix_lp_str len r :
  len < 256 ^ 8 ->
  (len = 1 -> match r with x :: _ => 128 <= x | [] => False end) ->
  read_prefix (length_prefix len 128 ++ r) = Some (false, len, r).
Proof.
  intros Hlen H1. unfold length_prefix.
  destruct (N.ltb_spec len 56) as [Hs|Hl].
  - cbn [app]. unfold read_prefix.
    destruct (N.ltb_spec (128 + len) 128); [lia|].
    destruct (N.ltb_spec (128 + len) 184); [|lia].
    replace (128 + len - 128) with len by lia.
    destruct (N.eqb_spec len 1) as [E|E]; [|reflexivity].
    specialize (H1 E). destruct r as [|x r']; [contradiction|].
    destruct (N.ltb_spec x 128); [lia|]. reflexivity.
  - destruct (be_min_head len ltac:(lia)) as (d & t & E & Hd).
    pose proof (be_min_length len Hlen) as L8.
    pose proof (from_bytes_be_be_min len) as Hv.
    set (ls := be_min len) in *.
    assert (L1 : 1 <= nlen ls) by (rewrite E, nlen_cons; lia).
    cbn [app]. unfold read_prefix.
    destruct (N.ltb_spec (128 + 55 + nlen ls) 128); [lia|].
    destruct (N.ltb_spec (128 + 55 + nlen ls) 184); [lia|].
    destruct (N.leb_spec 192 (128 + 55 + nlen ls)); [lia|].
    cbn [andb].
    replace (128 + 55 + nlen ls - 183) with (nlen ls) by lia.
    rewrite to_nat_nlen.
    rewrite firstn_app_exact, skipn_app_exact, Hv.
    destruct (N.ltb_spec len 56); [lia|].
    rewrite app_length.
    destruct (Nat.ltb_spec (length ls + length r) (length ls)); [lia|].
    rewrite E. cbn [app]. destruct d; [contradiction|reflexivity].
Qed.

Lemma read_prefix_lp_lst len r :
  len < 256 ^ 8 ->
  read_prefix (length_prefix len 192 ++ r) = Some (true, len, r).
Proof.
  intros Hlen. unfold length_prefix.
  destruct (N.ltb_spec len 56) as [Hs|Hl].
  - cbn [app]. unfold read_prefix.
    destruct (N.ltb_spec (192 + len) 128); [lia|].
    destruct (N.ltb_spec (192 + len) 184); [lia|].
    destruct (N.leb_spec 192 (192 + len)); [|lia].
    destruct (N.ltb_spec (192 + len) 248); [|lia].
    cbn [andb]. replace (192 + len - 192) with len by lia. reflexivity.
  - destruct (be_min_head len ltac:(lia)) as (d & t & E & Hd).
    pose proof (be_min_length len Hlen) as L8.
    pose proof (from_bytes_be_be_min len) as Hv.
    set (ls := be_min len) in *.
    assert (L1 : 1 <= nlen ls) by (rewrite E, nlen_cons; lia).
    cbn [app]. unfold read_prefix.
    destruct (N.ltb_spec (192 + 55 + nlen ls) 128); [lia|].
    destruct (N.ltb_spec (192 + 55 + nlen ls) 184); [lia|].
    destruct (N.leb_spec 192 (192 + 55 + nlen ls)); [|lia].
    destruct (N.ltb_spec (192 + 55 + nlen ls) 248); [lia|].
    cbn [andb].
    replace (192 + 55 + nlen ls - 247) with (nlen ls) by lia.
    rewrite to_nat_nlen.
    rewrite firstn_app_exact, skipn_app_exact, Hv.
    destruct (N.ltb_spec len 56); [lia|].
    rewrite app_length.
    destruct (Nat.ltb_spec (length ls + length r) (length ls)); [lia|].
    rewrite E. cbn [app]. destruct d; [contradiction|reflexivity].
Qed.

Lemma encode_str_cases b :
  (exists x, b = [x] /\ x < 128 /\ encode (RStr b) = [x]) \/
  ((nlen b = 1 -> match b with x :: _ => 128 <= x | [] => False end) /\
   encode (RStr b) = length_prefix (nlen b) 128 ++ b).
Proof.
  destruct b as [|x [|y t]].
  - right. split; [unfold nlen; cbn; lia|reflexivity].
  - cbn [encode]. destruct (N.ltb_spec x 128).
    + left. exists x. auto.
    + right. split; [auto|reflexivity].
  - right. split; [|reflexivity]. unfold nlen. cbn [length]. lia.
Qed.

Lemma read_prefix_encode_str b rest :
  nlen b < 256 ^ 8 ->
  read_prefix (encode (RStr b) ++ rest) = Some (false, nlen b, b ++ rest).
Proof.
  intro Hl. destruct (encode_str_cases b) as [(x & -> & Hx & ->)|[H1 ->]].
  - cbn [app]. unfold read_prefix. destruct (N.ltb_spec x 128); [reflexivity|lia].
  - rewrite <- app_assoc. apply read_prefix_lp_str; [assumption|].
    intro E. specialize (H1 E). destruct b; [contradiction|exact H1].
Qed.

Lemma read_prefix_encode_lst l rest :
  nlen (concat (map encode l)) < 256 ^ 8 ->
  read_prefix (encode (RLst l) ++ rest)
  = Some (true, nlen (concat (map encode l)), concat (map encode l) ++ rest).
Proof.
  intro Hl. cbn [encode]. rewrite <- app_assoc. apply read_prefix_lp_lst. assumption.
Qed.

(* ------------------------------------------------------------------------------------ *)
(* decode_item, with the inner loop named                                                 *)
(* ------------------------------------------------------------------------------------ *)

Section ItemsDec.
Variable dec : bytes -> option (item * bytes).
Fixpoint items_dec (k : nat) (p : bytes) : option (list item) :=
  match p with
  | [] => Some []
  | _ => match k with
         | O => None
         | S k' =>
             match dec p with
             | Some (it, p') =>
                 match items_dec k' p' with
                 | Some l' => Some (it :: l')
                 | None => None
                 end
             | None => None
             end
         end
  end.
End ItemsDec.

Lemma decode_item_S f b :
  decode_item (S f) b =
  match read_prefix b with
  | None => None
  | Some (is_list, l, r) =>
      if nlen r <? l then None else
      let payload := firstn (N.to_nat l) r in
      let rest := skipn (N.to_nat l) r in
      if is_list then
        match items_dec (decode_item f) (length payload) payload with
        | Some l' => Some (RLst l', rest)
        | None => None
        end
      else Some (RStr payload, rest)
  end.
Proof. reflexivity. Qed.

Lemma encode_nonempty i : (1 <= length (encode i))%nat.
Proof.
  assert (LP : forall len off, (1 <= length (length_prefix len off))%nat).
  { intros. unfold length_prefix. destruct (len <? 56); cbn [length]; lia. }
  destruct i as [b|l].
  - destruct (encode_str_cases b) as [(x & -> & Hx & ->)|[_ ->]]; [cbn; lia|].
    rewrite app_length. specialize (LP (nlen b) 128). lia.
  - cbn [encode]. rewrite app_length.
    specialize (LP (nlen (concat (map encode l))) 192). lia.
Qed.

Lemma encode_lst_length l :
  (1 + length (concat (map encode l)) <= length (encode (RLst l)))%nat.
Proof.
  cbn [encode]. rewrite app_length.
  assert (1 <= length (length_prefix (nlen (concat (map encode l))) 192))%nat.
  { unfold length_prefix. destruct (_ <? 56); cbn [length]; lia. }
  lia.
Qed.

Lemma items_dec_S dec k p :
  p <> [] ->
  items_dec dec (S k) p =
  match dec p with
  | Some (it, p') =>
      match items_dec dec k p' with
      | Some l' => Some (it :: l')
      | None => None
      end
  | None => None
  end.
Proof. destruct p; [congruence|reflexivity]. Qed.

Lemma items_dec_encode dec l : forall k,
  Forall (fun x => forall rest, dec (encode x ++ rest) = Some (x, rest)) l ->
  (length (concat (map encode l)) <= k)%nat ->
  items_dec dec k (concat (map encode l)) = Some l.
Proof.
  induction l as [|x l IH]; intros k HF Hk.
  - destruct k; reflexivity.
  - inversion HF as [|? ? Hx HF']; subst.
    cbn [map concat] in *. rewrite app_length in Hk.
    pose proof (encode_nonempty x) as Hne.
    destruct k as [|k]; [lia|].
    rewrite items_dec_S.
    2:{ intro E. apply (f_equal (@length _)) in E. rewrite app_length in E. cbn in E. lia. }
    rewrite Hx. rewrite IH by (auto; lia). reflexivity.
Qed.

Lemma in_concat_length (l : list item) x :
  In x l -> (length (encode x) <= length (concat (map encode l)))%nat.
Proof.
  induction l as [|y l IH]; [intros []|].
  intros [->|Hin]; cbn [map concat]; rewrite app_length; [lia|]. specialize (IH Hin). lia.
Qed.

Lemma decode_item_encode : forall i,
  lens_ok i -> forall fuel rest,
  (length (encode i) <= fuel)%nat ->
  decode_item fuel (encode i ++ rest) = Some (i, rest).
Proof.
  induction i as [b|l IH] using item_ind'; intros Hok fuel rest Hf.
  - pose proof (encode_nonempty (RStr b)).
    destruct fuel as [|f]; [lia|].
    rewrite decode_item_S. cbn [lens_ok] in Hok.
    rewrite read_prefix_encode_str by assumption.
    rewrite nlen_app. destruct (N.ltb_spec (nlen b + nlen rest) (nlen b)); [lia|].
    cbv zeta. rewrite to_nat_nlen, firstn_app_exact, skipn_app_exact. reflexivity.
  - apply lens_ok_lst in Hok. destruct Hok as [Hlen Hall].
    pose proof (encode_lst_length l) as HL.
    destruct fuel as [|f]; [lia|].
    rewrite decode_item_S.
    rewrite read_prefix_encode_lst by assumption.
    rewrite nlen_app.
    destruct (N.ltb_spec (nlen (concat (map encode l)) + nlen rest)
                         (nlen (concat (map encode l)))); [lia|].
    cbv zeta. rewrite to_nat_nlen, firstn_app_exact, skipn_app_exact.
    rewrite items_dec_encode; [reflexivity| |lia].
    rewrite Forall_forall in *. intros x Hin rest'.
    apply IH; [assumption|auto|].
    pose proof (in_concat_length l x Hin). lia.
Qed.

(* 1. strict decoding inverts encoding *)
Theorem decode_encode_lens : forall i, lens_ok i -> decode (encode i) = Some i.
Proof.
  intros i Hok. unfold decode.
  pose proof (decode_item_encode i Hok (S (length (encode i))) [] ltac:(lia)) as H.
  rewrite app_nil_r in H. rewrite H. reflexivity.
Qed.

Theorem decode_encode : forall i, wf_item i -> decode (encode i) = Some i.
Proof. intros i [_ H]. apply decode_encode_lens, H. Qed.

(* a simple sufficient condition: the whole encoding is shorter than 2^64 bytes *)
Lemma encode_str_length b : (length b <= length (encode (RStr b)))%nat.
Proof.
  destruct (encode_str_cases b) as [(x & -> & Hx & ->)|[_ ->]]; [cbn; lia|].
  rewrite app_length. lia.
Qed.

Lemma lens_ok_of_encode_length : forall i, nlen (encode i) < 256 ^ 8 -> lens_ok i.
Proof.
  induction i as [b|l IH] using item_ind'; intro H.
  - cbn [lens_ok]. pose proof (encode_str_length b). unfold nlen in *. lia.
  - apply lens_ok_lst. pose proof (encode_lst_length l) as HL. split.
    + unfold nlen in *. lia.
    + rewrite Forall_forall in *. intros x Hin. apply IH; [assumption|].
      pose proof (in_concat_length l x Hin). unfold nlen in *. lia.
Qed.

Corollary decode_encode_short : forall i,
  nlen (encode i) < 2 ^ 64 -> decode (encode i) = Some i.
Proof.
  intros i H. apply decode_encode_lens, lens_ok_of_encode_length.
  replace (256 ^ 8) with (2 ^ 64) by (vm_compute; reflexivity). exact H.
Qed.

(* boolean checker for wf_item *)
Fixpoint wf_itemb (i : item) : bool :=
  match i with
  | RStr b => wf_bytesb b && (nlen b <? 256 ^ 8)
  | RLst l => (nlen (concat (map encode l)) <? 256 ^ 8) && forallb wf_itemb l
  end.

Lemma wf_bytesb_ok b : wf_bytesb b = true <-> wf_bytes b.
Proof.
  unfold wf_bytesb, wf_bytes. rewrite forallb_forall, Forall_forall.
  split; intros H x Hx; specialize (H x Hx); lia.
Qed.

Lemma wf_itemb_ok : forall i, wf_itemb i = true -> wf_item i.
Proof.
  induction i as [b|l IH] using item_ind'; cbn [wf_itemb]; intro H;
    apply andb_prop in H; destruct H as [H1 H2].
  - split; cbn [bytes_ok lens_ok]; [apply wf_bytesb_ok; assumption|lia].
  - rewrite forallb_forall in H2. rewrite Forall_forall in IH. split.
    + apply bytes_ok_lst, Forall_forall. intros x Hx. apply IH; auto.
    + apply lens_ok_lst. split; [lia|]. apply Forall_forall. intros x Hx. apply IH; auto.
Qed.

(* A concrete header-shaped item: 19 fields, including a 60-byte string, a 256-byte string
   (bloom-sized, 2-byte length), single bytes on both sides of 0x80, the empty string and a
   nested list. *)
Definition ex_item : item :=
  RLst ([RStr (repeat 171 32); RStr (repeat 1 60); RStr (repeat 255 256); RStr [];
         RStr [0]; RStr [127]; RStr [128]; RStr [255]; RLst []; RLst [RStr [1]; RLst [RStr []]]]
        ++ repeat (RStr [1; 2; 3]) 9).

Example ex_item_len : item_len ex_item = 19%nat.
Proof. reflexivity. Qed.

Example ex_item_wf : wf_item ex_item.
Proof. apply wf_itemb_ok. vm_compute. reflexivity. Qed.

Example ex_decode_encode : decode (encode ex_item) = Some ex_item.
Proof. vm_compute. reflexivity. Qed.

Example ex_decode_encode' : decode (encode ex_item) = Some ex_item.
Proof. apply decode_encode, ex_item_wf. Qed.

(* ------------------------------------------------------------------------------------ *)
(* 2. remove_mm_fields / get_block_hash                                                   *)
(* ------------------------------------------------------------------------------------ *)

Lemma concat_firstn_length (l : list item) : forall n,
  (length (concat (map encode (firstn n l))) <= length (concat (map encode l)))%nat.
Proof.
  induction l as [|x l IH]; intros [|n]; cbn [firstn map concat length]; try lia.
  rewrite !app_length. specialize (IH n). lia.
Qed.

Lemma Forall_firstn {A} (P : A -> Prop) l : forall n, Forall P l -> Forall P (firstn n l).
Proof.
  induction l as [|x l IH]; intros [|n] H; cbn [firstn]; auto.
  inversion H; subst. constructor; auto.
Qed.

Lemma lens_ok_drop_last blk k : lens_ok blk -> lens_ok (item_drop_last blk k).
Proof.
  destruct blk as [b|l]; cbn [item_drop_last]; unfold drop_last.
  - cbn [lens_ok]. intro H. pose proof (firstn_le_length (length b - k) b).
    unfold nlen in *. lia.
  - rewrite !lens_ok_lst. intros [H1 H2]. split; [|apply Forall_firstn, H2].
    pose proof (concat_firstn_length l (length l - k)). unfold nlen in *. lia.
Qed.

Lemma bytes_ok_drop_last blk k : bytes_ok blk -> bytes_ok (item_drop_last blk k).
Proof.
  destruct blk as [b|l]; cbn [item_drop_last]; unfold drop_last.
  - cbn [bytes_ok]. apply Forall_firstn.
  - rewrite !bytes_ok_lst. apply Forall_firstn.
Qed.

Lemma item_len_drop_last blk k :
  item_len (item_drop_last blk k) = (item_len blk - k)%nat.
Proof.
  destruct blk; cbn [item_drop_last item_len]; unfold drop_last; rewrite firstn_length; lia.
Qed.

(* what remove_mm_fields keeps *)
Definition mm_kept (blk : item) (leave_btcblock : bool) : item :=
  if (19 <=? item_len blk)%nat
  then item_drop_last blk (if leave_btcblock then 2 else 3)
  else if leave_btcblock then blk else item_drop_last blk 1.

Lemma remove_mm_fields_spec b blk leave :
  decode b = Some blk ->
  remove_mm_fields (Some b) leave =
  if ((17 <=? item_len blk) && (item_len blk <=? 20))%nat
  then Some (encode (mm_kept blk leave)) else None.
Proof.
  intro H. unfold remove_mm_fields, mm_kept. rewrite H.
  destruct ((17 <=? item_len blk) && (item_len blk <=? 20))%nat; reflexivity.
Qed.

Lemma lens_ok_mm_kept blk leave : lens_ok blk -> lens_ok (mm_kept blk leave).
Proof.
  intro H. unfold mm_kept. destruct (19 <=? item_len blk)%nat; [apply lens_ok_drop_last, H|].
  destruct leave; [exact H|apply lens_ok_drop_last, H].
Qed.

(* stripping the merge-mining fields (keeping the BTC block) is idempotent *)
Theorem remove_mm_idempotent b blk b' :
  decode b = Some blk -> lens_ok blk ->
  remove_mm_fields (Some b) true = Some b' ->
  remove_mm_fields (Some b') true = Some b'.
Proof.
  intros Hd Hok H. rewrite (remove_mm_fields_spec b blk true Hd) in H.
  destruct ((17 <=? item_len blk) && (item_len blk <=? 20))%nat eqn:Hr; [|discriminate].
  inversion H; subst b'; clear H.
  pose proof (lens_ok_mm_kept blk true Hok) as Hk.
  rewrite (remove_mm_fields_spec _ _ true (decode_encode_lens _ Hk)).
  assert (Hlen : (17 <= item_len (mm_kept blk true) <= 18)%nat).
  { unfold mm_kept. destruct (Nat.leb_spec 19 (item_len blk)).
    - rewrite item_len_drop_last. lia.
    - lia. }
  destruct (Nat.leb_spec 17 (item_len (mm_kept blk true))); [|lia].
  destruct (Nat.leb_spec (item_len (mm_kept blk true)) 20); [|lia].
  cbn [andb]. f_equal. f_equal.
  unfold mm_kept at 1.
  destruct (Nat.leb_spec 19 (item_len (mm_kept blk true))); [lia|reflexivity].
Qed.

Theorem remove_mm_preserves_hash_lens (keccak : bytes -> bytes) b blk b' :
  decode b = Some blk -> lens_ok blk ->
  remove_mm_fields (Some b) true = Some b' ->
  get_block_hash keccak (Some b') = get_block_hash keccak (Some b).
Proof.
  intros Hd Hok H. unfold get_block_hash.
  rewrite (remove_mm_idempotent b blk b' Hd Hok H), H. reflexivity.
Qed.

Theorem remove_mm_preserves_hash (keccak : bytes -> bytes) b blk b' :
  decode b = Some blk -> wf_item blk ->
  remove_mm_fields (Some b) true = Some b' ->
  get_block_hash keccak (Some b') = get_block_hash keccak (Some b).
Proof. intros Hd [_ Hok]. apply remove_mm_preserves_hash_lens with blk; assumption. Qed.

Example ex_remove_mm :
  exists b', remove_mm_fields (Some (encode ex_item)) true = Some b' /\
             b' <> encode ex_item /\
             forall keccak, get_block_hash keccak (Some b')
                            = get_block_hash keccak (Some (encode ex_item)).
Proof.
  eexists. split; [vm_compute; reflexivity|]. split; [vm_compute; discriminate|].
  intro keccak. apply remove_mm_preserves_hash with ex_item.
  - exact ex_decode_encode.
  - exact ex_item_wf.
  - vm_compute. reflexivity.
Qed.

(* ------------------------------------------------------------------------------------ *)
(* 3. list_payload_length / rlp_mm_payload_size                                           *)
(* ------------------------------------------------------------------------------------ *)

(* holds for every list, no size hypothesis needed *)
Theorem list_payload_length_encode l :
  list_payload_length (encode (RLst l)) = Some (nlen (concat (map encode l))).
Proof.
  cbn [encode]. set (len := nlen (concat (map encode l))). generalize (concat (map encode l)).
  intro payload. unfold length_prefix.
  destruct (N.ltb_spec len 56) as [Hs|Hl]; cbn [app]; unfold list_payload_length.
  - destruct (N.leb_spec 192 (192 + len)); [|lia].
    destruct (N.leb_spec (192 + len) 247); [|lia].
    cbn [andb]. f_equal. lia.
  - destruct (be_min_head len ltac:(lia)) as (d & t & E & Hd).
    assert (L1 : 1 <= nlen (be_min len)) by (rewrite E, nlen_cons; lia).
    destruct (N.leb_spec (192 + 55 + nlen (be_min len)) 247); [lia|].
    rewrite andb_false_r.
    destruct (N.leb_spec 248 (192 + 55 + nlen (be_min len))); [|lia].
    replace (192 + 55 + nlen (be_min len) - 247) with (nlen (be_min len)) by lia.
    rewrite to_nat_nlen, firstn_app_exact, from_bytes_be_be_min. reflexivity.
Qed.

(* rlp_mm_payload_size returns the payload length of the header re-encoded without its
   merge-mining fields *)
Theorem rlp_mm_payload_size_spec b l :
  decode b = Some (RLst l) ->
  (17 <= length l <= 20)%nat ->
  rlp_mm_payload_size (Some b) =
  Some (nlen (concat (map encode (drop_last l (if (19 <=? length l)%nat then 3 else 1))))).
Proof.
  intros Hd Hl. unfold rlp_mm_payload_size.
  rewrite (remove_mm_fields_spec b _ false Hd). cbn [item_len].
  destruct (Nat.leb_spec 17 (length l)); [|lia].
  destruct (Nat.leb_spec (length l) 20); [|lia].
  cbn [andb]. unfold mm_kept. cbn [item_len item_drop_last].
  destruct (19 <=? length l)%nat; apply list_payload_length_encode.
Qed.

Example ex_list_payload_length :
  list_payload_length (encode ex_item) = Some 402.
Proof. vm_compute. reflexivity. Qed.

Example ex_rlp_mm_payload_size :
  rlp_mm_payload_size (Some (encode ex_item)) = Some 390.
Proof. vm_compute. reflexivity. Qed.

(* ------------------------------------------------------------------------------------ *)
(* 4. canonicity: a strictly decodable byte string is the encoding of what it decodes to   *)
(* ------------------------------------------------------------------------------------ *)

Lemma pow256_pos n : 0 < 256 ^ n.
Proof. assert (256 ^ n <> 0) by (apply N.pow_nonzero; lia). lia. Qed.

Lemma from_bytes_be_bound lp : wf_bytes lp -> from_bytes_be lp < 256 ^ nlen lp.
Proof.
  induction lp as [|x t IH]; intro H.
  - unfold from_bytes_be, nlen. cbn [fold_left length]. change (N.of_nat 0) with 0.
    rewrite pow_0. lia.
  - inversion H; subst. specialize (IH H3). rewrite from_bytes_be_cons, nlen_cons.
    rewrite N.pow_add_r. change (256 ^ 1) with 256. cbv beta in *.
    remember (256 ^ nlen t) as P. nia.
Qed.

Lemma from_bytes_be_nonzero lp : lp <> [] -> hd 1 lp <> 0 -> from_bytes_be lp <> 0.
Proof.
  destruct lp as [|x t]; [congruence|]. cbn [hd]. intros _ Hx.
  rewrite from_bytes_be_cons. pose proof (pow256_pos (nlen t)). nia.
Qed.

Lemma be_min_aux_from_bytes : forall lp f acc,
  wf_bytes lp -> hd 1 lp <> 0 -> from_bytes_be lp < 2 ^ N.of_nat f ->
  be_min_aux f (from_bytes_be lp) acc = lp ++ acc.
Proof.
  induction lp as [|d lp' IH] using rev_ind; intros f acc Hwf Hhd Hlt.
  - change (from_bytes_be []) with 0. destruct f; reflexivity.
  - apply Forall_app in Hwf. destruct Hwf as [Hwf' Hd]. inversion Hd; subst. cbv beta in *.
    assert (Hn : from_bytes_be (lp' ++ [d]) = from_bytes_be lp' * 256 + d).
    { rewrite from_bytes_be_app, from_bytes_be_single. unfold nlen. cbn [length].
      change (256 ^ N.of_nat 1) with 256. reflexivity. }
    assert (Hnz : from_bytes_be (lp' ++ [d]) <> 0).
    { apply from_bytes_be_nonzero; [destruct lp'; discriminate|assumption]. }
    rewrite Hn in *.
    destruct f as [|f].
    { change (N.of_nat 0) with 0 in Hlt. rewrite pow_0 in Hlt. lia. }
    cbn [be_min_aux]. destruct (N.eqb_spec (from_bytes_be lp' * 256 + d) 0); [contradiction|].
    replace ((from_bytes_be lp' * 256 + d) / 256) with (from_bytes_be lp') by lia.
    replace ((from_bytes_be lp' * 256 + d) mod 256) with d by lia.
    rewrite pow2_S in Hlt.
    rewrite IH; [rewrite <- app_assoc; reflexivity|assumption| |lia].
    destruct lp'; [cbn; lia|exact Hhd].
Qed.

Lemma be_min_from_bytes lp :
  wf_bytes lp -> hd 1 lp <> 0 -> be_min (from_bytes_be lp) = lp.
Proof.
  intros Hwf Hhd. unfold be_min.
  rewrite be_min_aux_from_bytes by (auto; apply size_bound). apply app_nil_r.
Qed.

Definition long_prefix (is_list : bool) (ll : nat) (r : bytes) : option (bool * N * bytes) :=
  match r with
  | 0 :: _ => None
  | _ =>
      let lp := firstn ll r in
      let l := from_bytes_be lp in
      if l <? 56 then None else
      if Nat.ltb (length r) ll then None
      else Some (is_list, l, skipn ll r)
  end.

Lemma read_prefix_cons b0 r :
  read_prefix (b0 :: r) =
  if b0 <? 128 then Some (false, 1, b0 :: r)
  else if b0 <? 184 then
    let l := b0 - 128 in
    if (l =? 1) && match r with x :: _ => x <? 128 | [] => true end
    then None else Some (false, l, r)
  else
    let is_list := 192 <=? b0 in
    if is_list && (b0 <? 248) then Some (true, b0 - 192, r) else
    long_prefix is_list (N.to_nat (if is_list then b0 - 247 else b0 - 183)) r.
Proof. reflexivity. Qed.

Lemma wf_firstn n (b : bytes) : wf_bytes b -> wf_bytes (firstn n b).
Proof. apply Forall_firstn. Qed.

Lemma wf_skipn n (b : bytes) : wf_bytes b -> wf_bytes (skipn n b).
Proof.
  intro H. rewrite <- (firstn_skipn n b) in H. apply Forall_app in H. apply H.
Qed.

Lemma long_prefix_inv il ll r il' l r' :
  wf_bytes r -> (1 <= ll <= 8)%nat ->
  long_prefix il ll r = Some (il', l, r') ->
  il' = il /\ 56 <= l < 256 ^ 8 /\ r = be_min l ++ r' /\ length (be_min l) = ll.
Proof.
  intros Hwf Hll H.
  assert (Hhd : hd 1 r <> 0 /\
          (let lp := firstn ll r in
           let l := from_bytes_be lp in
           if l <? 56 then None else
           if Nat.ltb (length r) ll then None
           else Some (il, l, skipn ll r)) = Some (il', l, r')).
  { unfold long_prefix in H. destruct r as [|x t]; [split; [cbn; lia|exact H]|].
    destruct x; [discriminate|]. split; [cbn; lia|exact H]. }
  clear H. destruct Hhd as [Hhd H]. cbv zeta in H.
  destruct (N.ltb_spec (from_bytes_be (firstn ll r)) 56); [discriminate|].
  destruct (Nat.ltb_spec (length r) ll); [discriminate|].
  inversion H; subst; clear H.
  assert (Hlen : length (firstn ll r) = ll) by (rewrite firstn_length; lia).
  assert (Hhd' : hd 1 (firstn ll r) <> 0).
  { destruct r; [cbn in *; lia|]. destruct ll; [lia|exact Hhd]. }
  pose proof (wf_firstn ll r Hwf) as Hwf'.
  rewrite (be_min_from_bytes _ Hwf' Hhd').
  split; [reflexivity|]. split; [|split; [symmetry; apply firstn_skipn|assumption]].
  split; [assumption|].
  pose proof (from_bytes_be_bound _ Hwf') as Hb. unfold nlen in Hb. rewrite Hlen in Hb.
  eapply N.lt_le_trans; [exact Hb|]. apply N.pow_le_mono_r; lia.
Qed.

Lemma firstn_length_N {A} l (r : list A) : l <= nlen r -> nlen (firstn (N.to_nat l) r) = l.
Proof. intro H. unfold nlen in *. rewrite firstn_length. lia. Qed.

Lemma read_prefix_str_inv b l r :
  wf_bytes b -> read_prefix b = Some (false, l, r) -> l <= nlen r ->
  b = encode (RStr (firstn (N.to_nat l) r)) ++ skipn (N.to_nat l) r /\
  l < 256 ^ 8 /\ wf_bytes r.
Proof.
  intros Hwf H Hfit. destruct b as [|b0 r0]; [discriminate|].
  rewrite read_prefix_cons in H. inversion Hwf as [|? ? Hb0 Hwf0]; subst. cbv beta in Hb0.
  assert (P8 : 256 <= 256 ^ 8) by (vm_compute; discriminate).
  destruct (N.ltb_spec b0 128).
  { inversion H; subst. change (N.to_nat 1) with 1%nat. cbn [firstn skipn encode].
    destruct (N.ltb_spec b0 128); [|lia]. split; [reflexivity|]. split; [lia|assumption]. }
  destruct (N.ltb_spec b0 184).
  { cbv zeta in H.
    destruct ((b0 - 128 =? 1) && match r0 with x :: _ => x <? 128 | [] => true end) eqn:Hc;
      [discriminate|].
    inversion H; subst; clear H.
    pose proof (firstn_length_N _ _ Hfit) as Hpl.
    split; [|split; [lia|assumption]].
    destruct (encode_str_cases (firstn (N.to_nat (b0 - 128)) r)) as [(x & E & Hx & _)|[_ ->]].
    - exfalso. rewrite E in Hpl. unfold nlen in Hpl. cbn [length] in Hpl.
      destruct r as [|y t]; [destruct (N.to_nat (b0 - 128)); discriminate|].
      replace (N.to_nat (b0 - 128)) with 1%nat in E by lia. cbn [firstn] in E.
      inversion E; subst y. lia.
    - rewrite Hpl. unfold length_prefix. destruct (N.ltb_spec (b0 - 128) 56); [|lia].
      cbn [app]. rewrite firstn_skipn. f_equal. lia. }
  destruct (N.leb_spec 192 b0).
  { cbv zeta in H. destruct (N.ltb_spec b0 248); cbn [andb] in H; [discriminate|].
    apply long_prefix_inv in H; [|assumption|lia]. destruct H as [H _]. discriminate. }
  cbv zeta in H. cbn [andb] in H.
  apply long_prefix_inv in H; [|assumption|lia].
  destruct H as (_ & Hl & Hr & Hlen).
  pose proof (firstn_length_N _ _ Hfit) as Hpl.
  split; [|split; [lia|]].
  2:{ rewrite Hr in Hwf0. apply Forall_app in Hwf0. apply Hwf0. }
  destruct (encode_str_cases (firstn (N.to_nat l) r)) as [(x & E & Hx & _)|[_ ->]].
  - exfalso. rewrite E in Hpl. unfold nlen in Hpl. cbn [length] in Hpl. lia.
  - rewrite Hpl. unfold length_prefix. destruct (N.ltb_spec l 56); [lia|].
    cbn [app]. rewrite <- app_assoc, firstn_skipn, <- Hr. f_equal.
    unfold nlen. rewrite Hlen. lia.
Qed.

Lemma read_prefix_lst_inv b l r :
  wf_bytes b -> read_prefix b = Some (true, l, r) ->
  b = length_prefix l 192 ++ r /\ l < 256 ^ 8 /\ wf_bytes r.
Proof.
  intros Hwf H. destruct b as [|b0 r0]; [discriminate|].
  rewrite read_prefix_cons in H. inversion Hwf as [|? ? Hb0 Hwf0]; subst. cbv beta in Hb0.
  assert (P8 : 256 <= 256 ^ 8) by (vm_compute; discriminate).
  destruct (N.ltb_spec b0 128); [discriminate|].
  destruct (N.ltb_spec b0 184).
  { cbv zeta in H. destruct (_ && _); discriminate. }
  cbv zeta in H.
  destruct (N.leb_spec 192 b0).
  2:{ cbn [andb] in H. apply long_prefix_inv in H; [|assumption|lia].
      destruct H as [H _]. discriminate. }
  destruct (N.ltb_spec b0 248); cbn [andb] in H.
  { inversion H; subst; clear H. split; [|split; [lia|assumption]].
    unfold length_prefix. destruct (N.ltb_spec (b0 - 192) 56); [|lia].
    cbn [app]. f_equal. lia. }
  apply long_prefix_inv in H; [|assumption|lia].
  destruct H as (_ & Hl & Hr & Hlen).
  split; [|split; [lia|]].
  2:{ rewrite Hr in Hwf0. apply Forall_app in Hwf0. apply Hwf0. }
  unfold length_prefix. destruct (N.ltb_spec l 56); [lia|].
  cbn [app]. rewrite <- Hr. f_equal. unfold nlen. rewrite Hlen. lia.
Qed.

Definition dec_sound (dec : bytes -> option (item * bytes)) : Prop :=
  forall p i rest, wf_bytes p -> dec p = Some (i, rest) ->
                   p = encode i ++ rest /\ wf_item i.

Lemma items_dec_sound dec : dec_sound dec -> forall k p l',
  wf_bytes p -> items_dec dec k p = Some l' ->
  p = concat (map encode l') /\ Forall wf_item l'.
Proof.
  intros Hdec. induction k as [|k IH]; intros p l' Hwf H.
  - destruct p; [|discriminate]. inversion H; subst. split; [reflexivity|constructor].
  - destruct p as [|c t]; [inversion H; subst; split; [reflexivity|constructor]|].
    rewrite items_dec_S in H by discriminate.
    destruct (dec (c :: t)) as [[it p']|] eqn:E; [|discriminate].
    destruct (items_dec dec k p') as [l''|] eqn:E'; [|discriminate].
    inversion H; subst; clear H.
    destruct (Hdec _ _ _ Hwf E) as [Hp Hit].
    assert (Hwf' : wf_bytes p') by (rewrite Hp in Hwf; apply Forall_app in Hwf; apply Hwf).
    destruct (IH _ _ Hwf' E') as [Hp' Hall].
    split; [|constructor; assumption].
    cbn [map concat]. rewrite <- Hp'. exact Hp.
Qed.

Lemma wf_item_lst l :
  wf_item (RLst l) <-> nlen (concat (map encode l)) < 256 ^ 8 /\ Forall wf_item l.
Proof.
  unfold wf_item. rewrite bytes_ok_lst, lens_ok_lst. rewrite !Forall_forall.
  split.
  - intros (Hb & Hl & Ho). split; [assumption|]. intros x Hx. split; auto.
  - intros (Hl & Ha). split; [|split; [assumption|]]; intros x Hx; apply Ha; assumption.
Qed.

Lemma decode_item_sound : forall fuel, dec_sound (decode_item fuel).
Proof.
  induction fuel as [|f IH]; intros b i rest Hwf H; [discriminate|].
  rewrite decode_item_S in H.
  destruct (read_prefix b) as [[[il l] r]|] eqn:Hrp; [|discriminate].
  destruct (N.ltb_spec (nlen r) l) as [|Hfit]; [discriminate|]. cbv zeta in H.
  destruct il.
  - destruct (read_prefix_lst_inv b l r Hwf Hrp) as (Hb & Hl & Hwr).
    destruct (items_dec (decode_item f) (length (firstn (N.to_nat l) r)) (firstn (N.to_nat l) r))
      as [l'|] eqn:E; [|discriminate].
    inversion H; subst i rest; clear H.
    destruct (items_dec_sound _ IH _ _ _ (wf_firstn _ _ Hwr) E) as [Hp Hall].
    pose proof (firstn_length_N _ _ Hfit) as Hpl.
    split.
    + cbn [encode]. rewrite <- Hp, Hpl, <- app_assoc, firstn_skipn. exact Hb.
    + apply wf_item_lst. split; [|assumption]. rewrite <- Hp, Hpl. assumption.
  - inversion H; subst i rest; clear H.
    destruct (read_prefix_str_inv b l r Hwf Hrp Hfit) as (Hb & Hl & Hwr).
    split; [exact Hb|].
    split; cbn [bytes_ok lens_ok]; [apply wf_firstn, Hwr|].
    rewrite (firstn_length_N _ _ Hfit). assumption.
Qed.

Theorem decode_canonical b i : wf_bytes b -> decode b = Some i -> encode i = b.
Proof.
  intros Hwf H. unfold decode in H.
  destruct (decode_item (S (length b)) b) as [[it rest]|] eqn:E; [|discriminate].
  destruct rest; [|discriminate]. inversion H; subst it; clear H.
  destruct (decode_item_sound _ _ _ _ Hwf E) as [Hb _]. rewrite app_nil_r in Hb. auto.
Qed.

Theorem decode_wf b i : wf_bytes b -> decode b = Some i -> wf_item i.
Proof.
  intros Hwf H. unfold decode in H.
  destruct (decode_item (S (length b)) b) as [[it rest]|] eqn:E; [|discriminate].
  destruct rest; [|discriminate]. inversion H; subst it; clear H.
  destruct (decode_item_sound _ _ _ _ Hwf E) as [_ Hi]. exact Hi.
Qed.

(* decode is injective on well-formed byte strings *)
Corollary decode_injective b1 b2 i :
  wf_bytes b1 -> wf_bytes b2 -> decode b1 = Some i -> decode b2 = Some i -> b1 = b2.
Proof.
  intros H1 H2 D1 D2. rewrite <- (decode_canonical b1 i H1 D1). apply decode_canonical; auto.
Qed.

(* encode is injective on items that decode back *)
Corollary encode_injective i j : lens_ok i -> lens_ok j -> encode i = encode j -> i = j.
Proof.
  intros Hi Hj E. apply decode_encode_lens in Hi, Hj. rewrite E in Hi. congruence.
Qed.

(* 2, strongest form: no hypothesis on the decoded block, only that the raw block is bytes *)
Theorem remove_mm_preserves_hash_bytes (keccak : bytes -> bytes) b b' :
  wf_bytes b ->
  remove_mm_fields (Some b) true = Some b' ->
  get_block_hash keccak (Some b') = get_block_hash keccak (Some b).
Proof.
  intros Hwf H. destruct (decode b) as [blk|] eqn:Hd.
  - apply remove_mm_preserves_hash with blk; auto. apply decode_wf with b; assumption.
  - unfold remove_mm_fields in H. rewrite Hd in H. discriminate.
Qed.

Example ex_canonical :
  wf_bytes (encode ex_item) /\ decode (encode ex_item) = Some ex_item.
Proof. split; [apply wf_bytesb_ok; vm_compute; reflexivity|vm_compute; reflexivity]. Qed.

(* non-canonical encodings are rejected: 0x81 0x05 (single byte with a prefix), a long form
   for a short length, a length with a leading zero *)
Example ex_noncanonical :
  decode [129; 5] = None /\ decode (184 :: 3 :: [1; 2; 3]) = None /\
  decode (185 :: 0 :: 56 :: repeat 7 56) = None.
Proof. vm_compute. auto. Qed.

(* wf_bytes is necessary for canonicity: the model's bytes are unbounded naturals, and an
   out-of-range "byte" in a length field decodes but does not re-encode to itself *)
Example ex_wf_bytes_needed :
  let b := 184 :: 300 :: repeat 0 300 in
  decode b = Some (RStr (repeat 0 300)) /\ encode (RStr (repeat 0 300)) <> b.
Proof. split; [vm_compute; reflexivity|vm_compute; discriminate]. Qed.
