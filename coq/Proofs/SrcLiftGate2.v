(* More property theorems carried over to the translated request path (see SrcLiftGate.v): C02's "a rejected
   request reaches no operation and leaves the device untouched" and C11's "a link fault at ANY exchange of a
   command is the last event of the request, is answered with the device-error code, and raises the reconnection
   flag iff it was a write / read error" - both stated of __internal_handle_request as translated from the source. *)
From PowHsm Require Import Gen.Src Gen.SrcM Model.Dongle Model.LedgerProtocol.
From PowHsm Require Import Proofs.ValLemmas Proofs.SrcEquivBase Proofs.SrcEquivLedger Proofs.SrcEquivDongleM
  Proofs.SrcEquivProtoM Proofs.SrcEquivSignProtoM Proofs.SrcEquivBlockM Proofs.SrcEquivBlockProtoM Proofs.SrcEquivGateM
  Proofs.SrcLiftGate.
From PowHsm Require Proofs.C02 Proofs.C11 Proofs.TraceLogic.

Section WithEnv.
Variable keccak : bytes -> bytes.
Variable kind : dongle_kind.
Variable init : pm pv.
Variable cm : string -> pv -> list pv -> pr pv.

(* C02 of the translated source: a request the gate rejects is answered with that code and NOTHING else happens -
   same world afterwards (no exchange with the device, no reconnection, no flag change) *)
Theorem src_rejected_no_exchange : forall fuel self request code w,
  env_ok keccak kind init cm fuel w ->
  gate_request V5 request = GReject code ->
  srcm_HSM2ProtocolLedger____internal_handle_request fuel cm init self (of_json request) w =
  (XOk (of_json (JObj [(KEY_ERRORCODE, JInt code)])), w).
Proof.
  intros fuel self request code w Henv Hg.
  rewrite (src_is_model keccak kind init cm fuel self request w Henv).
  rewrite (C02.rejected_no_exchange keccak kind V5 request code w Hg). reflexivity.
Qed.

(* C11 of the translated source: whatever exchange of an accepted command's handler is answered by a link fault,
   the translated request path replies {"errorcode": DEVICE}, ends in the world the handler left (the fault being
   the last event), and the reconnection flag is raised iff the fault was a write / read error *)
Theorem src_link_fault_reply : forall fuel self request cmd req opname op P rcn w n b f,
  env_ok keccak kind init cm fuel w ->
  gate_request V5 request = GAccept cmd req ->
  assoc_str cmd DISPATCH_V5 = Some opname ->
  run_operation keccak kind V5 opname req = Some op ->
  C11.is_handler keccak kind V5 P rcn op -> comm_issue w = false ->
  TraceLogic.news w (snd (op w)) n -> In (Apdu b f) n -> P b f = true ->
  srcm_HSM2ProtocolLedger____internal_handle_request fuel cm init self (of_json request) w =
    (XOk (of_json (C11.error_reply (C11.DEVICE V5))), snd (op w)) /\
  comm_issue (snd (op w)) = C11.is_comm_fault f /\
  (exists pre, n = pre ++ [Apdu b f] /\ C11.clean P pre).
Proof.
  intros fuel self request cmd req opname op P rcn w n b f Henv Hg Hd Hr Hh Hci Hn Hin HP.
  destruct (C11.any_fault_is_last keccak kind V5 P rcn op w n b f Hh Hci Hn Hin HP) as [Hlast [Hres Hfl]].
  split; [|split; assumption].
  rewrite (src_is_model keccak kind init cm fuel self request w Henv).
  destruct (op w) as [r w'] eqn:Eop. cbn [fst snd] in *. subst r.
  destruct (C11.handle_request_error keccak kind V5 request cmd req opname op w (C11.DEVICE V5) w' Hg Hd Hr Eop
              (C11.DEVICE_negative V5)) as [H _].
  rewrite H. reflexivity.
Qed.

End WithEnv.
