(* C14: the form of a BTC transaction relayed for signing (Model/BtcTx.v, unsign_tx). *)
From PowHsm Require Import Py.Base Model.BtcTx Proofs.BytesLemmas.
From Coq Require Import ZifyBool ZifyNat ZifyN Lia.
Ltac Zify.zify_post_hook ::= Z.to_euclidean_division_equations.

(* ====================================================================== *)
(* generic reader facts                                                    *)
(* ====================================================================== *)

Lemma read_n_app n a b : length a = n -> read_n n (a ++ b) = Some (a, b).
Proof.
  intros <-. unfold read_n. rewrite app_length.
  destruct (Nat.leb (length a) (length a + length b)) eqn:E; [|lia].
  rewrite firstn_app_exact, skipn_app_exact. reflexivity.
Qed.

Lemma read_n_all n a : length a = n -> read_n n a = Some (a, []).
Proof. intro H. rewrite <- (app_nil_r a) at 1. apply read_n_app; assumption. Qed.

Lemma read_n_inv n b a r : read_n n b = Some (a, r) -> b = a ++ r /\ length a = n.
Proof.
  unfold read_n. destruct (Nat.leb n (length b)) eqn:E; [|discriminate].
  intro H; inversion H; subst; clear H. split.
  - symmetry; apply firstn_skipn.
  - apply firstn_length_le. lia.
Qed.

Lemma nlen_to_nat {A} (l : list A) : N.to_nat (nlen l) = length l.
Proof. unfold nlen. lia. Qed.

Lemma from_le_2 n : n <= 65535 -> from_bytes_le (le_bytes 2 n) = n.
Proof.
  intro H. rewrite from_bytes_le_le_bytes. change (256 ^ N.of_nat 2) with 65536.
  apply N.mod_small. lia.
Qed.

Lemma from_le_4 n : n <= 4294967295 -> from_bytes_le (le_bytes 4 n) = n.
Proof.
  intro H. rewrite from_bytes_le_le_bytes. change (256 ^ N.of_nat 4) with 4294967296.
  apply N.mod_small. lia.
Qed.

Lemma from_le_8 n : n < 18446744073709551616 -> from_bytes_le (le_bytes 8 n) = n.
Proof.
  intro H. rewrite from_bytes_le_le_bytes. change (256 ^ N.of_nat 8) with 18446744073709551616.
  apply N.mod_small. lia.
Qed.

(* ====================================================================== *)
(* scripts: one decoding step, fuel                                        *)
(* ====================================================================== *)

Definition push_hdr (c : N) (r : bytes) : option (N * bytes) :=
  if c <? 76 then Some (c, r)
  else if c =? 76 then match r with x :: r' => Some (x, r') | [] => None end
  else if c =? 77 then
    match read_n 2 r with Some (v, r') => Some (from_bytes_le v, r') | None => None end
  else
    match read_n 4 r with Some (v, r') => Some (from_bytes_le v, r') | None => None end.

Definition opcode_op (c : N) : sop :=
  if (81 <=? c) && (c <=? 96) then OpSmall (c - 80) else OpOther c.

(* the operation at the head of [c :: r] and the bytes after it *)
Definition script_step (c : N) (r : bytes) : option (sop * bytes) :=
  if 78 <? c then Some (opcode_op c, r)
  else match push_hdr c r with
       | None => None
       | Some (n, r') =>
           if nlen r' <? n then None
           else Some ((if c =? 0 then OpZero else OpPush (firstn (N.to_nat n) r')),
                      skipn (N.to_nat n) r')
       end.

Lemma script_ops_S f c r :
  script_ops (S f) (c :: r) =
  match script_step c r with
  | None => None
  | Some (o, rest) => match script_ops f rest with Some l => Some (o :: l) | None => None end
  end.
Proof.
  cbn [script_ops]. unfold script_step, push_hdr, opcode_op.
  destruct (78 <? c); [reflexivity|].
  destruct (c <? 76). { destruct (nlen r <? c); reflexivity. }
  destruct (c =? 76). { destruct r as [|x r']; [reflexivity|]. destruct (nlen r' <? x); reflexivity. }
  destruct (c =? 77).
  { destruct (read_n 2 r) as [[v r']|]; [|reflexivity].
    destruct (nlen r' <? from_bytes_le v); reflexivity. }
  destruct (read_n 4 r) as [[v r']|]; [|reflexivity].
  destruct (nlen r' <? from_bytes_le v); reflexivity.
Qed.

Lemma script_ops_nil f : script_ops f [] = Some [].
Proof. destruct f; reflexivity. Qed.

Lemma script_ops_O c r : script_ops O (c :: r) = None.
Proof. reflexivity. Qed.

Lemma push_hdr_length c r n r' : push_hdr c r = Some (n, r') -> (length r' <= length r)%nat.
Proof.
  unfold push_hdr. destruct (c <? 76). { intro H; inversion H; subst; lia. }
  destruct (c =? 76). { destruct r; [discriminate|]. intro H; inversion H; subst; cbn; lia. }
  destruct (c =? 77).
  - destruct (read_n 2 r) as [[v q]|] eqn:E; [|discriminate].
    intro H; inversion H; subst. apply read_n_inv in E. destruct E as [-> _].
    rewrite app_length. lia.
  - destruct (read_n 4 r) as [[v q]|] eqn:E; [|discriminate].
    intro H; inversion H; subst. apply read_n_inv in E. destruct E as [-> _].
    rewrite app_length. lia.
Qed.

Lemma script_step_length c r o rest :
  script_step c r = Some (o, rest) -> (length rest <= length r)%nat.
Proof.
  unfold script_step. destruct (78 <? c). { intro H; inversion H; subst; lia. }
  destruct (push_hdr c r) as [[n r']|] eqn:E; [|discriminate].
  apply push_hdr_length in E.
  destruct (nlen r' <? n); [discriminate|].
  intro H; inversion H; subst. rewrite skipn_length. lia.
Qed.

(* any fuel not smaller than the script length gives the same answer *)
Lemma script_ops_fuel_irrel f : forall f' b,
  (length b <= f)%nat -> (length b <= f')%nat -> script_ops f b = script_ops f' b.
Proof.
  induction f as [|f IH]; intros f' b Hf Hf'.
  - destruct b; [|cbn in Hf; lia]. rewrite !script_ops_nil. reflexivity.
  - destruct b as [|c r]. { rewrite !script_ops_nil. reflexivity. }
    destruct f' as [|f']; [cbn in Hf'; lia|]. cbn [length] in *.
    rewrite !script_ops_S. destruct (script_step c r) as [[o rest]|] eqn:E; [|reflexivity].
    apply script_step_length in E. rewrite (IH f' rest) by lia. reflexivity.
Qed.

(* fuel monotonicity (also below the script length) *)
Lemma script_ops_fuel_mono f : forall f' b l,
  script_ops f b = Some l -> (f <= f')%nat -> script_ops f' b = Some l.
Proof.
  induction f as [|f IH]; intros f' b l H Hf.
  - destruct b; [|discriminate]. rewrite script_ops_nil in *. assumption.
  - destruct b as [|c r]. { rewrite script_ops_nil in *. assumption. }
    destruct f' as [|f']; [lia|]. rewrite script_ops_S in *.
    destruct (script_step c r) as [[o rest]|]; [|discriminate].
    destruct (script_ops f rest) as [l0|] eqn:E; [|discriminate].
    rewrite (IH f' rest l0 E) by lia. assumption.
Qed.

(* every decoded operation consumes at least one byte *)
Lemma script_ops_length f : forall b l, script_ops f b = Some l -> (length l <= length b)%nat.
Proof.
  induction f as [|f IH]; intros b l H.
  - destruct b; [|discriminate]. rewrite script_ops_nil in H. inversion H; cbn; lia.
  - destruct b as [|c r]. { rewrite script_ops_nil in H. inversion H; cbn; lia. }
    rewrite script_ops_S in H.
    destruct (script_step c r) as [[o rest]|] eqn:E; [|discriminate].
    destruct (script_ops f rest) as [l0|] eqn:E0; [|discriminate].
    inversion H; subst. apply IH in E0. apply script_step_length in E. cbn [length]. lia.
Qed.

Lemma script_ops_empty_inv f b : script_ops f b = Some [] -> b = [].
Proof.
  destruct b as [|c r]; [reflexivity|]. destruct f; [discriminate|].
  rewrite script_ops_S. destruct (script_step c r) as [[o rest]|]; [|discriminate].
  destruct (script_ops f rest); discriminate.
Qed.

Lemma script_ops_zero f r :
  script_ops (S f) (0 :: r) =
  match script_ops f r with Some l => Some (OpZero :: l) | None => None end.
Proof.
  rewrite script_ops_S. unfold script_step, push_hdr.
  change (78 <? 0) with false. change (0 <? 76) with true. change (0 =? 0) with true.
  cbn iota. destruct (nlen r <? 0) eqn:E; [lia|]. reflexivity.
Qed.

Lemma script_ops_zeros n : forall f b,
  script_ops (n + f) (repeat 0 n ++ b) =
  match script_ops f b with Some l => Some (repeat OpZero n ++ l) | None => None end.
Proof.
  induction n as [|n IH]; intros f b.
  - cbn [repeat app Nat.add]. destruct (script_ops f b); reflexivity.
  - cbn [repeat app Nat.add]. rewrite script_ops_zero, IH.
    destruct (script_ops f b); reflexivity.
Qed.

(* ====================================================================== *)
(* scripts: re-reading an encoded operation                                *)
(* ====================================================================== *)

(* what an operation becomes once encoded and iterated again *)
Definition norm_op (o : sop) : sop := match o with OpPush [] => OpZero | _ => o end.

(* the operations that script iteration can produce from a script shorter than 2^32 *)
Definition valid_op (o : sop) : Prop :=
  match o with
  | OpZero => True
  | OpPush d => nlen d < 4294967296
  | OpSmall n => 1 <= n <= 16
  | OpOther c => 78 < c /\ (c < 81 \/ 96 < c)
  end.

Lemma encode_op_norm o : encode_op (norm_op o) = encode_op o.
Proof. destruct o as [|[|x d]|n|c]; reflexivity. Qed.

Lemma norm_op_idem o : norm_op (norm_op o) = norm_op o.
Proof. destruct o as [|[|x d]|n|c]; reflexivity. Qed.

Lemma valid_norm_op o : valid_op o -> valid_op (norm_op o).
Proof. destruct o as [|[|x d]|n|c]; cbn [norm_op valid_op]; auto. Qed.

Lemma step_push c r d rest :
  c <= 78 -> push_hdr c r = Some (nlen d, d ++ rest) ->
  script_step c r = Some ((if c =? 0 then OpZero else OpPush d), rest).
Proof.
  intros Hc Hh. unfold script_step. rewrite Hh.
  destruct (78 <? c) eqn:E; [lia|].
  rewrite nlen_app. destruct (nlen d + nlen rest <? nlen d) eqn:E1; [lia|].
  rewrite nlen_to_nat, firstn_app_exact, skipn_app_exact. reflexivity.
Qed.

Lemma script_step_encode_push d rest :
  nlen d < 4294967296 ->
  exists c r, encode_push d ++ rest = c :: r /\
              script_step c r = Some (norm_op (OpPush d), rest).
Proof.
  intro Hd. unfold encode_push.
  destruct (nlen d <? 76) eqn:E1.
  { exists (nlen d), (d ++ rest). split; [reflexivity|].
    rewrite (step_push (nlen d) (d ++ rest) d rest); [| lia |].
    - destruct d as [|x d]; [reflexivity|].
      destruct (nlen (x :: d) =? 0) eqn:E; [rewrite nlen_cons in E; lia|reflexivity].
    - unfold push_hdr. rewrite E1. reflexivity. }
  assert (Hn : norm_op (OpPush d) = OpPush d).
  { destruct d; [cbn in E1; discriminate|reflexivity]. }
  rewrite Hn.
  destruct (nlen d <=? 255) eqn:E2.
  { exists 76, (nlen d :: d ++ rest). split; [reflexivity|].
    rewrite (step_push 76 _ d rest); [reflexivity | lia | reflexivity]. }
  destruct (nlen d <=? 65535) eqn:E3.
  { exists 77, (le_bytes 2 (nlen d) ++ d ++ rest). split.
    { cbn [app]. rewrite <- app_assoc. reflexivity. }
    rewrite (step_push 77 _ d rest); [reflexivity | lia |].
    unfold push_hdr. change (77 <? 76) with false. change (77 =? 76) with false.
    change (77 =? 77) with true. cbn iota.
    rewrite read_n_app by apply le_bytes_length.
    rewrite from_le_2 by lia. reflexivity. }
  exists 78, (le_bytes 4 (nlen d) ++ d ++ rest). split.
  { cbn [app]. rewrite <- app_assoc. reflexivity. }
  rewrite (step_push 78 _ d rest); [reflexivity | lia |].
  unfold push_hdr. change (78 <? 76) with false. change (78 =? 76) with false.
  change (78 =? 77) with false. cbn iota.
  rewrite read_n_app by apply le_bytes_length.
  rewrite from_le_4 by lia. reflexivity.
Qed.

Lemma script_step_encode_op o rest :
  valid_op o ->
  exists c r, encode_op o ++ rest = c :: r /\ script_step c r = Some (norm_op o, rest).
Proof.
  destruct o as [|d|n|c]; cbn [valid_op encode_op]; intro H.
  - exists 0, rest. split; [reflexivity|].
    apply (step_push 0 rest [] rest); [lia|reflexivity].
  - apply script_step_encode_push; assumption.
  - exists (80 + n), rest. split; [reflexivity|].
    unfold script_step, opcode_op. destruct (78 <? 80 + n) eqn:E; [|lia].
    destruct ((81 <=? 80 + n) && (80 + n <=? 96)) eqn:E1; [|lia].
    replace (80 + n - 80) with n by lia. reflexivity.
  - exists c, rest. split; [reflexivity|].
    unfold script_step, opcode_op. destruct (78 <? c) eqn:E; [|lia].
    destruct ((81 <=? c) && (c <=? 96)) eqn:E1; [lia|]. reflexivity.
Qed.

Lemma script_ops_encode_op f o rest :
  valid_op o ->
  script_ops (S f) (encode_op o ++ rest) =
  match script_ops f rest with Some l => Some (norm_op o :: l) | None => None end.
Proof.
  intro H. destruct (script_step_encode_op o rest H) as (c & r & -> & Hs).
  rewrite script_ops_S, Hs. reflexivity.
Qed.

(* item 3: iteration of a cleared script *)
Theorem script_ops_cleared fuel n o :
  valid_op o -> (n < fuel)%nat ->
  script_ops fuel (repeat 0 n ++ encode_op o) = Some (repeat OpZero n ++ [norm_op o]).
Proof.
  intros Hv Hf. replace fuel with (n + S (fuel - n - 1))%nat by lia.
  rewrite script_ops_zeros. rewrite <- (app_nil_r (encode_op o)).
  rewrite script_ops_encode_op by assumption. rewrite script_ops_nil. reflexivity.
Qed.

(* what iteration produces: every operation is valid, pushes are bounded by the script *)
Definition op_within (L : nat) (o : sop) : Prop :=
  match o with
  | OpZero => True
  | OpPush d => (length d <= L)%nat
  | OpSmall n => 1 <= n <= 16
  | OpOther c => 78 < c /\ (c < 81 \/ 96 < c)
  end.

Lemma op_within_mono L L' o : (L <= L')%nat -> op_within L o -> op_within L' o.
Proof. destruct o; cbn; auto. lia. Qed.

Lemma op_within_valid L o : N.of_nat L < 4294967296 -> op_within L o -> valid_op o.
Proof. destruct o; cbn; auto. unfold nlen. lia. Qed.

Lemma script_step_within c r o rest :
  script_step c r = Some (o, rest) -> op_within (length r) o.
Proof.
  unfold script_step. destruct (78 <? c) eqn:E.
  { intro H; inversion H; subst. unfold opcode_op.
    destruct ((81 <=? c) && (c <=? 96)) eqn:E1; cbn; lia. }
  destruct (push_hdr c r) as [[n r']|] eqn:Eh; [|discriminate].
  apply push_hdr_length in Eh.
  destruct (nlen r' <? n); [discriminate|].
  intro H; inversion H; subst. destruct (c =? 0); cbn; [exact I|].
  rewrite firstn_length. lia.
Qed.

Lemma script_ops_within f : forall b l,
  script_ops f b = Some l -> Forall (op_within (length b)) l.
Proof.
  induction f as [|f IH]; intros b l H.
  - destruct b; [|discriminate]. rewrite script_ops_nil in H. inversion H. constructor.
  - destruct b as [|c r]. { rewrite script_ops_nil in H. inversion H. constructor. }
    rewrite script_ops_S in H.
    destruct (script_step c r) as [[o rest]|] eqn:E; [|discriminate].
    destruct (script_ops f rest) as [l0|] eqn:E0; [|discriminate].
    inversion H; subst. constructor.
    + apply script_step_within in E. eapply op_within_mono; [|exact E]. cbn; lia.
    + apply IH in E0. apply script_step_length in E.
      eapply Forall_impl; [|exact E0]. intros a Ha.
      eapply op_within_mono; [|exact Ha]. cbn; lia.
Qed.

(* ====================================================================== *)
(* clear_script                                                            *)
(* ====================================================================== *)

Lemma concat_zeros {A} (l : list A) : concat (map (fun _ => [0]) l) = repeat 0 (length l).
Proof. induction l; cbn; [reflexivity|f_equal; assumption]. Qed.

Lemma clear_script_of_ops sc ops o :
  script_ops (S (length sc)) sc = Some (ops ++ [o]) ->
  clear_script sc = Some (repeat 0 (length ops) ++ encode_op o).
Proof.
  intro H. unfold clear_script. rewrite H. rewrite rev_app_distr. cbn [rev app].
  rewrite removelast_last, concat_zeros. reflexivity.
Qed.

(* item 2 *)
Theorem clear_script_shape sc sc' :
  clear_script sc = Some sc' ->
  exists ops lastop,
    script_ops (S (length sc)) sc = Some (ops ++ [lastop]) /\
    sc' = repeat 0 (length ops) ++ encode_op lastop.
Proof.
  unfold clear_script. destruct (script_ops (S (length sc)) sc) as [l|]; [|discriminate].
  destruct (rev l) as [|o ro] eqn:E; [discriminate|].
  intro H; inversion H; subst; clear H.
  assert (Hl : l = rev ro ++ [o]). { rewrite <- (rev_involutive l), E. reflexivity. }
  exists (rev ro), o. subst l. split; [reflexivity|].
  rewrite removelast_last, concat_zeros. reflexivity.
Qed.

Theorem clear_script_none sc :
  clear_script sc = None <-> (sc = [] \/ script_ops (S (length sc)) sc = None).
Proof.
  unfold clear_script. split.
  - destruct (script_ops (S (length sc)) sc) as [l|] eqn:E; [|auto].
    destruct (rev l) as [|o ro] eqn:E1; [|discriminate]. intros _. left.
    assert (l = []). { rewrite <- (rev_involutive l), E1. reflexivity. }
    subst l. eapply script_ops_empty_inv; eassumption.
  - intros [->| ->]; reflexivity.
Qed.

Corollary clear_script_empty : clear_script [] = None.
Proof. reflexivity. Qed.

(* the operations of a cleared script *)
Lemma script_ops_of_cleared sc sc' :
  clear_script sc = Some sc' -> nlen sc < 4294967296 ->
  exists n o, valid_op o /\ sc' = repeat 0 n ++ encode_op o /\
              script_ops (S (length sc')) sc' = Some (repeat OpZero n ++ [norm_op o]).
Proof.
  intros H Hlen. destruct (clear_script_shape _ _ H) as (ops & o & Hops & ->).
  exists (length ops), o.
  assert (Hv : valid_op o).
  { apply script_ops_within in Hops. apply Forall_app in Hops. destruct Hops as [_ Ho].
    inversion Ho; subst. eapply op_within_valid; [|eassumption]. unfold nlen in Hlen. lia. }
  split; [assumption|]. split; [reflexivity|].
  apply script_ops_cleared; [assumption|]. rewrite app_length, repeat_length. lia.
Qed.

(* item 3, consequence: clearing is idempotent *)
Theorem clear_idempotent sc sc' :
  nlen sc < 4294967296 -> clear_script sc = Some sc' -> clear_script sc' = Some sc'.
Proof.
  intros Hlen H. destruct (script_ops_of_cleared _ _ H Hlen) as (n & o & Hv & Heq & Hops).
  rewrite (clear_script_of_ops _ _ _ Hops). rewrite repeat_length, encode_op_norm.
  rewrite Heq. reflexivity.
Qed.

(* item 4 for one script *)
Theorem clear_script_sig_independent a b opsa opsb o :
  script_ops (S (length a)) a = Some (opsa ++ [o]) ->
  script_ops (S (length b)) b = Some (opsb ++ [o]) ->
  length opsa = length opsb ->
  clear_script a = clear_script b.
Proof.
  intros Ha Hb Hl. rewrite (clear_script_of_ops _ _ _ Ha), (clear_script_of_ops _ _ _ Hb), Hl.
  reflexivity.
Qed.

(* ---------- examples: OP_0 <sig> <sig> <redeem script pushed with PUSHDATA1> ---------- *)

Definition ex_redeem : bytes := repeat 174 105.
Definition ex_script (s1 s2 : N) : bytes :=
  [0] ++ (71 :: repeat s1 71) ++ (72 :: repeat s2 72) ++ (76 :: 105 :: ex_redeem).
Definition ex_cleared : bytes := [0; 0; 0] ++ (76 :: 105 :: ex_redeem).

Example ex_clear_script : clear_script (ex_script 48 49) = Some ex_cleared.
Proof. vm_compute. reflexivity. Qed.

Example ex_clear_script_shape :
  script_ops (S (length (ex_script 48 49))) (ex_script 48 49)
  = Some ([OpZero; OpPush (repeat 48 71); OpPush (repeat 49 72)] ++ [OpPush ex_redeem]).
Proof. vm_compute. reflexivity. Qed.

Example ex_clear_idempotent : clear_script ex_cleared = Some ex_cleared.
Proof. vm_compute. reflexivity. Qed.

(* a non-minimal last push is re-encoded minimally; an empty last push becomes OP_0 *)
Example ex_clear_minimal : clear_script [1; 7; 76; 2; 1; 2] = Some [0; 2; 1; 2].
Proof. vm_compute. reflexivity. Qed.
Example ex_clear_empty_push : clear_script [81; 76; 0] = Some [0; 0].
Proof. vm_compute. reflexivity. Qed.
Example ex_clear_undecodable : clear_script [0; 5; 1; 2] = None.
Proof. vm_compute. reflexivity. Qed.

Example ex_sig_independent :
  clear_script (ex_script 48 49) = clear_script (ex_script 1 2).
Proof. vm_compute. reflexivity. Qed.

(* ====================================================================== *)
(* unsign_inputs / unsign_tx on the decoded record                         *)
(* ====================================================================== *)

(* input [i'] is input [i] with its script cleared *)
Definition cleared_input (i i' : txin) : Prop :=
  in_outpoint i' = in_outpoint i /\ in_sequence i' = in_sequence i /\
  clear_script (in_script i) = Some (in_script i').

Lemma unsign_inputs_spec l : forall l',
  unsign_inputs l = Some l' -> Forall2 cleared_input l l'.
Proof.
  induction l as [|i r IH]; intros l' H; cbn [unsign_inputs] in H.
  - inversion H. constructor.
  - destruct (clear_script (in_script i)) as [sc|] eqn:E; [|discriminate].
    destruct (unsign_inputs r) as [r'|]; [|discriminate].
    inversion H; subst. constructor; [|apply IH; reflexivity].
    unfold cleared_input. cbn. auto.
Qed.

Lemma cleared_inputs_fields l l' :
  Forall2 cleared_input l l' ->
  map in_outpoint l' = map in_outpoint l /\ map in_sequence l' = map in_sequence l /\
  length l' = length l.
Proof.
  induction 1 as [|i i' l l' (Ho & Hs & _) _ (IH1 & IH2 & IH3)]; [auto|].
  cbn. rewrite Ho, Hs, IH1, IH2, IH3. auto.
Qed.

(* the record that unsign_tx serialises *)
Definition unsigned_of (t : tx) (vin' : list txin) : tx :=
  mkTx (tx_version t) vin' (tx_vout t) (tx_wit t) (tx_locktime t).

Lemma unsign_tx_inv raw u :
  unsign_tx raw = Some u ->
  exists t vin', deserialize_tx raw = Some t /\ unsign_inputs (tx_vin t) = Some vin' /\
                 u = serialize_tx (unsigned_of t vin').
Proof.
  unfold unsign_tx. destruct (deserialize_tx raw) as [t|]; [|discriminate].
  destruct (unsign_inputs (tx_vin t)) as [vin'|] eqn:E; [|discriminate].
  intro H; inversion H. exists t, vin'. auto.
Qed.

(* item 1, on the record serialised by unsign_tx *)
Theorem unsign_preserves_record raw t u :
  deserialize_tx raw = Some t -> unsign_tx raw = Some u ->
  exists t', u = serialize_tx t' /\
    tx_version t' = tx_version t /\
    map in_outpoint (tx_vin t') = map in_outpoint (tx_vin t) /\
    map in_sequence (tx_vin t') = map in_sequence (tx_vin t) /\
    length (tx_vin t') = length (tx_vin t) /\
    tx_vout t' = tx_vout t /\ tx_wit t' = tx_wit t /\ tx_locktime t' = tx_locktime t /\
    Forall2 cleared_input (tx_vin t) (tx_vin t').
Proof.
  intros Hd Hu. destruct (unsign_tx_inv _ _ Hu) as (t0 & vin' & Hd0 & Hi & ->).
  rewrite Hd in Hd0. inversion Hd0; subst t0; clear Hd0.
  exists (unsigned_of t vin'). apply unsign_inputs_spec in Hi.
  destruct (cleared_inputs_fields _ _ Hi) as (H1 & H2 & H3).
  cbn. repeat split; assumption.
Qed.

(* ---------- item 4: independence from the signatures present ---------- *)

(* two inputs that differ only in the non-final operations of their scripts *)
Definition same_but_sigs (i j : txin) : Prop :=
  in_outpoint i = in_outpoint j /\ in_sequence i = in_sequence j /\
  exists opsi opsj o,
    script_ops (S (length (in_script i))) (in_script i) = Some (opsi ++ [o]) /\
    script_ops (S (length (in_script j))) (in_script j) = Some (opsj ++ [o]) /\
    length opsi = length opsj.

Lemma unsign_inputs_sig_independent l1 l2 :
  Forall2 same_but_sigs l1 l2 -> unsign_inputs l1 = unsign_inputs l2.
Proof.
  induction 1 as [|i j l1 l2 (Ho & Hs & oi & oj & o & Hi & Hj & Hl) _ IH]; [reflexivity|].
  cbn [unsign_inputs]. rewrite (clear_script_sig_independent _ _ _ _ _ Hi Hj Hl), IH, Ho, Hs.
  reflexivity.
Qed.

Theorem unsign_signature_independent raw1 raw2 t1 t2 :
  deserialize_tx raw1 = Some t1 -> deserialize_tx raw2 = Some t2 ->
  tx_version t1 = tx_version t2 -> tx_vout t1 = tx_vout t2 -> tx_wit t1 = tx_wit t2 ->
  tx_locktime t1 = tx_locktime t2 ->
  Forall2 same_but_sigs (tx_vin t1) (tx_vin t2) ->
  unsign_tx raw1 = unsign_tx raw2.
Proof.
  intros H1 H2 Hv Ho Hw Hl Hi. unfold unsign_tx. rewrite H1, H2.
  rewrite (unsign_inputs_sig_independent _ _ Hi), Hv, Ho, Hw, Hl. reflexivity.
Qed.

(* ====================================================================== *)
(* item 5: deserialize_tx (serialize_tx t) = Some t                        *)
(* ====================================================================== *)

Local Notation two64 := 18446744073709551616.
Local Notation two32 := 4294967296.

Lemma read_varint_varint n rest : n < two64 -> read_varint (varint n ++ rest) = Some (n, rest).
Proof.
  intro H. unfold varint.
  destruct (n <? 253) eqn:E1. { cbn [app read_varint]. rewrite E1. reflexivity. }
  destruct (n <=? 65535) eqn:E2.
  { cbn [app]. unfold read_varint. change (253 <? 253) with false.
    change (253 =? 253) with true. cbn beta iota zeta.
    rewrite read_n_app by apply le_bytes_length. rewrite from_le_2 by lia. reflexivity. }
  destruct (n <=? 4294967295) eqn:E3.
  { cbn [app]. unfold read_varint. change (254 <? 253) with false.
    change (254 =? 253) with false. change (254 =? 254) with true. cbn beta iota zeta.
    rewrite read_n_app by apply le_bytes_length. rewrite from_le_4 by lia. reflexivity. }
  cbn [app]. unfold read_varint. change (255 <? 253) with false.
  change (255 =? 253) with false. change (255 =? 254) with false. cbn beta iota zeta.
  rewrite read_n_app by apply le_bytes_length. rewrite from_le_8 by lia. reflexivity.
Qed.

Lemma varint_head n : n <> 0 -> exists c r, varint n = c :: r /\ c <> 0.
Proof.
  intro H. unfold varint. destruct (n <? 253). { exists n, []. auto. }
  destruct (n <=? 65535). { eexists _, _. split; [reflexivity|lia]. }
  destruct (n <=? 4294967295); eexists _, _; (split; [reflexivity|lia]).
Qed.

Lemma read_var_bytes_ser d rest :
  nlen d < two64 -> read_var_bytes (ser_var_bytes d ++ rest) = Some (d, rest).
Proof.
  intro H. unfold read_var_bytes, ser_var_bytes. rewrite <- app_assoc.
  rewrite read_varint_varint by assumption. rewrite nlen_app.
  destruct (nlen d <=? nlen d + nlen rest) eqn:E; [|lia].
  rewrite nlen_to_nat. apply read_n_app. reflexivity.
Qed.

Definition wf_txin (i : txin) : Prop :=
  length (in_outpoint i) = 36%nat /\ length (in_sequence i) = 4%nat /\ nlen (in_script i) < two64.
Definition wf_txout (o : txout) : Prop :=
  length (out_value o) = 8%nat /\ nlen (out_script o) < two64.
Definition wf_stack (st : list bytes) : Prop :=
  nlen st < two64 /\ Forall (fun d => nlen d < two64) st.

Lemma read_txin_ser i rest : wf_txin i -> read_txin (ser_txin i ++ rest) = Some (i, rest).
Proof.
  intros (H1 & H2 & H3). unfold read_txin, ser_txin. rewrite <- !app_assoc.
  rewrite read_n_app by assumption. rewrite read_var_bytes_ser by assumption.
  rewrite read_n_app by assumption. destruct i; reflexivity.
Qed.

Lemma read_txout_ser o rest : wf_txout o -> read_txout (ser_txout o ++ rest) = Some (o, rest).
Proof.
  intros (H1 & H2). unfold read_txout, ser_txout. rewrite <- !app_assoc.
  rewrite read_n_app by assumption. rewrite read_var_bytes_ser by assumption.
  destruct o; reflexivity.
Qed.

Lemma read_items_0 {A} (rd : bytes -> option (A * bytes)) fuel b :
  read_items rd fuel 0 b = Some ([], b).
Proof. destruct fuel; reflexivity. Qed.

Lemma read_items_S {A} (rd : bytes -> option (A * bytes)) f n b :
  n <> 0 ->
  read_items rd (S f) n b =
  match rd b with
  | Some (a, r) => match read_items rd f (n - 1) r with
                   | Some (l, r') => Some (a :: l, r')
                   | None => None
                   end
  | None => None
  end.
Proof. intro H. cbn [read_items]. destruct (n =? 0) eqn:E; [lia|reflexivity]. Qed.

Lemma read_items_fuel0 {A} (rd : bytes -> option (A * bytes)) n b :
  n <> 0 -> read_items rd O n b = None.
Proof. intro H. cbn [read_items]. destruct (n =? 0) eqn:E; [lia|reflexivity]. Qed.

Lemma read_items_ser {A} (rd : bytes -> option (A * bytes)) (ser : A -> bytes) l :
  forall fuel rest,
    (forall x, In x l -> forall rest, rd (ser x ++ rest) = Some (x, rest)) ->
    (length l <= fuel)%nat ->
    read_items rd fuel (nlen l) (concat (map ser l) ++ rest) = Some (l, rest).
Proof.
  induction l as [|x l IH]; intros fuel rest Hrd Hf.
  - apply read_items_0.
  - destruct fuel as [|fuel]; [cbn in Hf; lia|].
    rewrite read_items_S by (rewrite nlen_cons; lia).
    cbn [map concat]. rewrite <- app_assoc. rewrite Hrd by (left; reflexivity).
    replace (nlen (x :: l) - 1) with (nlen l) by (rewrite nlen_cons; lia).
    rewrite IH; [reflexivity| |cbn in Hf; lia].
    intros y Hy. apply Hrd. right; assumption.
Qed.

Lemma concat_length_ge {A} (ser : A -> bytes) l :
  (forall x, In x l -> (1 <= length (ser x))%nat) ->
  (length l <= length (concat (map ser l)))%nat.
Proof.
  induction l as [|x l IH]; intro H; [cbn; lia|].
  cbn [map concat length]. rewrite app_length.
  specialize (H x (or_introl eq_refl)) as Hx.
  specialize (IH (fun y Hy => H y (or_intror Hy))). lia.
Qed.

Lemma read_vector_ser {A} (rd : bytes -> option (A * bytes)) (ser : A -> bytes) l rest :
  nlen l < two64 ->
  (forall x, In x l -> forall rest, rd (ser x ++ rest) = Some (x, rest)) ->
  (forall x, In x l -> (1 <= length (ser x))%nat) ->
  read_vector rd (varint (nlen l) ++ concat (map ser l) ++ rest) = Some (l, rest).
Proof.
  intros Hn Hrd Hlen. unfold read_vector. rewrite read_varint_varint by assumption.
  apply read_items_ser; [assumption|].
  rewrite app_length. pose proof (concat_length_ge ser l Hlen). lia.
Qed.

Lemma varint_length n : (1 <= length (varint n))%nat.
Proof.
  unfold varint. destruct (n <? 253); [cbn; lia|].
  destruct (n <=? 65535); [cbn; lia|]. destruct (n <=? 4294967295); cbn; lia.
Qed.

Lemma ser_var_bytes_length d : (1 <= length (ser_var_bytes d))%nat.
Proof. unfold ser_var_bytes. rewrite app_length. pose proof (varint_length (nlen d)). lia. Qed.

Lemma ser_txin_length i : wf_txin i -> (1 <= length (ser_txin i))%nat.
Proof. intros (H & _). unfold ser_txin. rewrite app_length. lia. Qed.

Lemma ser_txout_length o : wf_txout o -> (1 <= length (ser_txout o))%nat.
Proof. intros (H & _). unfold ser_txout. rewrite app_length. lia. Qed.

Lemma read_witness_stack_ser st rest :
  wf_stack st -> read_witness_stack (ser_stack st ++ rest) = Some (st, rest).
Proof.
  intros (H1 & H2). unfold read_witness_stack, ser_stack. rewrite <- app_assoc.
  apply read_vector_ser; [assumption| |].
  - intros d Hd rest'. apply read_var_bytes_ser. rewrite Forall_forall in H2. auto.
  - intros d _. apply ser_var_bytes_length.
Qed.

Lemma read_witnesses_ser w rest :
  Forall wf_stack w ->
  read_witnesses (length w) (concat (map ser_stack w) ++ rest) = Some (w, rest).
Proof.
  induction 1 as [|st w Hst _ IH]; [reflexivity|].
  cbn [length map concat read_witnesses]. rewrite <- app_assoc.
  rewrite read_witness_stack_ser by assumption. rewrite IH. reflexivity.
Qed.

(* the part of deserialize_tx after the marker/flag test *)
Definition read_body (segwit : bool) (ver body : bytes) : option tx :=
  match read_vector read_txin body with
  | None => None
  | Some (vin, r2) =>
      match read_vector read_txout r2 with
      | None => None
      | Some (vout, r3) =>
          match (if segwit then read_witnesses (length vin) r3 else Some ([], r3)) with
          | None => None
          | Some (wit, r4) =>
              match read_n 4 r4 with
              | Some (lt, []) => Some (mkTx ver vin vout wit lt)
              | _ => None
              end
          end
      end
  end.

Lemma deserialize_tx_body b :
  deserialize_tx b =
  match read_n 4 b with
  | None => None
  | Some (ver, r0) =>
      match read_n 2 r0 with
      | None => None
      | Some (mf, r1) =>
          read_body (bytes_eqb mf [0; 1]) ver (if bytes_eqb mf [0; 1] then r1 else r0)
      end
  end.
Proof. reflexivity. Qed.

Record wf_tx (t : tx) : Prop := {
  wf_version : length (tx_version t) = 4%nat;
  wf_locktime : length (tx_locktime t) = 4%nat;
  wf_vin : Forall wf_txin (tx_vin t);
  wf_vin_count : nlen (tx_vin t) < two64;
  wf_vout : Forall wf_txout (tx_vout t);
  wf_vout_count : nlen (tx_vout t) < two64;
  wf_wit : Forall wf_stack (tx_wit t);
  wf_wit_count : tx_wit t = [] \/ length (tx_wit t) = length (tx_vin t)
}.

Lemma read_body_ser sw t :
  wf_tx t -> (sw = true -> length (tx_wit t) = length (tx_vin t)) ->
  read_body sw (tx_version t)
    (varint (nlen (tx_vin t)) ++ concat (map ser_txin (tx_vin t)) ++
     varint (nlen (tx_vout t)) ++ concat (map ser_txout (tx_vout t)) ++
     (if sw then concat (map ser_stack (tx_wit t)) else []) ++ tx_locktime t)
  = Some (mkTx (tx_version t) (tx_vin t) (tx_vout t) (if sw then tx_wit t else [])
               (tx_locktime t)).
Proof.
  intros W Hsw. unfold read_body.
  pose proof (wf_vin t W) as Hvin. pose proof (wf_vout t W) as Hvout.
  rewrite Forall_forall in Hvin, Hvout.
  rewrite read_vector_ser;
    [| apply W | intros; apply read_txin_ser; auto | intros; apply ser_txin_length; auto].
  rewrite read_vector_ser;
    [| apply W | intros; apply read_txout_ser; auto | intros; apply ser_txout_length; auto].
  destruct sw.
  - rewrite <- (Hsw eq_refl). rewrite read_witnesses_ser by apply W.
    rewrite read_n_all by apply W. reflexivity.
  - cbn [app]. rewrite read_n_all by apply W. reflexivity.
Qed.

Lemma bytes_eqb_01 c x r : c <> 0 -> bytes_eqb (firstn 2 (c :: x :: r)) [0; 1] = false.
Proof.
  intro H. cbn [firstn]. unfold bytes_eqb. cbn [list_eqb].
  destruct (c =? 0) eqn:E; [lia|reflexivity].
Qed.

Lemma read2_legacy c r :
  c <> 0 -> r <> [] ->
  exists mf r1, read_n 2 (c :: r) = Some (mf, r1) /\ bytes_eqb mf [0; 1] = false.
Proof.
  intros Hc Hr. destruct r as [|x r]; [congruence|].
  eexists _, _. split; [reflexivity|]. apply bytes_eqb_01. assumption.
Qed.

Theorem deserialize_serialize t :
  wf_tx t -> tx_vin t <> [] ->
  (tx_wit t = [] \/ wit_is_null (tx_wit t) = false) ->
  deserialize_tx (serialize_tx t) = Some t.
Proof.
  intros W Hne Hw. rewrite deserialize_tx_body. unfold serialize_tx.
  rewrite read_n_app by apply W.
  destruct (wit_is_null (tx_wit t)) eqn:Enull; cbn [negb].
  - (* legacy *)
    assert (Hwit : tx_wit t = []) by (destruct Hw; [assumption|discriminate]).
    cbn [app].
    assert (Hn : nlen (tx_vin t) <> 0).
    { destruct (tx_vin t); [congruence|]. rewrite nlen_cons. lia. }
    destruct (varint_head _ Hn) as (c & r & Hvar & Hc).
    pose proof (read_body_ser false t W) as Hb. cbn [app] in Hb.
    remember (concat (map ser_txin (tx_vin t)) ++
              varint (nlen (tx_vout t)) ++ concat (map ser_txout (tx_vout t)) ++ tx_locktime t)
      as tail eqn:Htail.
    assert (Htl : tail <> []).
    { subst tail. intro Hnil. apply (f_equal (@length N)) in Hnil.
      rewrite !app_length in Hnil. pose proof (wf_locktime t W). cbn [length] in Hnil. lia. }
    rewrite Hvar in *. cbn [app] in *.
    destruct (read2_legacy c (r ++ tail) Hc) as (mf & r1 & Hr & Hmf).
    { destruct r; [assumption|discriminate]. }
    rewrite Hr, Hmf. rewrite Hb by discriminate. destruct t; cbn in *. subst. reflexivity.
  - (* segwit *)
    assert (Hlen : length (tx_wit t) = length (tx_vin t)).
    { destruct (wf_wit_count t W) as [E|E]; [|assumption]. rewrite E in Enull. discriminate. }
    change ([0; 1] ++ ?x) with (0 :: 1 :: x).
    unfold read_n at 1. cbn [length Nat.leb skipn firstn].
    change (bytes_eqb [0; 1] [0; 1]) with true. cbn iota.
    rewrite (read_body_ser true t W) by auto. destruct t; reflexivity.
Qed.

(* ====================================================================== *)
(* what deserialize_tx produces: field widths and sizes bounded by the input *)
(* ====================================================================== *)

Lemma read_varint_shorter b n r : read_varint b = Some (n, r) -> (length r < length b)%nat.
Proof.
  destruct b as [|x b]; [discriminate|]. unfold read_varint.
  destruct (x <? 253). { intro H; inversion H; subst; cbn; lia. }
  cbv zeta.
  match goal with |- context [read_n ?k b] => destruct (read_n k b) as [[v r']|] eqn:E end;
    [|discriminate].
  intro H; inversion H; subst. apply read_n_inv in E. destruct E as [-> _].
  cbn [length]. rewrite app_length. lia.
Qed.

Lemma read_var_bytes_inv b d r :
  read_var_bytes b = Some (d, r) -> (length d + length r < length b)%nat.
Proof.
  unfold read_var_bytes. destruct (read_varint b) as [[n r0]|] eqn:E; [|discriminate].
  apply read_varint_shorter in E. destruct (n <=? nlen r0); [|discriminate].
  intro H. apply read_n_inv in H. destruct H as [-> _]. rewrite app_length in E. lia.
Qed.

Definition txin_within (L : nat) (i : txin) : Prop :=
  length (in_outpoint i) = 36%nat /\ length (in_sequence i) = 4%nat /\
  (length (in_script i) <= L)%nat.
Definition txout_within (L : nat) (o : txout) : Prop :=
  length (out_value o) = 8%nat /\ (length (out_script o) <= L)%nat.
Definition item_within (L : nat) (d : bytes) : Prop := (length d <= L)%nat.
Definition stack_within (L : nat) (st : list bytes) : Prop :=
  (length st <= L)%nat /\ Forall (item_within L) st.

Lemma read_txin_inv b i r :
  read_txin b = Some (i, r) -> (length r <= length b)%nat /\ txin_within (length b) i.
Proof.
  unfold read_txin. destruct (read_n 36 b) as [[op r1]|] eqn:E1; [|discriminate].
  destruct (read_var_bytes r1) as [[sc r2]|] eqn:E2; [|discriminate].
  destruct (read_n 4 r2) as [[sq r3]|] eqn:E3; [|discriminate].
  intro H; inversion H; subst; clear H.
  apply read_n_inv in E1, E3. destruct E1 as [-> H1]. destruct E3 as [-> H3].
  apply read_var_bytes_inv in E2. rewrite !app_length in *.
  unfold txin_within. cbn. lia.
Qed.

Lemma read_txout_inv b o r :
  read_txout b = Some (o, r) -> (length r <= length b)%nat /\ txout_within (length b) o.
Proof.
  unfold read_txout. destruct (read_n 8 b) as [[v r1]|] eqn:E1; [|discriminate].
  destruct (read_var_bytes r1) as [[sc r2]|] eqn:E2; [|discriminate].
  intro H; inversion H; subst; clear H.
  apply read_n_inv in E1. destruct E1 as [-> H1].
  apply read_var_bytes_inv in E2. rewrite !app_length in *.
  unfold txout_within. cbn. lia.
Qed.

Lemma read_item_inv b d r :
  read_var_bytes b = Some (d, r) -> (length r <= length b)%nat /\ item_within (length b) d.
Proof. intro H. apply read_var_bytes_inv in H. unfold item_within. lia. Qed.

Section ReadItemsInv.
  Context {A : Type} (rd : bytes -> option (A * bytes)) (P : nat -> A -> Prop).
  Hypothesis P_mono : forall L L' x, (L <= L')%nat -> P L x -> P L' x.
  Hypothesis rd_inv : forall b x r,
      rd b = Some (x, r) -> (length r <= length b)%nat /\ P (length b) x.

  Lemma read_items_inv fuel : forall n b l r,
    read_items rd fuel n b = Some (l, r) ->
    (length r <= length b)%nat /\ Forall (P (length b)) l /\ nlen l = n /\
    (length l <= fuel)%nat.
  Proof.
    induction fuel as [|f IH]; intros n b l r H.
    - destruct (N.eq_dec n 0) as [->|Hn].
      + rewrite read_items_0 in H. inversion H; subst. cbn. repeat split; auto; lia.
      + rewrite read_items_fuel0 in H by assumption. discriminate.
    - destruct (N.eq_dec n 0) as [->|Hn].
      + rewrite read_items_0 in H. inversion H; subst. cbn. repeat split; auto; lia.
      + rewrite read_items_S in H by assumption.
        destruct (rd b) as [[a r0]|] eqn:E; [|discriminate].
        destruct (read_items rd f (n - 1) r0) as [[l0 r1]|] eqn:E0; [|discriminate].
        inversion H; subst; clear H.
        apply rd_inv in E. destruct E as [Hr0 Ha].
        apply IH in E0. destruct E0 as (Hr & Hl0 & Hn0 & Hf).
        split; [lia|]. split.
        { constructor; [assumption|]. eapply Forall_impl; [|exact Hl0].
          intros y Hy. eapply P_mono; [|exact Hy]. assumption. }
        split; [rewrite nlen_cons; lia|cbn [length]; lia].
  Qed.

  Lemma read_vector_inv b l r :
    read_vector rd b = Some (l, r) ->
    (length r <= length b)%nat /\ Forall (P (length b)) l /\ (length l <= length b)%nat.
  Proof.
    unfold read_vector. destruct (read_varint b) as [[n r0]|] eqn:E; [|discriminate].
    apply read_varint_shorter in E. intro H. apply read_items_inv in H.
    destruct H as (Hr & Hl & _ & Hf). split; [lia|]. split; [|lia].
    eapply Forall_impl; [|exact Hl]. intros y Hy. eapply P_mono; [|exact Hy]. lia.
  Qed.
End ReadItemsInv.

Lemma txin_within_mono L L' i : (L <= L')%nat -> txin_within L i -> txin_within L' i.
Proof. unfold txin_within. intuition lia. Qed.
Lemma txout_within_mono L L' o : (L <= L')%nat -> txout_within L o -> txout_within L' o.
Proof. unfold txout_within. intuition lia. Qed.
Lemma item_within_mono L L' d : (L <= L')%nat -> item_within L d -> item_within L' d.
Proof. unfold item_within. lia. Qed.
Lemma stack_within_mono L L' st : (L <= L')%nat -> stack_within L st -> stack_within L' st.
Proof.
  unfold stack_within. intros HL [H1 H2]. split; [lia|].
  eapply Forall_impl; [|exact H2]. intros d. apply item_within_mono. assumption.
Qed.

Lemma read_witness_stack_inv b st r :
  read_witness_stack b = Some (st, r) ->
  (length r <= length b)%nat /\ stack_within (length b) st.
Proof.
  unfold read_witness_stack. intro H.
  apply (read_vector_inv read_var_bytes item_within item_within_mono read_item_inv) in H.
  unfold stack_within. intuition.
Qed.

Lemma read_witnesses_inv k : forall b w r,
  read_witnesses k b = Some (w, r) ->
  length w = k /\ (length r <= length b)%nat /\ Forall (stack_within (length b)) w.
Proof.
  induction k as [|k IH]; intros b w r H; cbn [read_witnesses] in H.
  - inversion H; subst. auto.
  - destruct (read_witness_stack b) as [[st r0]|] eqn:E; [|discriminate].
    destruct (read_witnesses k r0) as [[l r1]|] eqn:E0; [|discriminate].
    inversion H; subst; clear H. apply read_witness_stack_inv in E. destruct E as [Hr0 Hst].
    apply IH in E0. destruct E0 as (Hl & Hr & Hw).
    split; [cbn; lia|]. split; [lia|]. constructor; [assumption|].
    eapply Forall_impl; [|exact Hw]. intros y. apply stack_within_mono. assumption.
Qed.

Record tx_within (L : nat) (t : tx) : Prop := {
  tw_version : length (tx_version t) = 4%nat;
  tw_locktime : length (tx_locktime t) = 4%nat;
  tw_vin : Forall (txin_within L) (tx_vin t);
  tw_vin_count : (length (tx_vin t) <= L)%nat;
  tw_vout : Forall (txout_within L) (tx_vout t);
  tw_vout_count : (length (tx_vout t) <= L)%nat;
  tw_wit : Forall (stack_within L) (tx_wit t);
  tw_wit_count : tx_wit t = [] \/ length (tx_wit t) = length (tx_vin t)
}.

Lemma read_body_within sw ver body t :
  read_body sw ver body = Some t ->
  tx_version t = ver /\
  length (tx_locktime t) = 4%nat /\
  Forall (txin_within (length body)) (tx_vin t) /\ (length (tx_vin t) <= length body)%nat /\
  Forall (txout_within (length body)) (tx_vout t) /\ (length (tx_vout t) <= length body)%nat /\
  Forall (stack_within (length body)) (tx_wit t) /\
  (tx_wit t = [] \/ length (tx_wit t) = length (tx_vin t)).
Proof.
  unfold read_body.
  destruct (read_vector read_txin body) as [[vin r2]|] eqn:E1; [|discriminate].
  destruct (read_vector read_txout r2) as [[vout r3]|] eqn:E2; [|discriminate].
  apply (read_vector_inv read_txin txin_within txin_within_mono read_txin_inv) in E1.
  apply (read_vector_inv read_txout txout_within txout_within_mono read_txout_inv) in E2.
  destruct E1 as (Hr2 & Hvin & Hnvin). destruct E2 as (Hr3 & Hvout & Hnvout).
  destruct (if sw then read_witnesses (length vin) r3 else Some ([], r3)) as [[wit r4]|] eqn:E3;
    [|discriminate].
  destruct (read_n 4 r4) as [[lt [|]]|] eqn:E4; try discriminate.
  intro H; inversion H; subst; clear H. cbn.
  apply read_n_inv in E4. destruct E4 as [_ Hlt].
  assert (Hw : Forall (stack_within (length body)) wit /\ (wit = [] \/ length wit = length vin)).
  { destruct sw.
    - apply read_witnesses_inv in E3. destruct E3 as (Hl & Hr & Hw). split; [|auto].
      eapply Forall_impl; [|exact Hw]. intros y. apply stack_within_mono. lia.
    - inversion E3; subst. auto. }
  destruct Hw as [Hw1 Hw2].
  repeat split; try assumption; try lia.
  eapply Forall_impl; [|exact Hvout]. intros y. apply txout_within_mono. lia.
Qed.

Theorem deserialize_within raw t : deserialize_tx raw = Some t -> tx_within (length raw) t.
Proof.
  rewrite deserialize_tx_body.
  destruct (read_n 4 raw) as [[ver r0]|] eqn:E0; [|discriminate].
  destruct (read_n 2 r0) as [[mf r1]|] eqn:E1; [|discriminate].
  apply read_n_inv in E0, E1. destruct E0 as [-> Hver]. destruct E1 as [-> Hmf].
  intro H. apply read_body_within in H.
  destruct H as (Hv & Hlt & Hvin & Hnvin & Hvout & Hnvout & Hwit & Hwc).
  set (body := if bytes_eqb mf [0; 1] then r1 else mf ++ r1) in *.
  assert (HL : (length body <= length (ver ++ mf ++ r1))%nat).
  { subst body. destruct (bytes_eqb mf [0; 1]); rewrite !app_length; lia. }
  constructor; try assumption; try lia.
  - rewrite Hv. assumption.
  - eapply Forall_impl; [|exact Hvin]. intros y. apply txin_within_mono. assumption.
  - eapply Forall_impl; [|exact Hvout]. intros y. apply txout_within_mono. assumption.
  - eapply Forall_impl; [|exact Hwit]. intros y. apply stack_within_mono. assumption.
Qed.

Lemma tx_within_wf L t : N.of_nat L < two64 -> tx_within L t -> wf_tx t.
Proof.
  intros HL W. constructor; try apply W.
  - eapply Forall_impl; [|apply (tw_vin L t W)]. unfold txin_within, wf_txin, nlen.
    intros i. intuition lia.
  - pose proof (tw_vin_count L t W). unfold nlen. lia.
  - eapply Forall_impl; [|apply (tw_vout L t W)]. unfold txout_within, wf_txout, nlen.
    intros o. intuition lia.
  - pose proof (tw_vout_count L t W). unfold nlen. lia.
  - eapply Forall_impl; [|apply (tw_wit L t W)]. unfold stack_within, wf_stack, nlen.
    intros st [H1 H2]. split; [lia|]. eapply Forall_impl; [|exact H2].
    unfold item_within. intros d. lia.
Qed.

(* ====================================================================== *)
(* re-reading the unsigned form                                            *)
(* ====================================================================== *)

(* a segwit-read transaction whose witness stacks are all empty is serialised in legacy form
   and therefore re-read with no witness list at all *)
Definition norm_wit (t : tx) : tx :=
  if wit_is_null (tx_wit t)
  then mkTx (tx_version t) (tx_vin t) (tx_vout t) [] (tx_locktime t) else t.

Lemma serialize_norm_wit t : serialize_tx (norm_wit t) = serialize_tx t.
Proof.
  unfold norm_wit. destruct (wit_is_null (tx_wit t)) eqn:E; [|reflexivity].
  unfold serialize_tx. cbn [tx_wit tx_version tx_vin tx_vout tx_locktime wit_is_null forallb].
  rewrite E. reflexivity.
Qed.

Lemma wf_norm_wit t : wf_tx t -> wf_tx (norm_wit t).
Proof.
  intro W. unfold norm_wit. destruct (wit_is_null (tx_wit t)); [|assumption].
  constructor; cbn; try apply W; auto.
Qed.

Theorem deserialize_serialize_norm t :
  wf_tx t -> tx_vin t <> [] -> deserialize_tx (serialize_tx t) = Some (norm_wit t).
Proof.
  intros W Hne. rewrite <- serialize_norm_wit. apply deserialize_serialize.
  - apply wf_norm_wit; assumption.
  - unfold norm_wit. destruct (wit_is_null (tx_wit t)); assumption.
  - unfold norm_wit. destruct (wit_is_null (tx_wit t)) eqn:E; cbn; auto.
Qed.

Lemma encode_op_length L o : op_within L o -> (length (encode_op o) <= 5 + L)%nat.
Proof.
  destruct o as [|d|n|c]; cbn [encode_op op_within]; intro H; try (cbn; lia).
  unfold encode_push. destruct (nlen d <? 76); [cbn [length]; lia|].
  destruct (nlen d <=? 255); [cbn [length]; lia|].
  destruct (nlen d <=? 65535); cbn [length]; rewrite app_length, le_bytes_length; lia.
Qed.

Lemma clear_script_length sc sc' :
  clear_script sc = Some sc' -> (length sc' <= 2 * length sc + 5)%nat.
Proof.
  intro H. destruct (clear_script_shape _ _ H) as (ops & o & Hops & ->).
  pose proof (script_ops_length _ _ _ Hops) as Hl.
  apply script_ops_within in Hops. apply Forall_app in Hops. destruct Hops as [_ Ho].
  inversion Ho; subst. match goal with H : op_within _ o |- _ => apply encode_op_length in H end.
  rewrite app_length in *. rewrite repeat_length. cbn [length] in Hl. lia.
Qed.

Lemma unsigned_within L t vin' :
  tx_within L t -> Forall2 cleared_input (tx_vin t) vin' ->
  tx_within (2 * L + 5) (unsigned_of t vin').
Proof.
  intros W Hc. destruct (cleared_inputs_fields _ _ Hc) as (_ & _ & Hlen).
  constructor; cbn [unsigned_of tx_version tx_vin tx_vout tx_wit tx_locktime]; try apply W.
  - pose proof (tw_vin L t W) as Hvin. revert Hvin. clear Hlen.
    induction Hc as [|i i' l l' (Ho & Hs & Hcl) _ IH]; intro Hvin; [constructor|].
    inversion Hvin as [|? ? (H1 & H2 & H3) Hrest]; subst. constructor; [|auto].
    unfold txin_within. rewrite Ho, Hs. apply clear_script_length in Hcl. lia.
  - pose proof (tw_vin_count L t W). lia.
  - eapply Forall_impl; [|apply (tw_vout L t W)]. intros y. apply txout_within_mono. lia.
  - pose proof (tw_vout_count L t W). lia.
  - eapply Forall_impl; [|apply (tw_wit L t W)]. intros y. apply stack_within_mono. lia.
  - rewrite Hlen. apply W.
Qed.

(* item 1: the relayed form, read back *)
Theorem unsign_preserves raw t u :
  deserialize_tx raw = Some t -> unsign_tx raw = Some u ->
  nlen raw < two32 -> tx_vin t <> [] ->
  exists t', deserialize_tx u = Some t' /\
    tx_version t' = tx_version t /\
    map in_outpoint (tx_vin t') = map in_outpoint (tx_vin t) /\
    map in_sequence (tx_vin t') = map in_sequence (tx_vin t) /\
    length (tx_vin t') = length (tx_vin t) /\
    tx_vout t' = tx_vout t /\
    tx_wit t' = (if wit_is_null (tx_wit t) then [] else tx_wit t) /\
    tx_locktime t' = tx_locktime t /\
    Forall2 cleared_input (tx_vin t) (tx_vin t').
Proof.
  intros Hd Hu Hlen Hne. destruct (unsign_tx_inv _ _ Hu) as (t0 & vin' & Hd0 & Hi & ->).
  rewrite Hd in Hd0. inversion Hd0; subst t0; clear Hd0.
  apply unsign_inputs_spec in Hi.
  destruct (cleared_inputs_fields _ _ Hi) as (H1 & H2 & H3).
  exists (norm_wit (unsigned_of t vin')). split.
  - apply deserialize_serialize_norm.
    + apply (tx_within_wf (2 * length raw + 5)); [unfold nlen in Hlen; lia|].
      apply unsigned_within; [apply deserialize_within|]; assumption.
    + cbn. destruct vin'; [|discriminate]. destruct (tx_vin t); [congruence|discriminate].
  - unfold norm_wit, unsigned_of. cbn [tx_wit].
    destruct (wit_is_null (tx_wit t)); cbn; repeat split; assumption.
Qed.

Lemma unsign_inputs_idem l l' :
  Forall (fun i => nlen (in_script i) < two32) l ->
  Forall2 cleared_input l l' -> unsign_inputs l' = Some l'.
Proof.
  intros Hb Hc. induction Hc as [|i i' l l' (Ho & Hs & Hcl) _ IH]; [reflexivity|].
  inversion Hb; subst. cbn [unsign_inputs].
  rewrite (clear_idempotent _ _ ltac:(eassumption) Hcl), IH by assumption.
  destruct i'; reflexivity.
Qed.

(* item 5: applying the transformation again changes nothing *)
Theorem unsign_idempotent raw t u :
  deserialize_tx raw = Some t -> unsign_tx raw = Some u ->
  nlen raw < two32 -> tx_vin t <> [] ->
  unsign_tx u = Some u.
Proof.
  intros Hd Hu Hlen Hne. destruct (unsign_tx_inv _ _ Hu) as (t0 & vin' & Hd0 & Hi & ->).
  rewrite Hd in Hd0. inversion Hd0; subst t0; clear Hd0.
  apply unsign_inputs_spec in Hi.
  pose proof (deserialize_within _ _ Hd) as W.
  assert (Hrd : deserialize_tx (serialize_tx (unsigned_of t vin'))
                = Some (norm_wit (unsigned_of t vin'))).
  { apply deserialize_serialize_norm.
    + apply (tx_within_wf (2 * length raw + 5)); [unfold nlen in Hlen; lia|].
      apply unsigned_within; assumption.
    + cbn. destruct vin'; [|discriminate].
      apply cleared_inputs_fields in Hi. destruct Hi as (_ & _ & Hl).
      destruct (tx_vin t); [congruence|discriminate]. }
  unfold unsign_tx at 1. rewrite Hrd.
  assert (Hvin : tx_vin (norm_wit (unsigned_of t vin')) = vin').
  { unfold norm_wit. destruct (wit_is_null _); reflexivity. }
  rewrite Hvin. rewrite (unsign_inputs_idem (tx_vin t) vin'); [| |assumption].
  - f_equal. rewrite <- (serialize_norm_wit (unsigned_of t vin')).
    f_equal. unfold norm_wit, unsigned_of. cbn [tx_wit tx_version tx_vin tx_vout tx_locktime].
    destruct (wit_is_null (tx_wit t)); reflexivity.
  - eapply Forall_impl; [|apply (tw_vin _ _ W)]. unfold txin_within, nlen in *.
    intros i. intuition lia.
Qed.

(* ====================================================================== *)
(* examples on concrete transactions                                       *)
(* ====================================================================== *)

Definition ex_outpoint (k : N) : bytes := repeat k 32 ++ [k; 0; 0; 0].
Definition ex_out : txout :=
  mkTxout [232; 3; 0; 0; 0; 0; 0; 0] ([118; 169; 20] ++ repeat 7 20 ++ [136; 172]).

(* two inputs, each OP_0 <sig> <sig> <PUSHDATA1 redeem script> (script length 253: 3-byte varint) *)
Definition ex_tx (s1 s2 s3 s4 : N) : tx :=
  mkTx [2; 0; 0; 0]
       [mkTxin (ex_outpoint 17) (ex_script s1 s2) [255; 255; 255; 255];
        mkTxin (ex_outpoint 18) (ex_script s3 s4) [254; 255; 255; 255]]
       [ex_out; ex_out] [] [0; 0; 0; 0].
Definition ex_raw (s1 s2 s3 s4 : N) : bytes := serialize_tx (ex_tx s1 s2 s3 s4).
Definition ex_unsigned : bytes :=
  serialize_tx (mkTx [2; 0; 0; 0]
                     [mkTxin (ex_outpoint 17) ex_cleared [255; 255; 255; 255];
                      mkTxin (ex_outpoint 18) ex_cleared [254; 255; 255; 255]]
                     [ex_out; ex_out] [] [0; 0; 0; 0]).

Example ex_deserialize : deserialize_tx (ex_raw 48 49 50 51) = Some (ex_tx 48 49 50 51).
Proof. vm_compute. reflexivity. Qed.
Example ex_hyps : nlen (ex_raw 48 49 50 51) < two32 /\ tx_vin (ex_tx 48 49 50 51) <> [].
Proof. split; [vm_compute; reflexivity|discriminate]. Qed.
Example ex_unsign : unsign_tx (ex_raw 48 49 50 51) = Some ex_unsigned.
Proof. vm_compute. reflexivity. Qed.
Example ex_unsign_idempotent : unsign_tx ex_unsigned = Some ex_unsigned.
Proof. vm_compute. reflexivity. Qed.
Example ex_unsign_sig_independent :
  unsign_tx (ex_raw 48 49 50 51) = unsign_tx (ex_raw 1 2 3 4).
Proof. vm_compute. reflexivity. Qed.
Example ex_same_but_sigs :
  Forall2 same_but_sigs (tx_vin (ex_tx 48 49 50 51)) (tx_vin (ex_tx 1 2 3 4)).
Proof.
  assert (H : forall op sq a b c d,
             same_but_sigs (mkTxin op (ex_script a b) sq) (mkTxin op (ex_script c d) sq)).
  { intros. split; [reflexivity|]. split; [reflexivity|]. cbn [in_script].
    exists [OpZero; OpPush (repeat a 71); OpPush (repeat b 72)],
           [OpZero; OpPush (repeat c 71); OpPush (repeat d 72)], (OpPush ex_redeem).
    repeat split; cbv -[N.ltb N.eqb N.leb]; reflexivity. }
  constructor; [apply H|]. constructor; [apply H|]. constructor.
Qed.

(* segwit form (P2SH-P2WSH inputs): the witness stacks are kept *)
Definition ex_wtx (w : list (list bytes)) : tx :=
  mkTx [2; 0; 0; 0]
       [mkTxin (ex_outpoint 17) (34 :: 0 :: 32 :: repeat 9 32) [255; 255; 255; 255]]
       [ex_out] w [0; 0; 0; 0].
Example ex_segwit_roundtrip :
  deserialize_tx (serialize_tx (ex_wtx [[[]; repeat 48 71; ex_redeem]]))
  = Some (ex_wtx [[[]; repeat 48 71; ex_redeem]]).
Proof. vm_compute. reflexivity. Qed.
Example ex_segwit_unsign :
  unsign_tx (serialize_tx (ex_wtx [[[]; repeat 48 71; ex_redeem]]))
  = Some (serialize_tx (ex_wtx [[[]; repeat 48 71; ex_redeem]])).
Proof. vm_compute. reflexivity. Qed.

(* a segwit-form transaction whose stacks are all empty: read with tx_wit = [[]], relayed in
   legacy form, re-read with tx_wit = [] (the reason for the [if wit_is_null] in unsign_preserves) *)
Definition ex_nullwit_raw : bytes :=
  [2; 0; 0; 0] ++ [0; 1] ++ [1] ++ ser_txin (mkTxin (ex_outpoint 17) [81; 82] [255; 255; 255; 255])
  ++ [1] ++ ser_txout ex_out ++ [0] ++ [0; 0; 0; 0].
Example ex_nullwit :
  option_map tx_wit (deserialize_tx ex_nullwit_raw) = Some [[]] /\
  option_map tx_wit (match unsign_tx ex_nullwit_raw with
                     | Some u => deserialize_tx u | None => None end) = Some [].
Proof. split; vm_compute; reflexivity. Qed.

(* why [tx_vin t <> []] is needed: no inputs (count written as fd 00 00) and one output.
   The relayed form starts 00 01 after the version and is no longer readable. *)
Definition ex_amb_raw : bytes :=
  [1; 0; 0; 0] ++ [253; 0; 0] ++ [1] ++ ser_txout ex_out ++ [0; 0; 0; 0].
Example ex_ambiguous :
  option_map tx_vin (deserialize_tx ex_amb_raw) = Some [] /\
  (exists u, unsign_tx ex_amb_raw = Some u /\ deserialize_tx u = None /\ unsign_tx u = None).
Proof.
  split; [vm_compute; reflexivity|].
  eexists. split; [vm_compute; reflexivity|]. split; vm_compute; reflexivity.
Qed.

(* the hypotheses of deserialize_serialize are satisfiable *)
Example ex_wf : wf_tx (ex_tx 48 49 50 51) /\ wf_tx (ex_wtx [[[]; repeat 48 71; ex_redeem]]) /\
                wit_is_null (tx_wit (ex_wtx [[[]; repeat 48 71; ex_redeem]])) = false.
Proof.
  split; [|split; [|reflexivity]].
  - constructor; cbn [ex_tx tx_version tx_locktime tx_vin tx_vout tx_wit];
      repeat constructor; vm_compute; reflexivity.
  - constructor; cbn [ex_wtx tx_version tx_locktime tx_vin tx_vout tx_wit];
      try (right; reflexivity); repeat constructor; vm_compute; reflexivity.
Qed.
