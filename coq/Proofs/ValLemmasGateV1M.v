(* Helper lemmas for Proofs/SrcEquivGateV1M.v: the state-threading validators of the legacy (version 1) protocol
   class (Gen/Src.v, src_HSM1Protocol_*__st) against the model's validators, the request as the validator leaves
   it, what an accepting validator says about the request's fields, the V1 operations' outputs carry no
   "errorcode" member, and the front part of the monadic gate of HSM1ProtocolLedger against gate_request V1. *)
From PowHsm Require Import Gen.Src Gen.SrcM Model.Dongle Model.LedgerProtocol.
From PowHsm Require Import Proofs.ValLemmas Proofs.SrcEquivBase Proofs.SrcEquivProto Proofs.SrcEquivLedger
  Proofs.SrcEquivDongleM Proofs.SrcEquivProtoM Proofs.ValLemmasProto Proofs.ValLemmasM Proofs.ValLemmasSignProtoM
  Proofs.ValLemmasStateM Proofs.SrcEquivBlockProtoM.
From PowHsm Require Import Proofs.SrcEquivProtoV1M Proofs.ValLemmasGateM.

Lemma src_validate_key_id_st_v1 : forall (self : pv) (req : obj),
  src_HSM1Protocol___validate_key_id__st self (of_obj req) =
  POk (VList [VInt (validate_key_id (codes_of V1) req); req_after_keyid req]).
Proof.
  intros self req. unfold src_HSM1Protocol___validate_key_id__st, validate_key_id, req_after_keyid.
  rewrite py_not_in_obj, !py_getitem_obj; unfold jhas.
  destruct (jget (s "keyId") req) as [j|] eqn:E; [|reflexivity].
  kit; rewrite py_type_of_json;
  destruct j; kit; try reflexivity.
  jnorm; rewrite src_bip32_path_ok.
  destruct (bip32_path x); kit; [rewrite py_setitem_obj; reflexivity | reflexivity].
Qed.

Lemma src_validate_get_pubkey_st_v1 : forall (self : pv) (req : obj),
  src_HSM1Protocol___validate_get_pubkey__st self (of_obj req) =
  POk (VList [VInt (validate_key_id (codes_of V1) req); req_after_keyid req]).
Proof.
  intros self req. unfold src_HSM1Protocol___validate_get_pubkey__st.
  rewrite src_validate_key_id_st_v1. kit.
  destruct (validate_key_id_cases (codes_of V1) req) as [H|H]; rewrite H; reflexivity.
Qed.

Lemma req_after_keyid_ok_v1 : forall (req : obj),
  (validate_key_id (codes_of V1) req <? 0)%Z = false ->
  exists x els, jget (s "keyId") req = Some (JStr x) /\ bip32_path x = Some els /\
                req_after_keyid req = request_with_path req els.
Proof.
  intros req. unfold validate_key_id, req_after_keyid.
  destruct (jget (s "keyId") req) as [[]|]; try discriminate.
  destruct (bip32_path x) as [els|] eqn:Ep; try discriminate.
  intros _. exists x, els. repeat split. exact Ep.
Qed.

Lemma src_validate_sign_st_v1 : forall (self : pv) (req : obj),
  src_HSM1Protocol___validate_sign__st self (of_obj req) =
  POk (VList [VInt (validate_sign_v1 (codes_of V1) req); req_after_keyid req]).
Proof.
  intros self req. unfold src_HSM1Protocol___validate_sign__st, validate_sign_v1.
  rewrite src_validate_key_id_st_v1. kit.
  destruct (validate_key_id (codes_of V1) req <? 0)%Z eqn:Ek; kit; [reflexivity|].
  destruct (req_after_keyid_ok_v1 req Ek) as (x & els & Hk & Hp & ->).
  unfold py_not_in. rewrite in_request_other, !getitem_request_other by reflexivity. unfold jhas.
  destruct (jget (s "message") req) as [j|] eqn:E; kit; [|reflexivity].
  rewrite py_type_of_json, (is_hex_string_of_length_N j 32) by reflexivity.
  destruct j; kit; try reflexivity.
  destruct (is_hex_string_of_length x0 32); reflexivity.
Qed.

Lemma dispatch_st_v1 : forall (self : pv) (cmd : str) (req : obj),
  validation_dispatch_st_HSM1Protocol self (VStr cmd) (of_obj req) =
  pbind (validation_dispatch_HSM1Protocol self (VStr cmd) (of_obj req))
        (fun r => POk (VList [r; st_request cmd req])).
Proof.
  intros self cmd req.
  unfold validation_dispatch_st_HSM1Protocol, validation_dispatch_HSM1Protocol, st_request.
  destruct (str_eqb cmd (s "version")); [reflexivity|].
  destruct (str_eqb cmd (s "sign")).
  { rewrite src_validate_sign_st_v1, src_validate_sign_v1. reflexivity. }
  destruct (str_eqb cmd (s "getPubKey")).
  { rewrite src_validate_get_pubkey_st_v1, src_validate_get_pubkey_v1. reflexivity. }
  reflexivity.
Qed.

(* ---------- no V1 operation's output carries an "errorcode" member ---------- *)

Lemma noerr_get_pubkey_v1 (kind : dongle_kind) req : noerr (op_get_pubkey kind V1 req).
Proof. unfold op_get_pubkey, with_ladder. noerr_tac. Qed.

Lemma noerr_sign_v1 (kind : dongle_kind) req : noerr (op_sign_v1 kind req).
Proof. unfold op_sign_v1, with_ladder_sign, finish_sign. cbv zeta. noerr_tac. Qed.

(* ---------- what an accepting validator says about the request ---------- *)

Lemma sign_key_ok_v1 (req : obj) :
  (validate_sign_v1 (codes_of V1) req <? 0)%Z = false -> (validate_key_id (codes_of V1) req <? 0)%Z = false.
Proof.
  unfold validate_sign_v1. cbv zeta.
  destruct (validate_key_id (codes_of V1) req <? 0)%Z eqn:Ek; [|reflexivity].
  intros H. rewrite H in Ek. discriminate Ek.
Qed.

Lemma sign_message_shape_v1 (req : obj) :
  (validate_sign_v1 (codes_of V1) req <? 0)%Z = false -> exists h, jget (s "message") req = Some (JStr h).
Proof.
  unfold validate_sign_v1. cbv zeta.
  destruct (validate_key_id (codes_of V1) req <? 0)%Z eqn:Ek; [intros H; rewrite H in Ek; discriminate Ek|].
  destruct (jget (s "message") req) as [[]|]; try discriminate.
  intros _. exists x. reflexivity.
Qed.

(* ---------- the front part of the gate ---------- *)

Ltac mstep := mv_unfold; mnorm; rw_lift.

Lemma srcm_gate_v1 : forall cm init (self : pv) (request : json) (w : world),
  srcm_HSM1ProtocolLedger____internal_handle_request cm init self (of_json request) w =
  match gate_request V1 request with
  | GReject c => (XOk (reply_code c), w)
  | GCrash e => (XRaise (Py e), w)
  | GAccept cmd req =>
      gate_tail_m (operation_dispatch_HSM1ProtocolLedger cm init self (VStr cmd) (st_request cmd req)) w
  end.
Proof.
  intros cm init self request w.
  unfold srcm_HSM1ProtocolLedger____internal_handle_request, gate_request.
  unfold srcm_HSM1ProtocolLedger__format_error, srcm_HSM1ProtocolLedger___invalid_request,
    srcm_HSM1ProtocolLedger___wrong_version, srcm_HSM1ProtocolLedger___command_unknown.
  unfold KEY_COMMAND, KEY_VERSION, CMDNAME_VERSION_COMMAND.
  change (c_version (codes_of V1)) with 1%Z.
  mstep. rewrite ValLemmasProto.py_type_of_json.
  destruct request; kit; try reflexivity.
  mnorm. cbn [py_truth]. jnorm.
  mstep. rewrite py_not_in_obj. unfold jhas.
  destruct (jget (s "command") kv) as [command|] eqn:Ec; cbn [negb]; mnorm; cbn [py_truth]; [|reflexivity].
  mstep. rewrite py_getitem_obj, Ec. mstep. rewrite py_ne_json_str. mnorm.
  rewrite !py_in_obj, !py_not_in_obj, !py_getitem_obj. unfold jhas.
  destruct (Json.py_eq_str command (s "version")) eqn:Eq; cbn [negb py_truth andb];
    (destruct (jget (s "version") kv) as [ver|] eqn:Ev; cbn [negb andb]; mgo; repeat (rw_lift; mgo); try reflexivity);
    try (rewrite py_ne_json_int; mgo; destruct (Json.py_eq_int ver 1) eqn:Ei; cbn [negb]; mgo; [|reflexivity]).
  all: rewrite ?mbind_lift_POk; unfold MV.py_or; mgo; rewrite ValLemmasProto.py_type_of_json, py_ne_type.
  all: destruct command; cbn [hashable jty pty_eqb negb]; rewrite mbind_lift_POk; mgo; try reflexivity.
  all: jnorm; rw_lift; unfold py_not_in; rewrite known_v1_in; kit; unfold known_commands.
  all: destruct (str_in x KNOWN_COMMANDS_V1) eqn:Ek; cbn [negb]; mgo; [|reflexivity].
  all: rw_lift; rewrite dispatch_st_v1; destruct (dispatch_v1 self x kv Ek) as (vn & v & Hn & Hr & Hd).
  all: rewrite Hn, Hr, Hd; kit; mgo; rw_lift; kit.
  all: destruct (v <? 0)%Z; mgo; [reflexivity|].
  all: reflexivity.
Qed.
