(* Refinement theorem for the device-monad backend: the handler _get_blockchain_parameters of
   ledger/protocol.py (ensure_connection, get_signer_parameters, the reply dictionary with the network's
   enum member name in lower case, the except ladder), as translated from the Python source text
   (Gen/SrcM.v), runs on every world exactly as the model op_parameters of Model/LedgerProtocol.v. *)
From PowHsm Require Import Gen.SrcM Model.Dongle Model.LedgerProtocol.
From PowHsm Require Import Proofs.ValLemmas Proofs.SrcEquivLedger Proofs.SrcEquivDongleM Proofs.SrcEquivProtoM.
From PowHsm Require Import Proofs.ValLemmasM Proofs.ValLemmasSign Proofs.ValLemmasProtoM Proofs.ValLemmasSignProtoM.

(* the device only hands out parameters whose network is one of the enum's members *)
Lemma params_from_dongle_net (b : bytes) (p : fw_params) :
  params_from_dongle b = Some p -> mem_N (p_network p) NETWORK_VALUES = true.
Proof.
  unfold params_from_dongle. destruct (negb _); [discriminate|].
  destruct (idx b 68) as [net|]; [|discriminate].
  destruct (mem_N net NETWORK_VALUES) eqn:E; [|discriminate].
  intros H. injection H as <-. exact E.
Qed.

Lemma get_signer_parameters_net (w w' : world) (p : fw_params) :
  get_signer_parameters w = (Ok p, w') -> mem_N (p_network p) NETWORK_VALUES = true.
Proof.
  unfold get_signer_parameters, bind.
  destruct (send_command CMD_GET_PARAMETERS [] w) as [[r|e] w1]; [|discriminate].
  destruct (params_from_dongle (slice_from r OFF_DATAn)) as [q|] eqn:E; [|discriminate].
  unfold ret. intros H. injection H as <- _. exact (params_from_dongle_net _ _ E).
Qed.

Lemma network_cases (n : N) : mem_N n NETWORK_VALUES = true -> (n = 1 \/ n = 2 \/ n = 3)%N.
Proof.
  unfold NETWORK_VALUES. cbn [mem_N]. intros H.
  destruct (N.eqb_spec n 1); [tauto|]. destruct (N.eqb_spec n 2); [tauto|]. destruct (N.eqb_spec n 3); [tauto|].
  discriminate H.
Qed.

Section WithEnv.
Variable kind : dongle_kind.
Variable init : pm pv.

Theorem srcm_parameters_handler_ok : forall (self request : pv) (req : obj) (w : world),
  init_ok kind init ->
  srcm_HSM2ProtocolLedger___get_blockchain_parameters init self request w =
  mres rtuple_pv (op_parameters kind req w).
Proof.
  intros self request req w Hinit.
  unfold srcm_HSM2ProtocolLedger___get_blockchain_parameters, op_parameters, with_ladder.
  rewrite pbind_POk.
  set (F := fun r : rtuple => VList [VInt 2; rtuple_pv r]).
  match goal with |- _ = mres _ (try_catch ?mb _ _) =>
    apply ptry_k_mres with (f := F) (mm := mb) (res := fun r => r) end.
  - unfold MV.pbind at 1.
    apply mres_bind with (f := fun _ : unit => VNone).
    { apply srcm_ensure_connection_ok. exact Hinit. }
    intros u w1. unfold MV.pbind at 1.
    apply mres_bind_at with (f := params_obj).
    { apply srcm_get_signer_parameters_ok. }
    intros p w2 Hp. apply get_signer_parameters_net in Hp.
    destruct p as [cp mrd net]. cbn [p_network] in Hp.
    destruct (network_cases net Hp) as [-> | [-> | ->]]; reflexivity.
  - unfold bind, ret. destruct (ensure_connection kind w) as [[u|e] w1]; [|reflexivity].
    destruct (get_signer_parameters w1) as [[p|e] w2]; [|reflexivity].
    destruct (of_opt (assoc_N (p_network p) NETWORK_NAMES) KeyError w2) as [[nm|e] w3]; reflexivity.
  - intros r w1. reflexivity.
  - intros e w1. destruct e; reflexivity.
Qed.

End WithEnv.
