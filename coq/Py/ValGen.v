(* The part of the value kit that depends on tables generated from the running interpreter
   (Unicode decimal digits, the int() digit limit). *)
From PowHsm Require Export Py.Val Model.Bip32.

(* str.isdecimal(x) *)
Definition py_isdecimal (v : pv) : pr pv :=
  match v with
  | VStr x => POk (VBool (is_decimal x))
  | VObj _ _ => PStuck
  | _ => PRaise TypeError
  end.

(* int(x): ints, bools and strings that pass str.isdecimal are modelled (the only uses the
   translated code makes); any other argument is outside the model *)
Definition py_int (v : pv) : pr pv :=
  match v with
  | VInt z => POk (VInt z)
  | VBool b => POk (VInt (if b then 1 else 0))
  | VStr x => if is_decimal x
              then match int_of_decimal x with
                   | Some n => POk (VInt (Z.of_N n))
                   | None => PRaise ValueError
                   end
              else PStuck
  | _ => PStuck
  end.
