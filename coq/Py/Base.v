(* Python-semantics kit: bytes, str (code points), hex, ints <-> bytes, slicing.
   Executable definitions only; lemmas live in Proofs/. *)
From Coq Require Export String Ascii.
From Coq Require Export List NArith ZArith Bool Lia.
Export ListNotations.
Open Scope string_scope.
Open Scope list_scope.
Open Scope N_scope.

Definition bytes := list N.     (* each element < 256 when well formed *)
Definition str := list N.       (* Unicode code points *)

Definition wf_bytes (b : bytes) : Prop := Forall (fun x => x < 256) b.
Definition wf_bytesb (b : bytes) : bool := forallb (fun x => x <? 256) b.

(* ---------- generic list helpers with Python flavour ---------- *)

Fixpoint list_eqb {A} (eqb : A -> A -> bool) (a b : list A) : bool :=
  match a, b with
  | [], [] => true
  | x :: a', y :: b' => eqb x y && list_eqb eqb a' b'
  | _, _ => false
  end.

Definition bytes_eqb : bytes -> bytes -> bool := list_eqb N.eqb.
Definition str_eqb : str -> str -> bool := list_eqb N.eqb.

(* data[a:b] for 0 <= a, never raises *)
Definition slice {A} (l : list A) (a b : nat) : list A := firstn (b - a) (skipn a l).
Definition slice_from {A} (l : list A) (a : nat) : list A := skipn a l.
(* l[-k:] for k > 0 *)
Definition last_n {A} (l : list A) (k : nat) : list A := skipn (length l - k) l.
(* l[:-k] *)
Definition drop_last {A} (l : list A) (k : nat) : list A := firstn (length l - k) l.

(* l[i] : None = IndexError *)
Definition idx {A} (l : list A) (i : nat) : option A := nth_error l i.

Definition nlen {A} (l : list A) : N := N.of_nat (length l).

Fixpoint mem_N (x : N) (l : list N) : bool :=
  match l with [] => false | y :: l' => (x =? y) || mem_N x l' end.

Fixpoint mem_Z (x : Z) (l : list Z) : bool :=
  match l with [] => false | y :: l' => (x =? y)%Z || mem_Z x l' end.

Fixpoint assoc_N {B} (k : N) (l : list (N * B)) : option B :=
  match l with [] => None | (k', v) :: l' => if k =? k' then Some v else assoc_N k l' end.

Fixpoint assoc_Z {B} (k : Z) (l : list (Z * B)) : option B :=
  match l with [] => None | (k', v) :: l' => if (k =? k')%Z then Some v else assoc_Z k l' end.

Fixpoint assoc_str {B} (k : str) (l : list (str * B)) : option B :=
  match l with [] => None | (k', v) :: l' => if str_eqb k k' then Some v else assoc_str k l' end.

Fixpoint all_some {A} (l : list (option A)) : option (list A) :=
  match l with
  | [] => Some []
  | Some a :: r => match all_some r with Some r' => Some (a :: r') | None => None end
  | None :: _ => None
  end.

(* ---------- Coq string literals to str / bytes (for readable models and case files) ---------- *)

Fixpoint s (x : string) : str :=
  match x with
  | EmptyString => []
  | String a r => N_of_ascii a :: s r
  end.

(* ---------- hex ---------- *)

Definition hexdigit (n : N) : N := if n <? 10 then 48 + n else 87 + n.   (* lowercase *)

Fixpoint hex (b : bytes) : str :=
  match b with
  | [] => []
  | x :: r => hexdigit (x / 16) :: hexdigit (x mod 16) :: hex r
  end.

Definition hexval (c : N) : option N :=
  if (48 <=? c) && (c <=? 57) then Some (c - 48)
  else if (97 <=? c) && (c <=? 102) then Some (c - 87)
  else if (65 <=? c) && (c <=? 70) then Some (c - 55)
  else None.

(* Py_ISSPACE: \t \n \v \f \r and space *)
Definition is_pyspace (c : N) : bool := ((9 <=? c) && (c <=? 13)) || (c =? 32).

(* bytes.fromhex: whitespace is skipped before each pair, never inside one; None = ValueError.
   Structural on the string: [pend] is the pending high nibble. *)
Fixpoint fromhex_aux (x : str) (pend : option N) : option bytes :=
  match x with
  | [] => match pend with None => Some [] | Some _ => None end
  | c :: r =>
      match pend with
      | None =>
          if is_pyspace c then fromhex_aux r None
          else match hexval c with
               | Some h => fromhex_aux r (Some h)
               | None => None
               end
      | Some h =>
          match hexval c with
          | Some l => match fromhex_aux r None with
                      | Some bs => Some (h * 16 + l :: bs)
                      | None => None
                      end
          | None => None
          end
      end
  end.

Definition fromhex (x : str) : option bytes := fromhex_aux x None.

(* Strict literal decoding used by harness-written case files: "80020281" *)
Definition hx (x : string) : bytes :=
  match fromhex (s x) with Some b => b | None => [] end.

(* ---------- integers <-> bytes ---------- *)

(* n.to_bytes(k, 'little', signed=False): None = OverflowError (negative or too big) *)
Fixpoint le_bytes (k : nat) (n : N) : bytes :=
  match k with
  | O => []
  | S k' => n mod 256 :: le_bytes k' (n / 256)
  end.

Definition to_bytes_le (k : nat) (n : Z) : option bytes :=
  if (n <? 0)%Z then None
  else if Z.to_N n <? 256 ^ N.of_nat k then Some (le_bytes k (Z.to_N n)) else None.

Definition to_bytes_be (k : nat) (n : Z) : option bytes :=
  match to_bytes_le k n with Some b => Some (rev b) | None => None end.

(* int.from_bytes(b, 'big', signed=False) *)
Definition from_bytes_be (b : bytes) : N := fold_left (fun acc x => acc * 256 + x) b 0.
Definition from_bytes_le (b : bytes) : N := from_bytes_be (rev b).

(* ---------- decimal rendering (str(int)) ---------- *)

Fixpoint dec_aux (fuel : nat) (n : N) (acc : str) : str :=
  match fuel with
  | O => acc
  | S f => let acc' := (48 + n mod 10) :: acc in
           if n <? 10 then acc' else dec_aux f (n / 10) acc'
  end.

(* enough fuel: number of bits + 1 *)
Definition dec_N (n : N) : str := dec_aux (S (N.to_nat (N.size n))) n [].
Definition dec_Z (z : Z) : str :=
  if (z <? 0)%Z then 45 :: dec_N (Z.to_N (- z)) else dec_N (Z.to_N z).

(* ---------- result monad pieces shared by all models ---------- *)

Inductive pyexc := ValueError | TypeError | IndexError | OverflowError | KeyError
                 | RecursionError | AttributeError | NotImplementedErr | OtherExc.

Definition pyexc_eqb (a b : pyexc) : bool :=
  match a, b with
  | ValueError, ValueError | TypeError, TypeError | IndexError, IndexError
  | OverflowError, OverflowError | KeyError, KeyError | RecursionError, RecursionError
  | AttributeError, AttributeError | NotImplementedErr, NotImplementedErr
  | OtherExc, OtherExc => true
  | _, _ => false
  end.
