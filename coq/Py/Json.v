(* JSON values as json.loads delivers them, with the Python comparisons the code relies on. *)
From PowHsm Require Export Py.Base.

(* A float carries only "its integral value if it has one": that is all the code observes. *)
Inductive json :=
| JNull
| JBool (b : bool)
| JInt (z : Z)
| JFloat (integral : option Z)
| JStr (x : str)
| JArr (l : list json)
| JObj (kv : list (str * json)).

(* dict lookup *)
Definition jget (k : str) (kv : list (str * json)) : option json := assoc_str k kv.
Definition jhas (k : str) (kv : list (str * json)) : bool :=
  match jget k kv with Some _ => true | None => false end.

(* type(x) == T tests *)
Definition is_jobj (j : json) : bool := match j with JObj _ => true | _ => false end.
Definition is_jarr (j : json) : bool := match j with JArr _ => true | _ => false end.
Definition is_jstr (j : json) : bool := match j with JStr _ => true | _ => false end.
Definition is_jint (j : json) : bool := match j with JInt _ => true | _ => false end.  (* bool excluded *)

(* Python's  x == n  for an int constant n (numeric tower: True == 1, 5.0 == 5) *)
Definition py_eq_int (j : json) (n : Z) : bool :=
  match j with
  | JInt z => (z =? n)%Z
  | JBool b => ((if b then 1 else 0) =? n)%Z
  | JFloat (Some z) => (z =? n)%Z
  | _ => false
  end.

(* Python's  x == "literal" *)
Definition py_eq_str (j : json) (x : str) : bool :=
  match j with JStr y => str_eqb y x | _ => false end.

(* hashability: lists and dicts are not hashable (TypeError on dict/`in dict.keys()` lookup) *)
Definition hashable (j : json) : bool :=
  match j with JArr _ | JObj _ => false | _ => true end.

(* Python dict-key equality between two hashable JSON scalars (1 == 1.0 == True) *)
Definition num_of (j : json) : option Z :=
  match j with
  | JInt z => Some z
  | JBool b => Some (if b then 1 else 0)%Z
  | JFloat (Some z) => Some z
  | _ => None
  end.

Definition key_eqb (a b : json) : bool :=
  match a, b with
  | JStr x, JStr y => str_eqb x y
  | JNull, JNull => true
  | _, _ => match num_of a, num_of b with
            | Some x, Some y => (x =? y)%Z
            | _, _ => false
            end
  end.

(* structural equality, used by the correspondence checker to compare replies *)
Fixpoint json_eqb (a b : json) {struct a} : bool :=
  match a, b with
  | JNull, JNull => true
  | JBool x, JBool y => Bool.eqb x y
  | JInt x, JInt y => (x =? y)%Z
  | JFloat None, JFloat None => true
  | JFloat (Some x), JFloat (Some y) => (x =? y)%Z
  | JStr x, JStr y => str_eqb x y
  | JArr l, JArr m =>
      (fix go (l m : list json) : bool :=
         match l, m with
         | [], [] => true
         | x :: l', y :: m' => json_eqb x y && go l' m'
         | _, _ => false
         end) l m
  | JObj l, JObj m =>   (* order-insensitive; keys are unique after json.loads *)
      Nat.eqb (length l) (length m) &&
      (fix go (l : list (str * json)) : bool :=
         match l with
         | [] => true
         | (k, x) :: l' =>
             match assoc_str k m with Some y => json_eqb x y | None => false end && go l'
         end) l
  | _, _ => false
  end.
