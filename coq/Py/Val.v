(* Python value universe and the operations the source translator (tools/gen_src.py) emits.
   Every operation is total: [PRaise e] is a Python exception of class e, [PStuck] is "behaviour
   not modelled" - no handler catches it, so a theorem about a translated function has to show
   that PStuck is never reached on the domain it speaks about.
   Executable definitions only; lemmas live in Proofs/ValLemmas.v. *)
From PowHsm Require Export Py.Json.

Inductive pty := TNone | TBool | TInt | TFloat | TStr | TBytes | TList | TDict | TObject.

Definition pty_eqb (a b : pty) : bool :=
  match a, b with
  | TNone, TNone | TBool, TBool | TInt, TInt | TFloat, TFloat | TStr, TStr
  | TBytes, TBytes | TList, TList | TDict, TDict | TObject, TObject => true
  | _, _ => false
  end.

Inductive pv :=
| VNone
| VBool (b : bool)
| VInt (z : Z)
| VFloat (i : option Z)          (* only "its integral value if it has one" *)
| VStr (x : str)
| VBytes (b : bytes)
| VList (l : list pv)
| VDict (kv : list (str * pv))   (* dictionaries with str keys (all the translated code builds) *)
| VType (t : pty)
| VObj (cls : string) (fields : list (string * pv)).

Inductive pr (A : Type) := POk (a : A) | PRaise (e : pyexc) | PStuck.
Arguments POk {A} a.
Arguments PRaise {A} e.
Arguments PStuck {A}.

Definition pbind {A B} (m : pr A) (f : A -> pr B) : pr B :=
  match m with POk a => f a | PRaise e => PRaise e | PStuck => PStuck end.

Definition pmap {A B} (f : A -> B) (m : pr A) : pr B :=
  match m with POk a => POk (f a) | PRaise e => PRaise e | PStuck => PStuck end.

(* try: m  except <classes>: h      (catch_all = "except Exception" / bare except) *)
Definition ptry {A} (m : pr A) (catch_all : bool) (classes : list pyexc) (h : pr A) : pr A :=
  match m with
  | PRaise e => if catch_all || existsb (pyexc_eqb e) classes then h else PRaise e
  | other => other
  end.

(* ---------- JSON values as Python objects ---------- *)

Fixpoint of_json (j : json) : pv :=
  match j with
  | JNull => VNone
  | JBool b => VBool b
  | JInt z => VInt z
  | JFloat i => VFloat i
  | JStr x => VStr x
  | JArr l => VList (map of_json l)
  | JObj kv => VDict (map (fun p => (fst p, of_json (snd p))) kv)
  end.

Definition of_obj (kv : list (str * json)) : pv := of_json (JObj kv).

(* ---------- basic observers ---------- *)

Definition py_type (v : pv) : pty :=
  match v with
  | VNone => TNone | VBool _ => TBool | VInt _ => TInt | VFloat _ => TFloat | VStr _ => TStr
  | VBytes _ => TBytes | VList _ => TList | VDict _ => TDict | VType _ => TObject
  | VObj _ _ => TObject
  end.

Definition py_truth (v : pv) : bool :=
  match v with
  | VNone => false
  | VBool b => b
  | VInt z => negb (z =? 0)%Z
  | VFloat (Some z) => negb (z =? 0)%Z
  | VFloat None => true
  | VStr x => match x with [] => false | _ => true end
  | VBytes x => match x with [] => false | _ => true end
  | VList x => match x with [] => false | _ => true end
  | VDict x => match x with [] => false | _ => true end
  | VType _ => true
  | VObj _ _ => true
  end.

Definition vnum (v : pv) : option Z :=
  match v with
  | VInt z => Some z
  | VBool b => Some (if b then 1 else 0)%Z
  | VFloat (Some z) => Some z
  | _ => None
  end.

Definition is_numeric (v : pv) : bool :=
  match v with VInt _ | VBool _ | VFloat _ => true | _ => false end.

(* a == b.  Two floats without an integral value cannot be compared by the model: PStuck. *)
Fixpoint py_eq (a b : pv) {struct a} : pr bool :=
  match a, b with
  | VFloat None, VFloat None => PStuck
  | VNone, VNone => POk true
  | VStr x, VStr y => POk (str_eqb x y)
  | VBytes x, VBytes y => POk (bytes_eqb x y)
  | VType x, VType y => POk (pty_eqb x y)
  | VList l, VList m =>
      (fix go (l m : list pv) : pr bool :=
         match l, m with
         | [], [] => POk true
         | x :: l', y :: m' =>
             match py_eq x y with
             | POk true => go l' m'
             | other => other
             end
         | _, _ => POk false
         end) l m
  | VDict _, VDict _ => PStuck
  | VObj _ _, _ | _, VObj _ _ => PStuck
  | _, _ =>
      match vnum a, vnum b with
      | Some x, Some y => POk (x =? y)%Z
      | _, _ => POk false
      end
  end.

Definition py_ne (a b : pv) : pr bool := pmap negb (py_eq a b).

Inductive cmpop := CLt | CLe | CGt | CGe.

(* ordering comparisons: numbers with a known value only; number vs non-number is a TypeError *)
Definition py_cmp (op : cmpop) (a b : pv) : pr bool :=
  match vnum a, vnum b with
  | Some x, Some y =>
      POk (match op with
           | CLt => (x <? y)%Z | CLe => (x <=? y)%Z | CGt => (y <? x)%Z | CGe => (y <=? x)%Z
           end)
  | _, _ =>
      if is_numeric a && is_numeric b then PStuck            (* a float without integral value *)
      else if is_numeric a || is_numeric b then PRaise TypeError
      else PStuck                                            (* str < str etc.: not modelled *)
  end.

Definition py_len (v : pv) : pr pv :=
  match v with
  | VStr x => POk (VInt (Z.of_nat (length x)))
  | VBytes x => POk (VInt (Z.of_nat (length x)))
  | VList x => POk (VInt (Z.of_nat (length x)))
  | VDict x => POk (VInt (Z.of_nat (length x)))
  | VObj _ _ => PStuck
  | _ => PRaise TypeError
  end.

Definition hashable_v (v : pv) : bool :=
  match v with VList _ | VDict _ => false | _ => true end.

Fixpoint vassoc (k : str) (kv : list (str * pv)) : option pv :=
  match kv with
  | [] => None
  | (k', v) :: r => if str_eqb k k' then Some v else vassoc k r
  end.

(* sub in x  for strings *)
Fixpoint is_prefix (p x : str) : bool :=
  match p, x with
  | [], _ => true
  | a :: p', b :: x' => (a =? b) && is_prefix p' x'
  | _ :: _, [] => false
  end.

Fixpoint is_infix (p x : str) : bool :=
  is_prefix p x || match x with [] => false | _ :: x' => is_infix p x' end.

(* x in c *)
Definition py_in (x c : pv) : pr bool :=
  match c with
  | VDict kv =>
      match x with
      | VStr k => POk (match vassoc k kv with Some _ => true | None => false end)
      | VList _ | VDict _ => PRaise TypeError
      | VObj _ _ => PStuck
      | _ => POk false
      end
  | VList l =>
      (fix go (l : list pv) : pr bool :=
         match l with
         | [] => POk false
         | y :: l' => match py_eq x y with
                      | POk false => go l'
                      | other => other
                      end
         end) l
  | VStr hay => match x with VStr needle => POk (is_infix needle hay) | _ => PRaise TypeError end
  | VBytes hay => match x with
                  | VInt z => POk (existsb (fun b => (Z.of_N b =? z)%Z) hay)
                  | _ => PStuck
                  end
  | VObj _ _ => PStuck
  | _ => PRaise TypeError
  end.

Definition py_not_in (x c : pv) : pr bool := pmap negb (py_in x c).

(* sequence index with Python's negative indices *)
Definition seq_index {A} (l : list A) (i : Z) : option A :=
  let n := Z.of_nat (length l) in
  let j := (if i <? 0 then i + n else i)%Z in
  if (j <? 0)%Z || (n <=? j)%Z then None else nth_error l (Z.to_nat j).

(* c[k] *)
Definition py_getitem (c k : pv) : pr pv :=
  match c with
  | VDict kv =>
      match k with
      | VStr key => match vassoc key kv with Some v => POk v | None => PRaise KeyError end
      | VList _ | VDict _ => PRaise TypeError
      | VObj _ _ => PStuck
      | _ => PRaise KeyError
      end
  | VList l =>
      match k with
      | VInt i => match seq_index l i with Some v => POk v | None => PRaise IndexError end
      | VBool b => match seq_index l (if b then 1 else 0)%Z with
                   | Some v => POk v | None => PRaise IndexError end
      | _ => PRaise TypeError
      end
  | VStr x =>
      match k with
      | VInt i => match seq_index x i with Some ch => POk (VStr [ch]) | None => PRaise IndexError end
      | _ => PRaise TypeError
      end
  | VBytes x =>
      match k with
      | VInt i => match seq_index x i with Some b => POk (VInt (Z.of_N b)) | None => PRaise IndexError end
      | _ => PRaise TypeError
      end
  | VObj _ _ => PStuck
  | _ => PRaise TypeError
  end.

(* c[k] = v on a dictionary: replaces in place or appends (insertion order) *)
Fixpoint vassoc_set (k : str) (v : pv) (kv : list (str * pv)) : list (str * pv) :=
  match kv with
  | [] => [(k, v)]
  | (k', v') :: r => if str_eqb k k' then (k', v) :: r else (k', v') :: vassoc_set k v r
  end.

Definition py_setitem (c k v : pv) : pr pv :=
  match c, k with
  | VDict kv, VStr key => POk (VDict (vassoc_set key v kv))
  | VDict _, (VList _ | VDict _) => PRaise TypeError
  | VDict _, _ => PStuck                 (* non-str keys are outside the dictionary model *)
  | _, _ => PStuck
  end.

(* slices with optional non-negative or negative bounds, step 1 *)
Definition clamp_index (n i : Z) : nat :=
  let j := (if i <? 0 then i + n else i)%Z in
  Z.to_nat (Z.max 0 (Z.min n j)).

Definition seq_slice {A} (l : list A) (lo hi : option Z) : list A :=
  let n := Z.of_nat (length l) in
  let a := match lo with Some i => clamp_index n i | None => O end in
  let b := match hi with Some i => clamp_index n i | None => length l end in
  firstn (b - a) (skipn a l).

Definition py_slice (c : pv) (lo hi : option Z) : pr pv :=
  match c with
  | VStr x => POk (VStr (seq_slice x lo hi))
  | VBytes x => POk (VBytes (seq_slice x lo hi))
  | VList x => POk (VList (seq_slice x lo hi))
  | VObj _ _ => PStuck
  | _ => PRaise TypeError
  end.

(* iteration order of  for x in v *)
Definition py_iter (v : pv) : pr (list pv) :=
  match v with
  | VList l => POk l
  | VStr x => POk (map (fun c => VStr [c]) x)
  | VBytes x => POk (map (fun b => VInt (Z.of_N b)) x)
  | VDict kv => POk (map (fun p => VStr (fst p)) kv)
  | VObj _ _ => PStuck
  | _ => PRaise TypeError
  end.

(* all(f(x) for x in l) / any(...) with Python's short-circuit evaluation *)
Fixpoint py_all (l : list pv) (f : pv -> pr pv) : pr pv :=
  match l with
  | [] => POk (VBool true)
  | x :: r => match f x with
              | POk v => if py_truth v then py_all r f else POk (VBool false)
              | PRaise e => PRaise e
              | PStuck => PStuck
              end
  end.

Fixpoint py_any (l : list pv) (f : pv -> pr pv) : pr pv :=
  match l with
  | [] => POk (VBool false)
  | x :: r => match f x with
              | POk v => if py_truth v then POk (VBool true) else py_any r f
              | PRaise e => PRaise e
              | PStuck => PStuck
              end
  end.

Definition py_all_in (c : pv) (f : pv -> pr pv) : pr pv := pbind (py_iter c) (fun l => py_all l f).
Definition py_any_in (c : pv) (f : pv -> pr pv) : pr pv := pbind (py_iter c) (fun l => py_any l f).

(* list(map(f, c)) *)
Fixpoint pmap_list (l : list pv) (f : pv -> pr pv) : pr (list pv) :=
  match l with
  | [] => POk []
  | x :: r => pbind (f x) (fun y => pbind (pmap_list r f) (fun ys => POk (y :: ys)))
  end.

Definition py_list_map (f : pv -> pr pv) (c : pv) : pr pv :=
  pbind (py_iter c) (fun l => pmap VList (pmap_list l f)).

(* for x in c: acc = body acc x   (no break / return inside) *)
Fixpoint pfold (l : list pv) (acc : pv) (body : pv -> pv -> pr pv) : pr pv :=
  match l with
  | [] => POk acc
  | x :: r => pbind (body acc x) (fun acc' => pfold r acc' body)
  end.

Definition py_for (c : pv) (acc : pv) (body : pv -> pv -> pr pv) : pr pv :=
  pbind (py_iter c) (fun l => pfold l acc body).

(* a and b / a or b / not a : value semantics of Python (the operand is returned) *)
Definition py_and (a b : pr pv) : pr pv :=
  match a with
  | POk v => if py_truth v then b else POk v
  | other => other
  end.

Definition py_or (a b : pr pv) : pr pv :=
  match a with
  | POk v => if py_truth v then POk v else b
  | other => other
  end.

Definition py_not (a : pr pv) : pr pv := pmap (fun v => VBool (negb (py_truth v))) a.

(* if c: t else: e *)
Definition pif {A} (c : pr pv) (t e : pr A) : pr A :=
  match c with
  | POk v => if py_truth v then t else e
  | PRaise x => PRaise x
  | PStuck => PStuck
  end.

Definition vbool (m : pr bool) : pr pv := pmap VBool m.

(* ---------- arithmetic on ints (bool counts as int; floats are not modelled) ---------- *)

Definition vint (v : pv) : option Z :=
  match v with VInt z => Some z | VBool b => Some (if b then 1 else 0)%Z | _ => None end.

Definition py_arith (f : Z -> Z -> Z) (a b : pv) : pr pv :=
  match vint a, vint b with
  | Some x, Some y => POk (VInt (f x y))
  | _, _ => if (is_numeric a && is_numeric b) then PStuck else PStuck
  end.

Definition py_add (a b : pv) : pr pv :=
  match a, b with
  | VStr x, VStr y => POk (VStr (x ++ y))
  | VBytes x, VBytes y => POk (VBytes (x ++ y))
  | VList x, VList y => POk (VList (x ++ y))
  | _, _ => py_arith Z.add a b
  end.

Definition py_sub (a b : pv) : pr pv := py_arith Z.sub a b.

Definition py_lshift (a b : pv) : pr pv :=
  match vint a, vint b with
  | Some x, Some y => if (y <? 0)%Z then PRaise ValueError else POk (VInt (Z.shiftl x y))
  | _, _ => PStuck
  end.

(* ---------- str / bytes methods ---------- *)

Definition py_fromhex (v : pv) : pr pv :=
  match v with
  | VStr x => match fromhex x with Some b => POk (VBytes b) | None => PRaise ValueError end
  | VObj _ _ => PStuck
  | _ => PRaise TypeError
  end.

(* value.startswith(p): AttributeError when value has no such method *)
Definition py_startswith (v p : pv) : pr pv :=
  match v, p with
  | VStr x, VStr y => POk (VBool (is_prefix y x))
  | VStr _, _ => PRaise TypeError
  | VBytes _, _ => PStuck
  | VObj _ _, _ => PStuck
  | _, _ => PRaise AttributeError
  end.

Fixpoint split_chr (sep : N) (x : str) (cur : str) : list str :=
  match x with
  | [] => [rev cur]
  | c :: r => if c =? sep then rev cur :: split_chr sep r [] else split_chr sep r (c :: cur)
  end.

(* x.split(sep) for a one-character separator *)
Definition py_split (v sep : pv) : pr pv :=
  match v, sep with
  | VStr x, VStr [c] => POk (VList (map VStr (split_chr c x [])))
  | VStr _, _ => PStuck
  | VObj _ _, _ => PStuck
  | _, _ => PRaise AttributeError
  end.

Definition py_chr (v : pv) : pr pv :=
  match v with
  | VInt z => if (z <? 0)%Z || (1114111 <? z)%Z then PRaise ValueError else POk (VStr [Z.to_N z])
  | VBool b => POk (VStr [if b then 1 else 0])
  | _ => PRaise TypeError
  end.

(* object attributes *)
Fixpoint fassoc (k : string) (l : list (string * pv)) : option pv :=
  match l with
  | [] => None
  | (k', v) :: r => if String.eqb k k' then Some v else fassoc k r
  end.

Definition py_getattr (o : pv) (name : string) : pr pv :=
  match o with
  | VObj _ fs => match fassoc name fs with Some v => POk v | None => PRaise AttributeError end
  | _ => PStuck
  end.

Definition py_setattr (o : pv) (name : string) (v : pv) : pr pv :=
  match o with
  | VObj c fs => POk (VObj c ((name, v) :: fs))
  | _ => PStuck
  end.

(* a format expression ("..." % x, f-strings): the text is not modelled; the translator only accepts
   it where the value flows into log calls and exception messages *)
Definition py_opaque_text : pr pv := POk (VStr []).

(* ---------- additions for the second group of translated functions ---------- *)

(* c[lo:hi] with bounds computed at run time (None = absent bound) *)
Definition py_slice_v (c : pv) (lo hi : option pv) : pr pv :=
  let bound (b : option pv) : option (option Z) :=
    match b with
    | None => Some None
    | Some VNone => Some None
    | Some v => match vint v with Some z => Some (Some z) | None => None end
    end in
  match bound lo, bound hi with
  | Some l, Some h => py_slice c l h
  | _, _ => PRaise TypeError
  end.

(* b.hex() *)
Definition py_hex (v : pv) : pr pv :=
  match v with
  | VBytes b => POk (VStr (hex b))
  | VObj _ _ => PStuck
  | _ => PRaise AttributeError
  end.

(* int.from_bytes(b, byteorder="big", signed=False) *)
Definition py_from_bytes_be (v : pv) : pr pv :=
  match v with
  | VBytes b => POk (VInt (Z.of_N (from_bytes_be b)))
  | _ => PStuck
  end.

(* EnumClass(x) for an IntEnum with the given values: the member (an int) or ValueError *)
Definition py_enum_of (values : list Z) (v : pv) : pr pv :=
  match vnum v with
  | Some z => if mem_Z z values then POk (VInt z) else PRaise ValueError
  | None => match v with VObj _ _ => PStuck | VFloat None => PStuck | _ => PRaise ValueError end
  end.

(* str(x) for the values whose text the translated code relies on *)
Definition py_str (v : pv) : pr pv :=
  match v with
  | VStr x => POk (VStr x)
  | VInt z => POk (VStr (dec_Z z))
  | _ => PStuck
  end.

(* one replacement field of an f-string: format(v, "") *)
Definition py_fmt_field (v : pv) : pr str :=
  match v with
  | VStr x => POk x
  | VInt z => POk (dec_Z z)
  | _ => PStuck
  end.

(* x.encode("ascii"): UnicodeEncodeError is a ValueError *)
Definition py_encode_ascii (v : pv) : pr pv :=
  match v with
  | VStr x => if forallb (fun c => c <? 128) x then POk (VBytes x) else PRaise ValueError
  | VObj _ _ => PStuck
  | _ => PRaise AttributeError
  end.

(* int(x, base): the standard library's parser is an oracle (None = ValueError); non-strings are a TypeError *)
Definition py_int_base (oracle : str -> Z -> option Z) (v base : pv) : pr pv :=
  match v, base with
  | VStr x, VInt b => match oracle x b with Some z => POk (VInt z) | None => PRaise ValueError end
  | VStr _, _ => PStuck
  | VObj _ _, _ => PStuck
  | _, _ => PRaise TypeError
  end.

(* ---------- additions for loops and list / dict methods (third group) ---------- *)

(* while True: body.  The body returns [VBool continue?; state]; fuel exhaustion is "not modelled" *)
Fixpoint py_loop (fuel : nat) (st : pv) (body : pv -> pr pv) : pr pv :=
  match fuel with
  | O => PStuck
  | S f =>
      match body st with
      | POk (VList [VBool true; st']) => py_loop f st' body
      | POk (VList [VBool false; st']) => POk st'
      | POk _ => PStuck
      | PRaise e => PRaise e
      | PStuck => PStuck
      end
  end.

(* l.append(x): the new list *)
Definition py_list_append (l x : pv) : pr pv :=
  match l with
  | VList xs => POk (VList (xs ++ [x]))
  | VObj _ _ => PStuck
  | _ => PRaise AttributeError
  end.

(* l.pop(): [popped value; the new list]; IndexError on an empty list *)
Definition py_list_pop (l : pv) : pr pv :=
  match l with
  | VList xs => match rev xs with
                | [] => PRaise IndexError
                | x :: r => POk (VList [x; VList (rev r)])
                end
  | VObj _ _ => PStuck
  | _ => PRaise AttributeError
  end.

(* d.get(k): the value or None *)
Definition py_dict_get (d k : pv) : pr pv :=
  match d, k with
  | VDict kv, VStr key => POk (match vassoc key kv with Some v => v | None => VNone end)
  | VDict _, (VList _ | VDict _) => PRaise TypeError
  | VDict _, VObj _ _ => PStuck
  | VDict _, _ => POk VNone
  | VObj _ _, _ => PStuck
  | _, _ => PRaise AttributeError
  end.

(* list(d.values()) in insertion order *)
Definition py_dict_values (d : pv) : pr pv :=
  match d with
  | VDict kv => POk (VList (map snd kv))
  | _ => PStuck
  end.

(* ---------- additions for sign_authorized (fourth group) ---------- *)

(* n.to_bytes(k, byteorder="little", signed=False): OverflowError when negative or too big *)
Definition py_to_bytes_le (v k : pv) : pr pv :=
  match vint v, vint k with
  | Some n, Some kk =>
      if (kk <? 0)%Z then PRaise ValueError else
      match to_bytes_le (Z.to_nat kk) n with
      | Some b => POk (VBytes b)
      | None => PRaise OverflowError
      end
  | _, _ => PStuck
  end.

(* identity of enum members / plain record objects: same class and the same fields *)
Fixpoint pv_same (a b : pv) {struct a} : bool :=
  match a, b with
  | VNone, VNone => true
  | VBool x, VBool y => Bool.eqb x y
  | VInt x, VInt y => (x =? y)%Z
  | VStr x, VStr y => str_eqb x y
  | VBytes x, VBytes y => bytes_eqb x y
  | VObj c f, VObj c' f' =>
      String.eqb c c' &&
      (fix go (l m : list (string * pv)) : bool :=
         match l, m with
         | [], [] => true
         | (k, x) :: l', (k', y) :: m' => String.eqb k k' && pv_same x y && go l' m'
         | _, _ => false
         end) f f'
  | _, _ => false
  end.

(* a == b where both sides may be enum members (objects): equal iff the same member *)
Definition py_eq_obj (a b : pv) : pr bool :=
  match a, b with
  | VObj _ _, VObj _ _ => POk (pv_same a b)
  | VObj _ _, _ | _, VObj _ _ => POk false
  | _, _ => py_eq a b
  end.

(* ---------- additions for loops over ranges / enumerations (fifth group) ---------- *)

Definition py_to_bytes_be (v k : pv) : pr pv :=
  match vint v, vint k with
  | Some n, Some kk =>
      if (kk <? 0)%Z then PRaise ValueError else
      match to_bytes_be (Z.to_nat kk) n with
      | Some b => POk (VBytes b)
      | None => PRaise OverflowError
      end
  | _, _ => PStuck
  end.

(* list(range(n)) *)
Definition py_range (v : pv) : pr pv :=
  match vint v with
  | Some n => POk (VList (map (fun i => VInt (Z.of_nat i)) (seq 0 (Z.to_nat n))))
  | None => PRaise TypeError
  end.

(* list(enumerate(c, start)) as a list of [index; item] pairs *)
Definition py_enumerate (c start : pv) : pr pv :=
  match vint start with
  | Some s0 =>
      pbind (py_iter c) (fun l =>
        POk (VList (map (fun p => VList [VInt (s0 + Z.of_nat (fst p)); snd p])
                        (combine (seq 0 (length l)) l))))
  | None => PStuck
  end.

(* ---------- additions for the block operations (sixth group) ---------- *)

(* a dictionary with integer keys, as built by `{err.X: resp.Y, ...}`: an association list of [key; value] pairs;
   d.get(k, default) on it, and on ordinary dictionaries *)
Fixpoint assoc_get (l : list pv) (k : Z) : option pv :=
  match l with
  | [] => None
  | VList [VInt k'; v] :: r => if (k =? k')%Z then Some v else assoc_get r k
  | _ :: r => assoc_get r k
  end.

Definition py_get_default (d k dflt : pv) : pr pv :=
  match d with
  | VDict kv => match k with
                | VStr key => POk (match vassoc key kv with Some v => v | None => dflt end)
                | VList _ | VDict _ => PRaise TypeError
                | VObj _ _ => PStuck
                | _ => POk dflt
                end
  | VObj c pairs =>
      if String.eqb c "intdict" then
        match vint k with
        | Some z => POk (match assoc_get (map snd pairs) z with Some v => v | None => dflt end)
        | None => PStuck
        end
      else PStuck
  | _ => PStuck
  end.

(* lexicographic <= on bytes, as Python compares bytes objects *)
Fixpoint bytes_le (a b : bytes) : bool :=
  match a, b with
  | [], _ => true
  | _ :: _, [] => false
  | x :: a', y :: b' => if x <? y then true else if y <? x then false else bytes_le a' b'
  end.

(* sorted(l, key=f) for keys that are bytes objects: stable insertion sort (Python's sort is stable) *)
Fixpoint insert_keyed (k : bytes) (v : pv) (l : list (bytes * pv)) : list (bytes * pv) :=
  match l with
  | [] => [(k, v)]
  | (k', v') :: r => if bytes_le k' k then (k', v') :: insert_keyed k v r else (k, v) :: l
  end.

Definition sort_keyed (l : list (bytes * pv)) : list pv :=
  map snd (fold_left (fun acc kv => insert_keyed (fst kv) (snd kv) acc) l []).

(* EnumClass(value) for an enum whose members are objects with a "value" field: the member or ValueError *)
Fixpoint py_enum_member (members : list pv) (v : pv) : pr pv :=
  match members with
  | [] => match v with VObj _ _ | VFloat None => PStuck | _ => PRaise ValueError end
  | m :: r =>
      match m with
      | VObj _ fs =>
          match fassoc "value" fs with
          | Some mv => match py_eq mv v with
                       | POk true => POk m
                       | POk false => py_enum_member r v
                       | PRaise e => PRaise e
                       | PStuck => PStuck
                       end
          | None => PStuck
          end
      | _ => PStuck
      end
  end.

(* member.name for a member of an IntEnum (members are their integer values here): the table is the enum's,
   read from the source; anything that is not a member has no .name the subset knows *)
Definition py_enum_name (tbl : list (Z * str)) (v : pv) : pr pv :=
  match v with
  | VInt z => match find (fun p => Z.eqb (fst p) z) tbl with
              | Some p => POk (VStr (snd p))
              | None => PStuck
              end
  | _ => PStuck
  end.

(* text.lower(), for ASCII text (what the subset's texts are); other code points leave the subset *)
Definition lower_cp (c : N) : N := if (65 <=? c)%N && (c <=? 90)%N then (c + 32)%N else c.
Definition py_lower (v : pv) : pr pv :=
  match v with
  | VStr x => if forallb (fun c => (c <? 128)%N) x then POk (VStr (map lower_cp x)) else PStuck
  | _ => PStuck
  end.

(* type(x) == C / isinstance(x, C) for an object and a class given by name (classes without subclasses in the
   translated code: the translator checks that) *)
Definition obj_class_is (v : pv) (c : string) : bool :=
  match v with VObj n _ => String.eqb n c | _ => false end.
