"""Drive admin verify_attestation commands (Ledger and SGX) on generated triples (attestation
file, public-keys file, root of trust) and render the runs for the Coq checker."""
import contextlib
import hashlib
import io
import json
import os
import re
import types

import env  # noqa: F401
import certs
import gen
from coqgen import c_bool, c_bytes, c_list, c_opt, c_str, c_N

HEADER = "From PowHsm Require Import Model.Verify Model.CaseCheckVerify.\nOpen Scope N_scope.\n"
UI_PATH = "m/44'/0'/0'/0/0"


def make_pubkeys(rng, paths=None):
    """{path: K1Key}"""
    return {p: certs.K1Key(rng) for p in (paths or gen.PATHS)}


def compressed(k):
    return k.vk.to_string("compressed")


def keys_hash(keys):
    h = hashlib.sha256()
    for p in sorted(keys):
        h.update(keys[p].pub())
    return h.digest()


def pubkeys_json(keys):
    return {p: k.pub().hex() for p, k in keys.items()}


def ui_message(rng, keys, version=b"5.4"):
    uk = keys.get(UI_PATH) or certs.K1Key(rng)
    return b"HSM:UI:" + version + gen.rbytes(rng, 32) + compressed(uk) + gen.rbytes(rng, 32) + gen.rbytes(rng, 2)


def powhsm_message(rng, kh, version=b"5.4", platform=b"led"):
    return b"POWHSM:" + version + b"::" + platform + gen.rbytes(rng, 32) + kh + gen.rbytes(rng, 32) + \
        gen.rbytes(rng, 8) + gen.rbytes(rng, 8)


def v1_doc_with(rng, ui_msg, signer_msg):
    """genuine chain whose ui / signer messages are the given ones"""
    root, dev, att = certs.K1Key(rng), certs.K1Key(rng), certs.K1Key(rng)
    dev_msg = bytes([0x02]) + gen.rbytes(rng, 5) + dev.pub()
    att_msg = bytes([0xFF]) + att.pub()
    ui_hash, signer_hash = gen.rbytes(rng, 32), gen.rbytes(rng, 32)
    els = [
        {"name": "attestation", "message": att_msg.hex(), "signature": dev.sign(att_msg).hex(),
         "signed_by": "device"},
        {"name": "device", "message": dev_msg.hex(), "signature": root.sign(dev_msg).hex(), "signed_by": "root"},
        {"name": "ui", "message": ui_msg.hex(), "signature": att.sign(ui_msg, ui_hash).hex(),
         "signed_by": "attestation", "tweak": ui_hash.hex()},
        {"name": "signer", "message": signer_msg.hex(), "signature": att.sign(signer_msg, signer_hash).hex(),
         "signed_by": "attestation", "tweak": signer_hash.hex()},
    ]
    return {"version": 1, "targets": ["ui", "signer"], "elements": els}, root


def capture_validate():
    """wrap validate_and_get_values to record what it returned"""
    from admin.certificate import HSMCertificate
    rec = {}
    orig = HSMCertificate.validate_and_get_values

    def wrapped(self, root):
        r = orig(self, root)
        rec["result"] = r
        return r
    HSMCertificate.validate_and_get_values = wrapped
    return rec, lambda: setattr(HSMCertificate, "validate_and_get_values", orig)


def run_cmd(fn, options):
    buf = io.StringIO()
    err = None
    try:
        with contextlib.redirect_stdout(buf):
            fn(options)
    except BaseException as e:
        err = "%s: %s" % (type(e).__name__, str(e)[:200])
    return err, buf.getvalue()


def field(out, label, nth=0):
    ms = re.findall(r"^%s: (.*)$" % re.escape(label), out, flags=re.M)
    return ms[nth] if len(ms) > nth else None


def parse_ledger_stdout(out):
    try:
        o = {
            "ud": bytes.fromhex(field(out, "UD value", 0)),
            "pubkey": bytes.fromhex(re.search(r"^Derived public key \(.*\): (.*)$", out, flags=re.M).group(1)),
            "auth_signer_hash": bytes.fromhex(field(out, "Authorized signer hash")),
            "iteration": int(field(out, "Authorized signer iteration")),
            "ui_hash": bytes.fromhex(field(out, "Installed UI hash")),
            "ui_version": field(out, "Installed UI version").encode("latin1"),
            "keys_hash": bytes.fromhex(field(out, "Hash")),
            "signer_hash": bytes.fromhex(field(out, "Installed Signer hash")),
            "signer_version": field(out, "Installed Signer version").encode("latin1"),
            "powhsm": None,
        }
        if field(out, "Platform") is not None:
            o["powhsm"] = {"platform": field(out, "Platform").encode("latin1"),
                           "ud": bytes.fromhex(field(out, "UD value", 1)),
                           "best_block": bytes.fromhex(field(out, "Best block")),
                           "last_tx": bytes.fromhex(field(out, "Last transaction signed")),
                           "timestamp": int(field(out, "Timestamp"))}
        return o
    except Exception as e:
        return {"unparseable": repr(e), "stdout": out[-600:]}


def parse_sgx_stdout(out):
    try:
        return {"keys_hash": bytes.fromhex(field(out, "Hash")),
                "mrenclave": bytes.fromhex(field(out, "Installed powHSM MRENCLAVE")),
                "mrsigner": bytes.fromhex(field(out, "Installed powHSM MRSIGNER")),
                "version": field(out, "Installed powHSM version").encode("latin1"),
                "powhsm": {"platform": field(out, "Platform").encode("latin1"),
                           "ud": bytes.fromhex(field(out, "UD value", 0)),
                           "best_block": bytes.fromhex(field(out, "Best block")),
                           "last_tx": bytes.fromhex(field(out, "Last transaction signed")),
                           "timestamp": int(field(out, "Timestamp"))}}
    except Exception as e:
        return {"unparseable": repr(e), "stdout": out[-600:]}


def c_pm(p):
    return "(mkPmObs %s %s %s %s %s)" % (c_bytes(p["platform"]), c_bytes(p["ud"]), c_bytes(p["best_block"]),
                                         c_bytes(p["last_tx"]), c_N(p["timestamp"]))


def c_keys(keys):
    """keys: {path: (uncompressed, compressed)} | None"""
    if keys is None:
        return "None"
    return "(Some %s)" % c_list("(mkKey %s %s %s)" % (c_str(p), c_bytes(u), c_bytes(c))
                                for p, (u, c) in keys.items())


def c_tres(result, name):
    if result is None or name not in result:
        return "None"
    r = result[name]
    if r[0] is True:
        tw = "None" if r[2] is None else "(Some %s)" % c_bytes(bytes.fromhex(r[2]))
        return "(Some (TValid %s %s))" % (c_bytes(bytes.fromhex(r[1])), tw)
    return "(Some TInvalid)"


def to_lcase(keys, result, obs):
    if obs is None:
        o = "None"
    else:
        o = "(Some (mkLo %s %s %s %s %s %s %s %s %s %s))" % (
            c_bytes(obs["ud"]), c_bytes(obs["pubkey"]), c_bytes(obs["auth_signer_hash"]), c_N(obs["iteration"]),
            c_bytes(obs["ui_hash"]), c_bytes(obs["ui_version"]), c_bytes(obs["keys_hash"]),
            c_bytes(obs["signer_hash"]), c_bytes(obs["signer_version"]),
            "None" if obs["powhsm"] is None else "(Some %s)" % c_pm(obs["powhsm"]))
    return "(mkLcase %s %s %s %s)" % (c_keys(keys), c_tres(result, "ui"), c_tres(result, "signer"), o)


def to_xcase(root_ok, keys, quote, obs):
    if obs is None:
        o = "None"
    else:
        o = "(Some (mkSo %s %s %s %s %s))" % (c_bytes(obs["keys_hash"]), c_bytes(obs["mrenclave"]),
                                              c_bytes(obs["mrsigner"]), c_bytes(obs["version"]),
                                              c_pm(obs["powhsm"]))
    q = "None" if quote is None else "(Some (%s, %s))" % (c_bytes(quote[0]), c_bytes(quote[1]))
    return "(mkXcase %s %s %s %s)" % (c_bool(root_ok), c_keys(keys), q, o)
