"""Systematic boundary lattice of requests: for each command and mode a valid base request and,
for each field, the list of deviating values (absent, null, bool, numbers around every bound,
floats, empty, odd hex, hex with blanks, non-ASCII, lists, objects).  All single-field
deviations are enumerated; pairwise deviations are sampled."""
import copy
import gen

ABSENT = object()

HEXISH = ["", "a", "zz", "0x12", "ab cd", " ab", "ab ", "a b", "AB", "١٢", "ab cd", "ab\tcd",
          "\ud800"]
GENERIC = [ABSENT, None, True, False, 0, 1, -1, 5, 5.0, 5.5, 1e400, float("nan"), "", "x", [], [1], {}, {"a": 1}]


def base_requests(rng, mode):
    hs = [gen.random_header(rng, 19), gen.random_header(rng, 20)]
    tx = gen.random_tx(rng, max_in=2, max_out=2)
    auth = {"receipt": gen.random_receipt(rng).hex(),
            "receipt_merkle_proof": [n.hex() for n in gen.random_proof(rng)[:3]]}
    if mode == "v1":
        return {
            "version": {"command": "version"},
            "sign": {"command": "sign", "version": 1, "keyId": gen.PATHS[1], "message": "aa" * 32},
            "getPubKey": {"command": "getPubKey", "version": 1, "keyId": gen.PATHS[0]},
        }
    return {
        "version": {"command": "version"},
        "sign-legacy": {"command": "sign", "version": 5, "keyId": gen.AUTH_PATHS[0], "auth": auth,
                        "message": {"tx": tx.raw().hex(), "input": 0, "sighashComputationMode": "legacy"}},
        "sign-segwit": {"command": "sign", "version": 5, "keyId": gen.AUTH_PATHS[1], "auth": auth,
                        "message": {"tx": tx.raw().hex(), "input": 0, "sighashComputationMode": "segwit",
                                    "witnessScript": "51" * 20, "outpointValue": 1000}},
        "sign-hash": {"command": "sign", "version": 5, "keyId": gen.UNAUTH_PATHS[0],
                      "message": {"hash": "bb" * 32}},
        "getPubKey": {"command": "getPubKey", "version": 5, "keyId": gen.PATHS[0]},
        "advanceBlockchain": {"command": "advanceBlockchain", "version": 5,
                              "blocks": [h.hex() for h in hs],
                              "brothers": [[gen.random_header(rng, 19).hex()], []]},
        "resetAdvanceBlockchain": {"command": "resetAdvanceBlockchain", "version": 5},
        "blockchainState": {"command": "blockchainState", "version": 5},
        "updateAncestorBlock": {"command": "updateAncestorBlock", "version": 5,
                                "blocks": [h.hex() for h in hs]},
        "blockchainParameters": {"command": "blockchainParameters", "version": 5},
        "signerHeartbeat": {"command": "signerHeartbeat", "version": 5, "udValue": "11" * 16},
        "uiHeartbeat": {"command": "uiHeartbeat", "version": 5, "udValue": "22" * 32},
    }


def field_deviations(path, base_value, mode):
    """values to try at a field, besides the generic ones"""
    name = path[-1]
    v = list(GENERIC)
    if name == "version":
        v += [4, 6, 1, 5, "5", [5], 4.999, 2 ** 64]
    if name == "command":
        v += ["Sign", "sign ", "unknown", "version", "getPubKey", 0, ["sign"], {"sign": 1},
              # every command name of either protocol (a name known to one protocol only is unknown to the other)
              "sign", "advanceBlockchain", "resetAdvanceBlockchain", "blockchainState", "updateAncestorBlock",
              "blockchainParameters", "signerHeartbeat", "uiHeartbeat"]
    if name == "keyId":
        v += ["m/44'/0'/0'/0", "m/44'/0'/0'/0/0/0", "m/44'/0'/0'/0/", "44'/0'/0'/0/0", "m/44'/0'/0'/0/-1",
              "m/44'/0'/0'/0/2147483648", "m/44'/0'/0'/0/2147483647", "m/44'/0'/0'/0/2147483647'",
              "m/44''/0'/0'/0/0", "m/٤٤'/0'/0'/0/0", "m/44'/0'/0'/0/²", "m/4 4'/0'/0'/0/0",
              "M/44'/0'/0'/0/0", "m/44'/0'/0'/0/" + "1" * 4301, "m/44'/0'/0'/0/" + "0" * 4300 + "1",
              "m/44'/0'/0'/0/+1", "m/44'/0'/0'/0/1_0", "m//0'/0'/0/0", "m/44'/1'/5'/0/0"]
    if name in ("hash", "udValue") or (name == "message" and mode == "v1"):
        n = len(base_value) // 2
        v += HEXISH + ["aa" * (n - 1), "aa" * (n + 1), "aa" * n, "Aa" * n, ("aa " * n).strip(),
                       "aa" * n + " ", "0x" + "aa" * n, "aa" * (n - 1) + "a",
                       # every prefix / radix spelling a lenient parser might strip, around the exact length
                       "0X" + "aa" * n, "0X" + "aa" * (n - 1), "0x" + "aa" * (n - 1), "0XAA" + "aa" * (n - 1),
                       "x" + "aa" * n, "#" + "aa" * n, "\\x" + "aa" * n, "0x", "0X", "aa" * n + "h",
                       "+" + "aa" * n, "-" + "aa" * n, "a_a" + "aa" * (n - 1)]
    if name in ("tx", "receipt", "witnessScript"):
        v += HEXISH + ["00", base_value[:-2], base_value + "00", base_value[:len(base_value) // 2],
                       "ff" * 70000, base_value.upper(), "0x" + base_value, "0X" + base_value, " ".join(base_value[i:i + 2]
                                                                 for i in range(0, len(base_value), 2))]
    if name == "input":
        v += [2, 255, 256, 65536, 2 ** 31, 2 ** 32 - 1, 2 ** 32, 2 ** 32 + 1, 2 ** 64, -2 ** 31, 1.0, "0"]
    if name == "outpointValue":
        v += [2 ** 64 - 1, 2 ** 64, 2 ** 64 + 1, 2 ** 63, 0.5, "1000", 2 ** 128]
    if name == "sighashComputationMode":
        v += ["legacy", "segwit", "Legacy", "taproot", "legacy "]
    if name == "receipt_merkle_proof":
        v += [["zz"], [""], ["aa", 1], ["aa"] * 255, ["aa"] * 256, ["aa" * 255], ["aa" * 256], [["aa"]]]
    if name == "blocks":
        v += [["zz"], [""], ["aa"], [1], [None], base_value[:1], base_value + ["c0"], ["c0"], ["f90000"],
              [base_value[0][:-2]], [base_value[0] + "00"], ["d1" + "80" * 17], ["91" + "80" * 17],
              ["d3" + "80" * 19], ["d3" + "80" * 18 + "c0"], ["d2" + "80" * 17 + "c0"]]
    if name == "brothers":
        v += [[[]], [[], [], []], [["zz"], []], [[""], []], [[1], []], ["aa", []], [["aa"], []],
              [["c0"], []], [[base_value[0][0]] * 11, []], [[base_value[0][0]] * 256, []],
              [["d3" + "80" * 18 + "c0"], []], [["d1" + "80" * 17], []], [None, None]]
    if name == "auth":
        v += [{"receipt": "aa"}, {"receipt_merkle_proof": ["aa"]}, {"receipt": "aa", "receipt_merkle_proof": []}]
    if name == "message" and mode == "v5":
        v += [{"hash": "bb" * 32, "extra": 1}, {"tx": "aa", "input": 0}, {},
              {"hash": "bb" * 32, "tx": "aa", "input": 0, "sighashComputationMode": "legacy"}]
    return v


def set_path(req, path, value):
    r = copy.deepcopy(req)
    o = r
    for k in path[:-1]:
        o = o[k]
    if value is ABSENT:
        o.pop(path[-1], None)
    else:
        o[path[-1]] = value
    return r


def field_paths(req, prefix=()):
    out = []
    for k, v in req.items():
        out.append(prefix + (k,))
        if isinstance(v, dict):
            out.extend(field_paths(v, prefix + (k,)))
    return out


def single_deviations(rng, mode):
    """yield (shape, path, value, request)"""
    for shape, req in base_requests(rng, mode).items():
        yield shape, None, None, req
        for path in field_paths(req):
            o = req
            for k in path:
                o = o[k]
            for val in field_deviations(path, o, mode):
                yield shape, path, val, set_path(req, path, val)
        # an extra, unknown field
        r = copy.deepcopy(req)
        r["unexpected"] = 1
        yield shape, ("unexpected",), 1, r


def pairwise_deviations(rng, mode, n):
    bases = base_requests(rng, mode)
    shapes = list(bases)
    for _ in range(n):
        shape = rng.choice(shapes)
        req = bases[shape]
        paths = field_paths(req)
        r = req
        for path in rng.sample(paths, min(2, len(paths))):
            o = req
            try:
                for k in path:
                    o = o[k]
                val = rng.choice(field_deviations(path, o, mode))
                r = set_path(r, path, val)
            except (KeyError, TypeError):
                continue
        yield shape, "pair", None, r


NON_OBJECTS = [None, True, 0, 5, -1.5, "sign", "", [], [1, 2], [{"command": "version"}], "{}"]
