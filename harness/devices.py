"""Device simulators written from the firmware's protocol (firmware/src/powhsm/src/*.c and
firmware/src/ledger/ui), independent of the middleware.  They keep to the protocol: every
answer is the expected opcode with an adequate length, or a status word in the device range.
A `policy` decides chunk sizes, early/late termination and injected statuses, so one simulator
covers every device behaviour the properties quantify over.  Each simulator reassembles what it
receives; property oracles compare that with what the client asked for."""
import hashlib
import struct

CLA = 0x80


def D(*parts):
    out = b""
    for p in parts:
        out += bytes([p]) if isinstance(p, int) else bytes(p)
    return ("D", out)


def der(r, s):
    """DER signature body for byte strings r, s (lengths 0..127)."""
    body = b"\x02" + bytes([len(r)]) + r + b"\x02" + bytes([len(s)]) + s
    return b"\x30" + bytes([len(body)]) + body


class Policy:
    """Default policy: fixed chunk size, no faults."""

    def __init__(self, rng=None, chunk=None, chunks=None):
        self.rng = rng
        self.fixed = chunk
        self.seq = list(chunks or [])

    def chunk(self, remaining):
        """How many bytes to ask for next (1..255); may exceed what remains."""
        if self.seq:
            return self.seq.pop(0)
        if self.fixed is not None:
            return self.fixed
        if self.rng is not None:
            r = self.rng.random()
            if r < 0.1:
                return 1
            if r < 0.2:
                return 255
            if r < 0.3:
                return max(1, min(255, remaining))
            return self.rng.randint(1, 255)
        return max(1, min(255, remaining))


def rlp_total_length(prefix):
    """Total encoded length of the RLP item starting with these bytes, or None if more bytes
    are needed / the prefix is not acceptable."""
    if not prefix:
        return None
    b0 = prefix[0]
    if b0 < 0x80:
        return 1
    if b0 < 0xB8:
        return 1 + (b0 - 0x80)
    if b0 < 0xC0:
        ll = b0 - 0xB7
        if len(prefix) < 1 + ll:
            return None
        return 1 + ll + int.from_bytes(prefix[1:1 + ll], "big")
    if b0 < 0xF8:
        return 1 + (b0 - 0xC0)
    ll = b0 - 0xF7
    if len(prefix) < 1 + ll:
        return None
    return 1 + ll + int.from_bytes(prefix[1:1 + ll], "big")


class Device:
    """A powHSM (Ledger flavour by default).  mode: 2 bootloader, 3 signer, 4 ui-heartbeat."""

    def __init__(self, mode=3, onboarded=True, version=(5, 4, 1), ui_version=(5, 4, 1),
                 policy=None, sgx=False):
        self.mode = mode
        self.onboarded = onboarded
        self.version = version
        self.ui_version = ui_version
        self.policy = policy or Policy()
        self.sgx = sgx
        # signer data
        self.hashes = {c: bytes([c]) * 32 for c in (1, 2, 3, 5, 0x81, 0x82, 0x84)}
        self.difficulty = 0
        self.flags = (0, 0, 0)
        self.params = (b"\xaa" * 32, 7000000000000000000000, 1)
        self.pubkeys = {}            # path bytes -> 65-byte key
        self.sign_sig = (b"\x11" * 32, b"\x22" * 32)
        self.hb = {"sig": (b"\x33" * 32, b"\x44" * 32), "msg": b"HSM:SIGNER:HB:5.4:" + b"m" * 40,
                   "hash": b"\x55" * 32, "pubkey": b"\x04" + b"\x66" * 64}
        self.uihb = {"sig": (b"\x77" * 31, b"\x08" * 32), "msg": b"HSM:UI:HB:5.4:" + b"u" * 40,
                     "hash": b"\x99" * 32, "pubkey": b"\x04" + b"\xaa" * 64}
        # PIN
        self.pin = b"1234567a"
        self.retries = 3
        self.pin_buffer = {}
        self.unlocked = mode != 2
        # logs
        self.log = []
        # sign state
        self.sg = None
        self.bo = None
        self.received = {}           # reassembled parts of the last operation
        self.inject = {}             # (cmd, op) -> status word to answer with, once
        self.inject_at = {}          # n -> status word / ("T",) ... answered to the n-th APDU from now (0-based)
        self.napdu = 0
        self.early = {}              # stage -> byte count after which the device moves on early
        self.reported_success = False
        self.final_op = None         # override of the final SUCCESS op of sign (e.g. a wrong op)
        self.after_exit = None       # mode to switch to after EXIT

    # -- helpers
    def err(self, sw):
        return ("S", sw)

    def __call__(self, apdu):
        self.log.append(apdu)
        if len(apdu) < 2 or apdu[0] != CLA:
            return self.err(0x6E00)
        cmd = apdu[1]
        data = apdu[2:]
        n = self.napdu
        self.napdu += 1
        if n in self.inject_at:
            v = self.inject_at.pop(n)
            return self.err(v) if isinstance(v, int) else tuple(v)
        key = (cmd, data[0] if data else None)
        if key not in self.inject and (cmd, "*") in self.inject:
            key = (cmd, "*")
        if key in self.inject:
            v = self.inject.pop(key)
            return self.err(v) if isinstance(v, int) else tuple(v)     # status word | ("T",) ("W",) ("R",)
        h = getattr(self, "cmd_%02x" % cmd, None)
        if h is None:
            return self.err(0x6D00)
        return h(data)

    # -- common
    echo_bad = False
    onboard_status = None        # answer IS_ONBOARD with this status word instead

    def cmd_43(self, data):      # GET_MODE
        return D(CLA, self.mode)

    def cmd_06(self, data):      # IS_ONBOARD
        if self.onboard_status is not None:
            return self.err(self.onboard_status)
        v = self.ui_version if self.mode in (2, 4) else self.version
        return D(CLA, 1 if self.onboarded else 0, *v)

    def echo_answer(self, cmd, data):
        """the echo, or one of the ways an echo can be wrong: another payload (True / "payload"), the right
        payload under a wrong class byte or a wrong command byte, a byte short, a byte long"""
        k = self.echo_bad
        if not k:
            return D(CLA, cmd, data)
        if k == "class":
            return D(0x00, cmd, data)
        if k == "cmd":
            return D(CLA, (cmd + 1) & 0xFF, data)
        if k == "short":
            return D(CLA, cmd, bytes(data[:-1]))
        if k == "long":
            return D(CLA, cmd, bytes(data) + b"\x00")
        return D(CLA, cmd, bytes(data[:-1]) + b"\x00")

    # -- bootloader / UI
    def cmd_02(self, data):
        if self.mode == 2:       # ECHO
            return self.echo_answer(0x02, data)
        return self.sign(data)

    def cmd_45(self, data):      # RETRIES
        return D(CLA, 0x45, self.retries)

    def cmd_41(self, data):      # SEND_PIN
        if len(data) != 2:
            return self.err(0x6A87)
        self.pin_buffer[data[0]] = data[1]
        return D(CLA, 0x41)

    def _pin_sent(self, prefixed):
        bs = bytes(self.pin_buffer[i] for i in sorted(self.pin_buffer))
        self.pin_buffer = {}
        if prefixed:
            return bs[1:1 + bs[0]] if bs else b""
        return bs

    def cmd_fe(self, data):      # UNLOCK
        sent = self._pin_sent(False)
        self.log.append(("unlock", sent))
        if sent == self.pin and self.retries > 0:
            self.unlocked = True
            self.retries = 3
            return D(CLA, 0xFE, 1)
        self.retries = max(0, self.retries - 1)
        return D(CLA, 0xFE, 0)

    def cmd_08(self, data):      # CHANGE_PIN
        sent = self._pin_sent(True)
        ok = len(sent) == 8 and sent.isalnum() and any(chr(c).isalpha() for c in sent)
        if not ok or not self.unlocked:
            return self.err(0x69A0)
        self.pin = sent
        return D(CLA, 0x08)

    def cmd_ff(self, data):      # EXIT_MENU / exit app
        if self.after_exit is not None:
            self.mode = self.after_exit.pop(0) if isinstance(self.after_exit, list) \
                else self.after_exit
        return ("W",)            # the device drops off the bus

    def cmd_fa(self, data):
        return self.cmd_ff(data)

    # -- onboarding (bootloader): SEED i b ... ; SEND_PIN (length-prefixed) ; WIPE
    def cmd_44(self, data):
        if len(data) != 2:
            return self.err(0x6A87)
        self.received.setdefault("seed", {})[data[0]] = data[1]
        return D(CLA, 0x44)

    def cmd_07(self, data):      # WIPE: onboard with the seed and PIN received
        self.received["onboard_pin"] = self._pin_sent(True)
        self.onboarded = True
        self.pin = self.received["onboard_pin"]
        # the state in which the device shows up again once it has been disconnected and re-connected
        for k, v in (getattr(self, "after_wipe", None) or {}).items():
            setattr(self, k, v)
        return D(CLA, 2)

    def cmd_a0(self, data):      # SGX_ONBOARD: 0 | seed(32) | pin
        self.received["seed"] = {i: b for i, b in enumerate(data[1:33])}
        self.received["onboard_pin"] = bytes(data[33:])
        self.onboarded = True
        self.pin = bytes(data[33:])
        return D(CLA, 0xA0, 1)

    # -- SGX variants
    def cmd_a4(self, data):
        return self.echo_answer(0xA4, data)

    def cmd_a2(self, data):
        return D(CLA, 0xA2, self.retries)

    def cmd_a3(self, data):
        sent = data[1:]
        self.log.append(("unlock", sent))
        if sent == self.pin and self.retries > 0:
            self.unlocked = True
            self.mode = 3
            return D(CLA, 0xA3, 1)
        self.retries = max(0, self.retries - 1)
        return D(CLA, 0xA3, 0)

    def cmd_a5(self, data):
        sent = data[1:]
        ok = len(sent) == 8 and sent.isalnum() and any(chr(c).isalpha() for c in sent)
        if not ok or not self.unlocked:
            return D(CLA, 0xA5, 0)
        self.pin = sent
        return D(CLA, 0xA5, 1)

    # -- signer: queries
    def cmd_04(self, data):      # GET_PUBLIC_KEY
        if len(data) != 21:
            return self.err(0x6A87)
        k = self.pubkeys.get(bytes(data))
        if k is None:
            return self.err(0x6A8F)
        return ("D", k)

    def cmd_20(self, data):      # GET_STATE
        if not data:
            return self.err(0x6B87)
        if data[0] == 1:
            if len(data) != 2 or data[1] not in self.hashes:
                return self.err(0x6B87)
            return D(CLA, 0x20, 1, data[1], self.hashes[data[1]])
        if data[0] == 2:
            d = self.difficulty
            return D(CLA, 0x20, 2, d.to_bytes((d.bit_length() + 7) // 8, "big"))
        if data[0] == 3:
            return D(CLA, 0x20, 3, bytes(self.flags))
        return self.err(0x6B87)

    def cmd_21(self, data):      # RESET_AB
        if data != b"\x01":
            return self.err(0x6B87)
        return D(CLA, 0x21, 2)

    def cmd_11(self, data):      # GET_PARAMETERS
        cp, mrd, net = self.params
        return D(CLA, 0x11, 0, cp, mrd.to_bytes(36, "big"), net)

    def cmd_60(self, data):      # heartbeat (signer or UI)
        hb = self.uihb if self.mode == 4 else self.hb
        if not data:
            return self.err(0x6B10)
        op = data[0]
        if op == 1:
            need = 32 if self.mode == 4 else 16
            if len(data) - 1 != need:
                return self.err(0x6B10)
            self.received["hb_ud"] = bytes(data[1:])
            return D(CLA, 0x60, 1)
        if op == 2:
            return D(CLA, 0x60, 2, der(*hb["sig"]))
        if op == 3:
            return D(CLA, 0x60, 3, hb["msg"])
        if op == 4:
            return D(CLA, 0x60, 4, hb["hash"])
        if op == 5:
            return D(CLA, 0x60, 5, hb["pubkey"])
        return self.err(0x6B10)

    # -- signer: sign (auth.c, auth_path.c, auth_tx.c, auth_receipt.c, auth_trie.c)
    def sign(self, data):
        if not data:
            return self.err(0x6A87)
        op = data[0]
        body = bytes(data[1:])
        if op == 0x01:
            self.received = {}
            self.oversize = None
            self.reported_success = False
            if len(body) == 21 + 4:
                self.received["path"] = body[:21]
                self.received["input"] = body[21:]
                self.sg = {"stage": "tx", "buf": b"", "total": None}
                self.ask = self.policy.chunk(4)
                return D(CLA, 0x02, 0x02, self.ask)
            if len(body) == 21 + 32:
                self.received["path"] = body[:21]
                self.received["hash"] = body[21:]
                self.sg = None
                self.reported_success = True
                return D(CLA, 0x02, 0x81, der(*self.sign_sig))
            return self.err(0x6A87)
        if self.sg is None:
            return self.err(0x6A89)
        sg = self.sg
        if op == 0x02 and sg["stage"] == "tx":
            if len(body) > self.ask:
                self.oversize = (sg["stage"], self.ask, len(body))     # sent more than was asked for
                return self.err(0x6A87)
            sg["buf"] += body
            if sg["total"] is None and len(sg["buf"]) >= 7:
                pl = struct.unpack("<I", sg["buf"][:4])[0]
                edl = struct.unpack("<H", sg["buf"][5:7])[0]
                sg["total"] = pl + edl
            if (sg["total"] is not None and len(sg["buf"]) >= sg["total"]) or \
                    self._early_hit("tx", len(sg["buf"]), sg["total"]):
                self.received["btc_payload"] = sg["buf"]
                self.sg = {"stage": "receipt", "buf": b"", "total": None}
                self.ask = self.policy.chunk(3)
                return D(CLA, 0x02, 0x04, self.ask)
            rem = (sg["total"] - len(sg["buf"])) if sg["total"] is not None else 7
            self.ask = self._early_cap("tx", self.policy.chunk(rem), len(sg["buf"]), sg["total"])
            return D(CLA, 0x02, 0x02, self.ask)
        if op == 0x04 and sg["stage"] == "receipt":
            if len(body) > self.ask:
                self.oversize = (sg["stage"], self.ask, len(body))     # sent more than was asked for
                return self.err(0x6A87)
            sg["buf"] += body
            if sg["total"] is None:
                sg["total"] = rlp_total_length(sg["buf"])
            if (sg["total"] is not None and len(sg["buf"]) >= sg["total"]) or \
                    self._early_hit("receipt", len(sg["buf"]), sg["total"]):
                self.received["receipt"] = sg["buf"]
                self.sg = {"stage": "proof", "buf": b""}
                self.ask = self.policy.chunk(1)
                return D(CLA, 0x02, 0x08, self.ask)
            if len(body) == 0 and self.ask > 0:
                return self.err(0x6A8A)      # client has nothing more: receipt RLP incomplete
            rem = (sg["total"] - len(sg["buf"])) if sg["total"] is not None else 3
            self.ask = self._early_cap("receipt", self.policy.chunk(rem), len(sg["buf"]), sg["total"])
            return D(CLA, 0x02, 0x04, self.ask)
        if op == 0x08 and sg["stage"] == "proof":
            if len(body) > self.ask:
                self.oversize = (sg["stage"], self.ask, len(body))     # sent more than was asked for
                return self.err(0x6A87)
            sg["buf"] += body
            need = self._proof_need(sg["buf"])
            if need == 0 or ("proof" in self.early and len(sg["buf"]) >= self.early["proof"]):
                self.received["proof"] = sg["buf"]
                self.sg = None
                self.reported_success = (self.final_op or 0x81) == 0x81
                return D(CLA, 0x02, self.final_op or 0x81, der(*self.sign_sig))
            if len(body) == 0 and self.ask > 0:
                return self.err(0x6A89)
            self.ask = self.policy.chunk(need)
            return D(CLA, 0x02, 0x08, self.ask)
        return self.err(0x6A89)

    def _early_hit(self, stage, have, total):
        """early[stage] = n >= 0: move on after n bytes; n < 0: move on -n bytes short of the total"""
        if stage not in self.early:
            return False
        n = self.early[stage]
        if n >= 0:
            return have >= n
        return total is not None and have >= total + n

    def _early_cap(self, stage, ask, have, total):
        n = self.early.get(stage)
        if n is not None and n < 0 and total is not None and total + n > have:
            return max(1, min(ask, total + n - have))
        return ask

    @staticmethod
    def _proof_need(buf):
        """bytes still missing from a `count | (len | node)*` proof (a lower bound > 0), 0 if done"""
        if not buf:
            return 1
        n = buf[0]
        i = 1
        for _ in range(n):
            if i >= len(buf):
                return 1
            ln = buf[i]
            i += 1
            if i + ln > len(buf):
                return i + ln - len(buf)
            i += ln
        return 0

    # -- signer: advance / update ancestor (bc_advance.c, bc_ancestor.c)
    def cmd_10(self, data):
        return self.blockop(0x10, data)

    def cmd_30(self, data):
        return self.blockop(0x30, data)

    # plan: how the device wants the operation to go
    #   stop_after: number of blocks after which it reports success (None = all)
    #   partial: report PARTIAL instead of SUCCESS when stopping early
    #   ask_brothers: set of block indexes (0-based) for which it asks for brothers
    bo_plan = None
    final_report = None

    def blockop(self, cmd, data):
        adv = cmd == 0x10
        OP = dict(INIT=2, META=3, CHUNK=4, PARTIAL=5 if adv else None, SUCCESS=6 if adv else 5,
                  BLM=7, BM=8, BC=9)
        if not data:
            return self.err(0x6B87)
        op = data[0]
        body = bytes(data[1:])
        plan = self.bo_plan or {}
        if op == OP["INIT"]:
            if len(body) != 4:
                return self.err(0x6B87)
            self.received = {"count": struct.unpack(">I", body)[0], "blocks": [], "metas": [],
                             "brothers": {}, "bro_metas": {}, "bro_counts": {}}
            self.bo = {"cmd": cmd, "stage": "meta", "idx": 0}
            self.final_report = None
            return D(CLA, cmd, OP["META"])
        bo = self.bo
        if bo is None or bo["cmd"] != cmd:
            return self.err(0x6B87)
        rc = self.received

        def after_header():
            """block fully received: decide what comes next"""
            i = bo["idx"]
            done = i + 1
            if adv and i in plan.get("ask_brothers", set()) and not bo.get("bros_done"):
                bo["stage"] = "blm"
                return D(CLA, cmd, OP["BLM"])
            bo["bros_done"] = False
            stop = plan.get("stop_after")
            if done >= rc["count"] or (stop is not None and done >= stop):
                self.bo = None
                if adv and plan.get("partial"):
                    self.final_report = "partial"
                    return D(CLA, cmd, OP["PARTIAL"])
                self.final_report = "success"
                return D(CLA, cmd, OP["SUCCESS"])
            bo["idx"] = done
            bo["stage"] = "meta"
            return D(CLA, cmd, OP["META"])

        if op == OP["META"] and bo["stage"] == "meta":
            if len(body) != (2 + 32 if adv else 2):
                return self.err(0x6B87)
            rc["metas"].append(body)
            bo["stage"] = "chunk"
            bo["buf"] = b""
            bo["total"] = None
            self.ask = self.policy.chunk(3)
            return D(CLA, cmd, OP["CHUNK"], self.ask)
        if op == OP["CHUNK"] and bo["stage"] == "chunk":
            if len(body) > self.ask:
                return self.err(0x6B87)
            bo["buf"] += body
            if bo["total"] is None:
                bo["total"] = rlp_total_length(bo["buf"])
            if bo["total"] is not None and len(bo["buf"]) >= bo["total"]:
                rc["blocks"].append(bo["buf"])
                return after_header()
            if len(body) == 0 and self.ask > 0:
                return self.err(0x6B88)
            rem = (bo["total"] - len(bo["buf"])) if bo["total"] is not None else 3
            self.ask = self.policy.chunk(rem)
            return D(CLA, cmd, OP["CHUNK"], self.ask)
        if adv and op == OP["BLM"] and bo["stage"] == "blm":
            if len(body) != 1:
                return self.err(0x6B87)
            n = body[0]
            if n > 10:
                return self.err(0x6B87 + 23)     # BROTHERS_TOO_MANY
            rc["bro_counts"][bo["idx"]] = n
            rc["brothers"][bo["idx"]] = []
            rc["bro_metas"][bo["idx"]] = []
            bo["bros_left"] = n
            if n == 0:
                bo["bros_done"] = True
                return after_header()
            bo["stage"] = "bm"
            return D(CLA, cmd, OP["BM"])
        if adv and op == OP["BM"] and bo["stage"] == "bm":
            if len(body) != 2 + 32:
                return self.err(0x6B87)
            rc["bro_metas"][bo["idx"]].append(body)
            bo["stage"] = "bc"
            bo["buf"] = b""
            bo["total"] = None
            self.ask = self.policy.chunk(3)
            return D(CLA, cmd, OP["BC"], self.ask)
        if adv and op == OP["BC"] and bo["stage"] == "bc":
            if len(body) > self.ask:
                return self.err(0x6B87)
            bo["buf"] += body
            if bo["total"] is None:
                bo["total"] = rlp_total_length(bo["buf"])
            if bo["total"] is not None and len(bo["buf"]) >= bo["total"]:
                rc["brothers"][bo["idx"]].append(bo["buf"])
                bo["bros_left"] -= 1
                if bo["bros_left"] == 0:
                    bo["bros_done"] = True
                    return after_header()
                bo["stage"] = "bm"
                return D(CLA, cmd, OP["BM"])
            if len(body) == 0 and self.ask > 0:
                return self.err(0x6B88)
            rem = (bo["total"] - len(bo["buf"])) if bo["total"] is not None else 3
            self.ask = self.policy.chunk(rem)
            return D(CLA, cmd, OP["BC"], self.ask)
        return self.err(0x6B87)


class PowerCycled:
    """A signer-mode device that drops off the bus at its first APDU (the host sees a write error)
    and comes back in the bootloader, locked: what a power cycle looks like to the manager."""

    def __init__(self, inner):
        self.inner = inner
        self.cycled = False

    def __call__(self, apdu):
        if not self.cycled:
            self.cycled = True
            self.inner.mode = 2
            self.inner.unlocked = False
            return ("W",)
        return self.inner(apdu)


class Swapped:
    """The link is lost at the first APDU; what answers afterwards is a device in another state (set by
    `new_state`), and the n-th exchange after the loss times out once (timeout_at, 0-based; None = never)."""

    def __init__(self, inner, new_state, timeout_at=None):
        self.__dict__.update(inner=inner, new_state=new_state, timeout_at=timeout_at, lost=False, count=0)

    def __call__(self, apdu):
        if not self.lost:
            self.__dict__["lost"] = True
            for k, v in self.new_state.items():
                setattr(self.inner, k, v)
            return ("W",)
        n = self.count
        self.__dict__["count"] = n + 1
        if self.timeout_at is not None and n == self.timeout_at:
            return ("T",)
        return self.inner(apdu)

    def __getattr__(self, name):
        return getattr(self.inner, name)


class FailOnce:
    """the link fails (write or read error) at the n-th exchange; the device itself is unharmed"""

    def __init__(self, inner, at=0, kind="W"):
        self.__dict__["inner"] = inner
        self.__dict__["at"] = at
        self.__dict__["kind"] = kind
        self.__dict__["count"] = 0

    def __call__(self, apdu):
        n = self.count
        self.__dict__["count"] = n + 1
        if n == self.at:
            if self.kind == "R":
                self.inner(apdu)          # the device did process the command; its answer is lost
            return (self.kind,)
        return self.inner(apdu)

    def __getattr__(self, name):
        return getattr(self.inner, name)

    def __setattr__(self, name, value):
        setattr(self.inner, name, value)
