"""What docs/protocol.md (docs/protocol-v1.md) allows as a verdict for a request value.
Written from the documents, not from the code.  Where the documents are silent the value is
AMBIGUOUS and both acceptance and the field's error code are allowed, so the oracle never asks
for more than the documentation states."""
import re

ACCEPT = "accept"
OK, BAD, AMB = "ok", "bad", "ambiguous"

V5 = dict(format=-901, invalid=-902, unknown=-903, version=-904, auth=-101, message=-102, keyid=-103,
          blocks=-204, brothers=-205, ud=-301, ver=5)
V1 = dict(format=-2, invalid=-2, unknown=-2, version=-666, auth=-2, message=-2, keyid=-2, ver=1)

COMMANDS_V5 = ["version", "sign", "getPubKey", "advanceBlockchain", "resetAdvanceBlockchain",
               "blockchainState", "updateAncestorBlock", "blockchainParameters", "signerHeartbeat",
               "uiHeartbeat"]
COMMANDS_V1 = ["version", "sign", "getPubKey"]

_ASCII_PATH = re.compile(r"^m(/[0-9]+'?){5}$")


def hex_status(v, nbytes=None, nonempty=True):
    if type(v) != str:
        return BAD
    if re.fullmatch(r"[0-9a-fA-F]*", v):
        if len(v) % 2:
            return BAD
        n = len(v) // 2
        if nbytes is not None and n != nbytes:
            return BAD
        if nonempty and n == 0:
            return BAD
        return OK
    # blanks between bytes: the documents only say "hex string"
    stripped = re.sub(r"[ \t\n\r\x0b\x0c]", "", v)
    if re.fullmatch(r"[0-9a-fA-F]*", stripped) and len(stripped) % 2 == 0:
        n = len(stripped) // 2
        if nbytes is not None and n != nbytes:
            return BAD
        if nonempty and n == 0:
            return BAD
        return AMB
    return BAD


def keyid_status(v):
    if type(v) != str:
        return BAD
    if _ASCII_PATH.match(v):
        for el in v[2:].split("/"):
            if len(el.rstrip("'")) > 4300:
                return BAD
            if int(el.rstrip("'")) >= 2 ** 31:
                return BAD
        return OK
    # non-ASCII decimal digits: grammar not spelled out in the documents
    try:
        parts = v[2:].split("/")
        if v[:2] == "m/" and len(parts) == 5 and all(
                p.rstrip("'") != "" and p.count("'") <= 1 and p.rstrip("'").isdecimal()
                and (("'" not in p) or p.endswith("'")) for p in parts):
            if all(len(p.rstrip("'")) <= 4300 and int(p.rstrip("'")) < 2 ** 31 for p in parts):
                return AMB
    except Exception:
        pass
    return BAD


def combine(statuses):
    if BAD in statuses:
        return BAD
    if AMB in statuses:
        return AMB
    return OK


def message_status(m, known_tx=None):
    """(kind, status) with kind in hash/tx/None"""
    if type(m) != dict:
        return None, BAD
    if "hash" in m:
        st = hex_status(m.get("hash"), 32)
        if len(m) != 1:
            st = combine([st, AMB]) if st != BAD and set(m) - {"hash"} else st
            # extra members next to "hash": documents silent unless they make it the tx format
            if "tx" in m:
                return "hash", AMB if st != BAD else BAD
        return "hash", st
    if "tx" in m:
        sts = [hex_status(m.get("tx"))]
        if sts[0] == OK and known_tx is not None and m["tx"].lower() != known_tx.lower():
            sts.append(AMB)          # some other byte string: may or may not be a transaction
        i = m.get("input")
        if type(i) != int:
            sts.append(BAD)
        elif not (0 <= i < 2 ** 32):
            sts.append(BAD)
        mode = m.get("sighashComputationMode")
        if mode == "legacy" and type(mode) == str:
            if set(m) != {"tx", "input", "sighashComputationMode"}:
                sts.append(AMB if set(m) >= {"tx", "input", "sighashComputationMode"} else BAD)
        elif mode == "segwit" and type(mode) == str:
            sts.append(hex_status(m.get("witnessScript")))
            ws = m.get("witnessScript")
            if type(ws) == str and len(ws) > 2 * 65000:
                sts.append(AMB)
            ov = m.get("outpointValue")
            if type(ov) != int:
                sts.append(BAD)
            elif not (0 < ov <= 2 ** 64 - 1):
                sts.append(BAD)
            if set(m) != {"tx", "input", "sighashComputationMode", "witnessScript", "outpointValue"}:
                sts.append(AMB if set(m) >= {"tx", "input", "sighashComputationMode", "witnessScript",
                                             "outpointValue"} else BAD)
        else:
            sts.append(BAD)
        return "tx", combine(sts)
    return None, BAD


def auth_status(a):
    if type(a) != dict:
        return BAD
    sts = [hex_status(a.get("receipt"))]
    p = a.get("receipt_merkle_proof")
    if type(p) != list or len(p) == 0:
        sts.append(BAD)
    else:
        sts.extend(hex_status(x) for x in p)
        if len(p) > 255 or any(type(x) == str and len(x) > 510 for x in p):
            sts.append(AMB)       # more than the wire format can carry: not mentioned
    return combine(sts)


def allowed(mode, value, known_tx=None):
    C = V5 if mode == "v5" else V1
    cmds = COMMANDS_V5 if mode == "v5" else COMMANDS_V1
    if type(value) != dict:
        return {C["format"]}
    G = set()
    amb_generic = False
    if "command" not in value:
        return {C["invalid"]}
    cmd = value["command"]
    if not (type(cmd) == str and cmd == "version") and "version" not in value:
        G.add(C["invalid"])
    if "version" in value:
        v = value["version"]
        if type(v) == int and v == C["ver"]:
            pass
        elif type(v) in (float, bool) and v == C["ver"]:
            amb_generic = True          # 5.0 / True: numerically the documented version
            G.add(C["version"])
        else:
            G.add(C["version"])
    if not (type(cmd) == str and cmd in cmds):
        G.add(C["unknown"])
    if G and not amb_generic:
        return G
    if G and amb_generic and G != {C["version"]}:
        return G
    out = set(G)
    # command-specific constraints
    viol = set()
    amb = False

    def note(st, code):
        nonlocal amb
        if st == BAD:
            viol.add(code)
        elif st == AMB:
            amb = True
            viol.add(code)

    if cmd in ("sign", "getPubKey"):
        note(keyid_status(value.get("keyId")), C["keyid"])
    if cmd == "sign":
        if mode == "v1":
            note(hex_status(value.get("message"), 32), C["message"])
        else:
            kind, st = message_status(value.get("message"), known_tx)
            note(st, C["message"])
            if "auth" in value:
                ast = auth_status(value["auth"])
                if kind == "hash" and ast == OK:
                    pass
                note(ast, C["auth"])
            elif kind == "tx":
                note(BAD, C["auth"])
            elif kind is None:
                amb_auth = True
    if cmd == "advanceBlockchain":
        b = value.get("blocks")
        if type(b) != list or len(b) == 0 or not all(type(x) == str for x in b):
            note(BAD, C["blocks"])
        else:
            if any(hex_status(x) != OK for x in b):
                note(BAD if False else AMB, C["blocks"])
            note(AMB, C["blocks"])       # hex that is not a header: decided while processing
        br = value.get("brothers")
        if type(br) != list or type(b) != list or len(br) != len(b) or \
                not all(type(x) == list for x in br):
            note(BAD, C["brothers"])
        else:
            for bl in br:
                for x in bl:
                    note(hex_status(x), C["brothers"])
                    note(AMB, C["brothers"])      # hex that is not a header
                if len(bl) > 10:
                    note(AMB, C["brothers"])
    if cmd == "updateAncestorBlock":
        b = value.get("blocks")
        if type(b) != list or len(b) == 0 or not all(type(x) == str for x in b):
            note(BAD, C["blocks"])
        else:
            note(AMB, C["blocks"])
    if cmd == "signerHeartbeat":
        note(hex_status(value.get("udValue"), 16), C["ud"])
    if cmd == "uiHeartbeat":
        note(hex_status(value.get("udValue"), 32), C["ud"])
    extra_top = set(value) - {"command", "version", "keyId", "message", "auth", "blocks", "brothers",
                              "udValue"}
    hard = {c for c in viol}
    if not viol:
        out.add(ACCEPT)
    else:
        out |= viol
        if amb and not any(_is_hard(cmd, mode, value, known_tx, c, C) for c in viol):
            out.add(ACCEPT)
    return out


def _is_hard(cmd, mode, value, known_tx, code, C):
    """is there a BAD (not merely ambiguous) violation carrying this code?"""
    if cmd in ("sign", "getPubKey") and code == C["keyid"] and keyid_status(value.get("keyId")) == BAD:
        return True
    if cmd == "sign" and mode == "v1" and code == C["message"] and \
            hex_status(value.get("message"), 32) == BAD:
        return True
    if cmd == "sign" and mode == "v5":
        kind, st = message_status(value.get("message"), known_tx)
        if code == C["message"] and st == BAD:
            return True
        if code == C["auth"]:
            if "auth" in value and auth_status(value["auth"]) == BAD:
                return True
            if "auth" not in value and kind == "tx":
                return True
    if cmd == "advanceBlockchain":
        b = value.get("blocks")
        br = value.get("brothers")
        if code == C["blocks"] and (type(b) != list or len(b) == 0 or not all(type(x) == str for x in b)):
            return True
        if code == C["brothers"]:
            if type(br) != list or type(b) != list or len(br) != len(b) or \
                    not all(type(x) == list for x in br):
                return True
            if any(hex_status(x) == BAD for bl in br for x in bl):
                return True
    if cmd == "updateAncestorBlock" and code == C["blocks"]:
        b = value.get("blocks")
        if type(b) != list or len(b) == 0 or not all(type(x) == str for x in b):
            return True
    if cmd == "signerHeartbeat" and code == C["ud"] and hex_status(value.get("udValue"), 16) == BAD:
        return True
    if cmd == "uiHeartbeat" and code == C["ud"] and hex_status(value.get("udValue"), 32) == BAD:
        return True
    return False
