"""Stand-in for python-bitcoinlib's ``bitcoin.core`` (absent from this sandbox and not
installable).  Re-implements exactly the surface middleware/comm/bitcoin.py uses, from the
library's documented behaviour (see DESIGN.md appendix B).  Installed by harness/env.py
with sys.modules['bitcoin.core'] = this module, unless the real library is importable."""
import struct
import hashlib
import sys
import types


class SerializationError(Exception):
    pass


class SerializationTruncationError(SerializationError):
    pass


class DeserializationExtraDataError(SerializationError):
    def __init__(self, msg, obj, padding):
        super().__init__(msg)
        self.obj = obj
        self.padding = padding


class CScriptInvalidError(Exception):
    pass


class CScriptTruncatedPushDataError(CScriptInvalidError):
    def __init__(self, msg, data):
        self.data = data
        super().__init__(msg)


class _Reader:
    def __init__(self, b):
        self.b = bytes(b)
        self.i = 0

    def read(self, n):
        r = self.b[self.i:self.i + n]
        if len(r) != n:
            raise SerializationTruncationError(
                "Asked to read 0x%x bytes; but only got 0x%x" % (n, len(r)))
        self.i += n
        return r

    def rest(self):
        return self.b[self.i:]


class VarIntSerializer:
    @classmethod
    def serialize(cls, i):
        if i < 0:
            raise ValueError("varint must be non-negative integer")
        elif i < 0xFD:
            return bytes([i])
        elif i <= 0xFFFF:
            return b"\xfd" + struct.pack("<H", i)
        elif i <= 0xFFFFFFFF:
            return b"\xfe" + struct.pack("<I", i)
        else:
            return b"\xff" + struct.pack("<Q", i)

    @classmethod
    def stream_deserialize(cls, f):
        r = f.read(1)[0]
        if r < 0xFD:
            return r
        elif r == 0xFD:
            return struct.unpack("<H", f.read(2))[0]
        elif r == 0xFE:
            return struct.unpack("<I", f.read(4))[0]
        else:
            return struct.unpack("<Q", f.read(8))[0]


def _ser_bytes(b):
    return VarIntSerializer.serialize(len(b)) + bytes(b)


def _deser_bytes(f):
    n = VarIntSerializer.stream_deserialize(f)
    return f.read(n)


OP_PUSHDATA1 = 0x4C
OP_PUSHDATA2 = 0x4D
OP_PUSHDATA4 = 0x4E
OP_1NEGATE = 0x4F
OP_1 = 0x51
OP_16 = 0x60


class CScriptOp(int):
    @staticmethod
    def encode_op_pushdata(d):
        if len(d) < 0x4C:
            return bytes([len(d)]) + d
        elif len(d) <= 0xFF:
            return b"\x4c" + bytes([len(d)]) + d
        elif len(d) <= 0xFFFF:
            return b"\x4d" + struct.pack("<H", len(d)) + d
        elif len(d) <= 0xFFFFFFFF:
            return b"\x4e" + struct.pack("<I", len(d)) + d
        else:
            raise ValueError("Data too long to encode in a PUSHDATA op")

    @staticmethod
    def encode_op_n(n):
        if not (0 <= n <= 16):
            raise ValueError("Integer must be in range 0 <= n <= 16, got %d" % n)
        if n == 0:
            return CScriptOp(0)
        return CScriptOp(OP_1 + n - 1)

    def decode_op_n(self):
        if self == 0:
            return 0
        if not (self == 0 or OP_1 <= self <= OP_16):
            raise ValueError("op %r is not an OP_N" % self)
        return int(self - OP_1 + 1)

    def is_small_int(self):
        return 0x51 <= self <= 0x60 or self == 0


def _bn2vch(v):
    # bitcoin.core._bignum.bn2vch: minimal little-endian sign-magnitude
    if v == 0:
        return b""
    neg = v < 0
    a = abs(v)
    out = bytearray()
    while a:
        out.append(a & 0xFF)
        a >>= 8
    if out[-1] & 0x80:
        out.append(0x80 if neg else 0)
    elif neg:
        out[-1] |= 0x80
    return bytes(out)


class CScript(bytes):
    @classmethod
    def _coerce_instance(cls, other):
        if isinstance(other, CScriptOp):
            if other < 0x100:
                other = bytes([other])
            else:
                raise ValueError("CScriptOp out of range")
        elif isinstance(other, int):
            if 0 <= other <= 16:
                other = bytes([CScriptOp.encode_op_n(other)])
            elif other == -1:
                other = bytes([OP_1NEGATE])
            else:
                other = CScriptOp.encode_op_pushdata(_bn2vch(other))
        elif isinstance(other, (bytes, bytearray)):
            other = CScriptOp.encode_op_pushdata(bytes(other))
        return other

    def __new__(cls, value=b""):
        if isinstance(value, (bytes, bytearray)):
            return super().__new__(cls, value)
        return super().__new__(cls, b"".join(cls._coerce_instance(v) for v in value))

    def raw_iter(self):
        i = 0
        n = len(self)
        while i < n:
            sop_idx = i
            opcode = bytes.__getitem__(self, i)
            i += 1
            if opcode > OP_PUSHDATA4:
                yield (opcode, None, sop_idx)
            else:
                if opcode < OP_PUSHDATA1:
                    pushdata_type = "PUSHDATA(%d)" % opcode
                    datasize = opcode
                elif opcode == OP_PUSHDATA1:
                    pushdata_type = "PUSHDATA1"
                    if i >= n:
                        raise CScriptInvalidError("PUSHDATA1: missing data length")
                    datasize = bytes.__getitem__(self, i)
                    i += 1
                elif opcode == OP_PUSHDATA2:
                    pushdata_type = "PUSHDATA2"
                    if i + 1 >= n:
                        raise CScriptInvalidError("PUSHDATA2: missing data length")
                    datasize = bytes.__getitem__(self, i) + \
                        (bytes.__getitem__(self, i + 1) << 8)
                    i += 2
                else:
                    pushdata_type = "PUSHDATA4"
                    if i + 3 >= n:
                        raise CScriptInvalidError("PUSHDATA4: missing data length")
                    datasize = struct.unpack("<I", bytes(self[i:i + 4]))[0]
                    i += 4
                data = bytes(bytes.__getitem__(self, slice(i, i + datasize)))
                if len(data) != datasize:
                    raise CScriptTruncatedPushDataError(
                        "%s: truncated data" % pushdata_type, data)
                i += datasize
                yield (opcode, data, sop_idx)

    def __iter__(self):
        for (opcode, data, sop_idx) in self.raw_iter():
            if opcode == 0:
                yield 0
            elif data is not None:
                yield data
            else:
                opcode = CScriptOp(opcode)
                if opcode.is_small_int():
                    yield opcode.decode_op_n()
                else:
                    yield CScriptOp(opcode)


class COutPoint:
    def __init__(self, hash=b"\x00" * 32, n=0xFFFFFFFF):
        self.hash = hash
        self.n = n

    @classmethod
    def stream_deserialize(cls, f):
        h = f.read(32)
        n = struct.unpack("<I", f.read(4))[0]
        return cls(h, n)

    def serialize(self):
        return self.hash + struct.pack("<I", self.n)


class CMutableOutPoint(COutPoint):
    @classmethod
    def from_outpoint(cls, o):
        return cls(o.hash, o.n)


class CTxIn:
    def __init__(self, prevout=None, scriptSig=CScript(), nSequence=0xFFFFFFFF):
        self.prevout = prevout if prevout is not None else COutPoint()
        self.scriptSig = scriptSig
        self.nSequence = nSequence

    @classmethod
    def stream_deserialize(cls, f):
        prevout = CMutableOutPoint.stream_deserialize(f)
        scriptSig = CScript(_deser_bytes(f))
        nSequence = struct.unpack("<I", f.read(4))[0]
        return cls(prevout, scriptSig, nSequence)

    def serialize(self):
        return self.prevout.serialize() + _ser_bytes(self.scriptSig) + \
            struct.pack("<I", self.nSequence)


class CMutableTxIn(CTxIn):
    @classmethod
    def from_txin(cls, txin):
        prevout = CMutableOutPoint.from_outpoint(txin.prevout)
        return cls(prevout, txin.scriptSig, txin.nSequence)


class CTxOut:
    def __init__(self, nValue=-1, scriptPubKey=CScript()):
        self.nValue = int(nValue)
        self.scriptPubKey = scriptPubKey

    @classmethod
    def stream_deserialize(cls, f):
        nValue = struct.unpack("<q", f.read(8))[0]
        spk = CScript(_deser_bytes(f))
        return cls(nValue, spk)

    def serialize(self):
        return struct.pack("<q", self.nValue) + _ser_bytes(self.scriptPubKey)


CMutableTxOut = CTxOut


def _deser_vector(kls, f):
    n = VarIntSerializer.stream_deserialize(f)
    return [kls.stream_deserialize(f) for _ in range(n)]


def _ser_vector(items):
    return VarIntSerializer.serialize(len(items)) + b"".join(i.serialize() for i in items)


def Hash(b):
    return hashlib.sha256(hashlib.sha256(b).digest()).digest()


class CMutableTransaction:
    def __init__(self, vin=None, vout=None, nLockTime=0, nVersion=1, wit=None):
        self.vin = vin if vin is not None else []
        self.vout = vout if vout is not None else []
        self.nLockTime = nLockTime
        self.nVersion = nVersion
        # wit: list (one per input) of lists of byte strings
        self.wit = wit if wit is not None else []

    @classmethod
    def stream_deserialize(cls, f):
        nVersion = struct.unpack("<i", f.read(4))[0]
        marker = f.read(1)[0]
        flag = f.read(1)[0]
        if marker == 0 and flag == 1:
            vin = _deser_vector(CMutableTxIn, f)
            vout = _deser_vector(CTxOut, f)
            wit = []
            for _ in range(len(vin)):
                n = VarIntSerializer.stream_deserialize(f)
                wit.append([_deser_bytes(f) for _ in range(n)])
            nLockTime = struct.unpack("<I", f.read(4))[0]
            return cls(vin, vout, nLockTime, nVersion, wit)
        else:
            f.i -= 2
            vin = _deser_vector(CMutableTxIn, f)
            vout = _deser_vector(CTxOut, f)
            nLockTime = struct.unpack("<I", f.read(4))[0]
            return cls(vin, vout, nLockTime, nVersion)

    @classmethod
    def deserialize(cls, buf, allow_padding=False):
        f = _Reader(buf)
        r = cls.stream_deserialize(f)
        if not allow_padding:
            padding = f.rest()
            if len(padding) != 0:
                raise DeserializationExtraDataError(
                    "Not all bytes consumed during deserialization", r, padding)
        return r

    def _wit_is_null(self):
        return all(len(w) == 0 for w in self.wit)

    def serialize(self, with_witness=True):
        out = struct.pack("<i", self.nVersion)
        segwit = with_witness and not self._wit_is_null()
        if segwit:
            assert len(self.wit) <= len(self.vin)
            out += b"\x00\x01"
        out += _ser_vector(self.vin)
        out += _ser_vector(self.vout)
        if segwit:
            for w in self.wit:
                out += VarIntSerializer.serialize(len(w))
                for item in w:
                    out += _ser_bytes(item)
        out += struct.pack("<I", self.nLockTime)
        return out

    def GetTxid(self):
        return Hash(self.serialize(with_witness=False))

    def GetHash(self):
        return self.GetTxid()


CTransaction = CMutableTransaction


class CBlockHeader:
    def __init__(self, nVersion, hashPrevBlock, hashMerkleRoot, nTime, nBits, nNonce):
        self.nVersion = nVersion
        self.hashPrevBlock = hashPrevBlock
        self.hashMerkleRoot = hashMerkleRoot
        self.nTime = nTime
        self.nBits = nBits
        self.nNonce = nNonce

    @classmethod
    def deserialize(cls, buf, allow_padding=False):
        f = _Reader(buf)
        nVersion = struct.unpack("<i", f.read(4))[0]
        hp = f.read(32)
        hm = f.read(32)
        nTime = struct.unpack("<I", f.read(4))[0]
        nBits = struct.unpack("<I", f.read(4))[0]
        nNonce = struct.unpack("<I", f.read(4))[0]
        if not allow_padding and len(f.rest()) != 0:
            raise DeserializationExtraDataError("Not all bytes consumed", None, f.rest())
        return cls(nVersion, hp, hm, nTime, nBits, nNonce)

    def serialize(self):
        return struct.pack("<i", self.nVersion) + self.hashPrevBlock + self.hashMerkleRoot + \
            struct.pack("<I", self.nTime) + struct.pack("<I", self.nBits) + \
            struct.pack("<I", self.nNonce)

    def GetHash(self):
        return Hash(self.serialize())


# bitcoin.core.script namespace (only what comm/bitcoin.py names)
script = types.ModuleType("bitcoin.core.script")
script.CScript = CScript
script.CScriptOp = CScriptOp
script.SIGHASH_ALL = 1
script.SIGVERSION_BASE = 0
script.SIGVERSION_WITNESS_V0 = 1


def _not_available(*a, **k):
    raise NotImplementedError("SignatureHash is outside the shim's surface")


script.SignatureHash = _not_available


def install():
    """Make ``import bitcoin.core`` resolve to this shim unless the real one exists."""
    try:
        import bitcoin.core as real  # noqa: F401
        if getattr(real, "CMutableTransaction", None) is not None and \
                real.__name__ != __name__:
            return "real"
    except Exception:
        pass
    this = sys.modules[__name__]
    try:
        import bitcoin as pkg
    except Exception:
        pkg = types.ModuleType("bitcoin")
        pkg.__path__ = []
        sys.modules["bitcoin"] = pkg
    sys.modules["bitcoin.core"] = this
    sys.modules["bitcoin.core.script"] = script
    pkg.core = this
    return "shim"
