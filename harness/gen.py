"""Shared generators: key paths, requests, device states.  Everything random comes from the
rng passed in (derived from VERIF_SEED)."""
import json
import struct

import devices

PATHS = ["m/44'/0'/0'/0/0", "m/44'/137'/0'/0/0", "m/44'/137'/1'/0/0",
         "m/44'/1'/0'/0/0", "m/44'/1'/1'/0/0", "m/44'/1'/2'/0/0"]
AUTH_PATHS = PATHS[:1] + PATHS[3:4]
UNAUTH_PATHS = [p for p in PATHS if p not in AUTH_PATHS]


def path_binary(p):
    out = bytes([5])
    for el in p[2:].split("/"):
        v = int(el.rstrip("'")) + ((1 << 31) if el.endswith("'") else 0)
        out += struct.pack("<I", v)
    return out


def rbytes(rng, n):
    return bytes(rng.getrandbits(8) for _ in range(n))


def line(req):
    return json.dumps(req).encode()


def random_device(rng, **kw):
    d = devices.Device(policy=devices.Policy(rng=rng), **kw)
    d.hashes = {c: rbytes(rng, 32) for c in d.hashes}
    d.difficulty = rng.choice([0, 1, (1 << 288) - 1, rng.getrandbits(288), rng.getrandbits(64)])
    d.flags = tuple(rng.choice([0, 1, rng.randint(2, 255)]) if rng.random() < 0.2
                    else rng.randint(0, 1) for _ in range(3))
    d.params = (rbytes(rng, 32), rng.choice([0, (1 << 288) - 1, rng.getrandbits(288), rng.getrandbits(80)]),
                rng.choice([1, 2, 3]))
    for p in PATHS:
        d.pubkeys[path_binary(p)] = b"\x04" + rbytes(rng, 64)

    def rsig():
        lr = rng.choice([0, 1, 8, 31, 32, 33, 72, 100, 127]) if rng.random() < 0.4 else rng.randint(30, 33)
        ls = rng.choice([0, 1, 8, 31, 32, 33, 72]) if rng.random() < 0.4 else rng.randint(30, 33)
        if 4 + lr + ls > 255:
            ls = 8
        return (rbytes(rng, lr), rbytes(rng, ls))
    d.sign_sig = rsig()
    d.hb = {"sig": rsig(), "msg": b"HSM:SIGNER:HB:5.4:" + rbytes(rng, rng.randint(0, 90)),
            "hash": rbytes(rng, 32), "pubkey": b"\x04" + rbytes(rng, 64)}
    d.uihb = {"sig": rsig(), "msg": b"HSM:UI:HB:5.4:" + rbytes(rng, rng.randint(0, 90)),
              "hash": rbytes(rng, 32), "pubkey": b"\x04" + rbytes(rng, 64)}
    return d


# ---------------------------------------------------------------- own RLP (generator side)
def rlp_len_prefix(n, offset):
    if n < 56:
        return bytes([offset + n])
    ls = n.to_bytes((n.bit_length() + 7) // 8, "big")
    return bytes([offset + 55 + len(ls)]) + ls


def rlp_str(b):
    if len(b) == 1 and b[0] < 0x80:
        return b
    return rlp_len_prefix(len(b), 0x80) + b


def rlp_list(encoded_items):
    payload = b"".join(encoded_items)
    return rlp_len_prefix(len(payload), 0xC0) + payload


# ---------------------------------------------------------------- own SHA-256 with midstate
_K = [0x428a2f98, 0x71374491, 0xb5c0fbcf, 0xe9b5dba5, 0x3956c25b, 0x59f111f1, 0x923f82a4, 0xab1c5ed5,
      0xd807aa98, 0x12835b01, 0x243185be, 0x550c7dc3, 0x72be5d74, 0x80deb1fe, 0x9bdc06a7, 0xc19bf174,
      0xe49b69c1, 0xefbe4786, 0x0fc19dc6, 0x240ca1cc, 0x2de92c6f, 0x4a7484aa, 0x5cb0a9dc, 0x76f988da,
      0x983e5152, 0xa831c66d, 0xb00327c8, 0xbf597fc7, 0xc6e00bf3, 0xd5a79147, 0x06ca6351, 0x14292967,
      0x27b70a85, 0x2e1b2138, 0x4d2c6dfc, 0x53380d13, 0x650a7354, 0x766a0abb, 0x81c2c92e, 0x92722c85,
      0xa2bfe8a1, 0xa81a664b, 0xc24b8b70, 0xc76c51a3, 0xd192e819, 0xd6990624, 0xf40e3585, 0x106aa070,
      0x19a4c116, 0x1e376c08, 0x2748774c, 0x34b0bcb5, 0x391c0cb3, 0x4ed8aa4a, 0x5b9cca4f, 0x682e6ff3,
      0x748f82ee, 0x78a5636f, 0x84c87814, 0x8cc70208, 0x90befffa, 0xa4506ceb, 0xbef9a3f7, 0xc67178f2]
_H0 = [0x6a09e667, 0xbb67ae85, 0x3c6ef372, 0xa54ff53a, 0x510e527f, 0x9b05688c, 0x1f83d9ab, 0x5be0cd19]


def _rotr(x, n):
    return ((x >> n) | (x << (32 - n))) & 0xFFFFFFFF


def sha256_compress(h, block):
    w = list(struct.unpack(">16I", block)) + [0] * 48
    for i in range(16, 64):
        s0 = _rotr(w[i - 15], 7) ^ _rotr(w[i - 15], 18) ^ (w[i - 15] >> 3)
        s1 = _rotr(w[i - 2], 17) ^ _rotr(w[i - 2], 19) ^ (w[i - 2] >> 10)
        w[i] = (w[i - 16] + s0 + w[i - 7] + s1) & 0xFFFFFFFF
    a, b, c, d, e, f, g, hh = h
    for i in range(64):
        t1 = (hh + (_rotr(e, 6) ^ _rotr(e, 11) ^ _rotr(e, 25)) + ((e & f) ^ (~e & g)) + _K[i] + w[i]) \
            & 0xFFFFFFFF
        t2 = ((_rotr(a, 2) ^ _rotr(a, 13) ^ _rotr(a, 22)) + ((a & b) ^ (a & c) ^ (b & c))) & 0xFFFFFFFF
        hh, g, f, e, d, c, b, a = g, f, e, (d + t1) & 0xFFFFFFFF, c, b, a, (t1 + t2) & 0xFFFFFFFF
    return [(x + y) & 0xFFFFFFFF for x, y in zip(h, [a, b, c, d, e, f, g, hh])]


def sha256_midstate(prefix):
    assert len(prefix) % 64 == 0
    h = list(_H0)
    for i in range(0, len(prefix), 64):
        h = sha256_compress(h, prefix[i:i + 64])
    return h


def compress_coinbase(cb, split):
    """RSK 'compressed' coinbase: 8-byte BE count of hashed bytes + 32-byte midstate + tail."""
    assert split % 64 == 0 and split <= len(cb)
    h = sha256_midstate(cb[:split])
    return struct.pack(">Q", split) + b"".join(struct.pack(">I", x) for x in h) + cb[split:]


# ---------------------------------------------------------------- RSK block headers
class Header:
    """fields: list of byte strings (17..20).  With 19/20 fields the last three are the BTC
    merge-mining header, merkle proof and (compressed) coinbase transaction."""

    def __init__(self, fields, coinbase_full=None):
        self.fields = fields
        self.coinbase_full = coinbase_full

    def raw(self):
        return rlp_list([rlp_str(f) for f in self.fields])

    def hex(self):
        return self.raw().hex()

    def n(self):
        return len(self.fields)

    def without(self, k):
        return rlp_list([rlp_str(f) for f in self.fields[:len(self.fields) - k]])

    def hash_preimage(self):
        return self.without(2) if self.n() in (19, 20) else self.raw()

    def mm_payload_size(self):
        kept = self.fields[:-3] if self.n() in (19, 20) else self.fields[:-1]
        return sum(len(rlp_str(f)) for f in kept)

    def cb_hash(self):
        import hashlib
        return hashlib.sha256(hashlib.sha256(self.coinbase_full).digest()).digest()[::-1]


def random_header(rng, nfields=None, big=False):
    nf = nfields or rng.choice([19, 20, 19, 20, 17, 18])
    base_n = nf - 3 if nf in (19, 20) else nf
    sizes = [32, 32, 20, 32, 32, 32, 256, rng.randint(1, 9), rng.randint(1, 8), 4, 4, 4,
             rng.choice([0, 1, 2, 31, 32]), rng.randint(0, 8), 32, rng.choice([0, 1, 55, 56, 57]),
             rng.choice([0, 20, 32])]
    fields = []
    for i in range(base_n):
        sz = sizes[i % len(sizes)]
        if rng.random() < 0.08:
            sz = rng.choice([0, 1, 55, 56, 57, 255, 256, 300])
        f = rbytes(rng, sz)
        if sz == 1 and rng.random() < 0.5:
            f = bytes([rng.choice([0, 1, 0x7F, 0x80, 0xFF])])
        fields.append(f)
    if big:
        fields[6] = rbytes(rng, rng.choice([65000, 66000, 70000]))
    cb_full = None
    if nf in (19, 20):
        btc_header = rbytes(rng, 80)
        mp = rbytes(rng, 32 * rng.randint(0, 5))
        cb_len = rng.choice([65, 100, 128, 129, 200, 300])
        cb_full = rbytes(rng, cb_len)
        split = 64 * rng.randint(0, cb_len // 64)
        if split == cb_len and rng.random() < 0.5:
            split -= 64
        cb = compress_coinbase(cb_full, split)
        fields += [btc_header, mp, cb]
    return Header(fields, cb_full)


def boundary_header(rng, nf, target):
    """a header whose merge-mining RLP payload (the kept fields) is exactly `target` bytes long:
    the sizes around the RLP short/long list boundary (55/56) and the one/two length-byte boundary"""
    h = random_header(rng, nf)
    base_n = nf - 3 if nf in (19, 20) else nf - 1 if nf in (17, 18) else nf
    kept = base_n if nf in (19, 20) else nf - 1
    for i in range(kept):
        h.fields[i] = rbytes(rng, rng.choice([0, 1, 2, 3])) if i != 6 else b""
        if len(h.fields[i]) == 1 and h.fields[i][0] < 0x80:
            h.fields[i] = bytes([h.fields[i][0] | 0x80])
    cur = sum(len(rlp_str(f)) for f in h.fields[:kept])       # field 6 currently encodes to 1 byte
    need = target - (cur - 1)                                  # encoded length wanted for field 6
    if need < 1:
        return boundary_header(rng, nf, target)
    if need == 1:
        h.fields[6] = b""
    elif need <= 56:
        h.fields[6] = bytes([0x80 | rng.randrange(128)]) + rbytes(rng, need - 2)
    elif need == 57:
        # 57 is not reachable with one string (55 bytes -> 56, 56 bytes -> 58): lengthen a neighbour
        h.fields[5] = h.fields[5] + b"\xaa" if len(h.fields[5]) != 0 else b"\xaa\xaa"
        return _fix(h, kept, target) or boundary_header(rng, nf, target)
    elif need <= 257:
        h.fields[6] = rbytes(rng, need - 2)
    else:
        h.fields[6] = rbytes(rng, need - 3)
    return h if h.mm_payload_size() == target else (_fix(h, kept, target) or boundary_header(rng, nf, target))


def _fix(h, kept, target):
    for n6 in range(0, 400):
        h.fields[6] = b"\xee" * n6
        if h.mm_payload_size() == target:
            return h
    return None


def same_hash_variant(rng, h):
    """a header with the same block hash (merkle proof / coinbase are not part of the hash) but
    different bytes; None for headers without merge-mining fields"""
    if h.n() not in (19, 20):
        return None
    cb_len = rng.choice([65, 100, 128, 200])
    cb_full = rbytes(rng, cb_len)
    split = 64 * rng.randint(0, cb_len // 64)
    if split == cb_len:
        split -= 64
    fields = list(h.fields)
    fields[-2] = rbytes(rng, 32 * rng.randint(0, 5))
    fields[-1] = compress_coinbase(cb_full, split)
    return Header(fields, cb_full)


# ---------------------------------------------------------------- BTC transactions
def varint(n):
    if n < 0xFD:
        return bytes([n])
    if n <= 0xFFFF:
        return b"\xfd" + struct.pack("<H", n)
    if n <= 0xFFFFFFFF:
        return b"\xfe" + struct.pack("<I", n)
    return b"\xff" + struct.pack("<Q", n)


def push_min(d):
    if len(d) < 0x4C:
        return bytes([len(d)]) + d
    if len(d) <= 0xFF:
        return b"\x4c" + bytes([len(d)]) + d
    if len(d) <= 0xFFFF:
        return b"\x4d" + struct.pack("<H", len(d)) + d
    return b"\x4e" + struct.pack("<I", len(d)) + d


def push_with(d, enc):
    """enc: 'min' | 'pd1' | 'pd2' | 'pd4' (non-minimal encodings allowed when they fit)"""
    if enc == "pd1" and len(d) <= 0xFF:
        return b"\x4c" + bytes([len(d)]) + d
    if enc == "pd2" and len(d) <= 0xFFFF:
        return b"\x4d" + struct.pack("<H", len(d)) + d
    if enc == "pd4":
        return b"\x4e" + struct.pack("<I", len(d)) + d
    return push_min(d)


class Op:
    """one script operation: kind in push/zero/small/other"""

    def __init__(self, kind, data=b"", enc="min", n=0):
        self.kind, self.data, self.enc, self.n = kind, data, enc, n

    def raw(self):
        if self.kind == "push":
            return push_with(self.data, self.enc)
        if self.kind == "zero":
            return b"\x00"
        if self.kind == "small":
            return bytes([0x50 + self.n])
        return bytes([self.n])

    def canonical(self):
        """what the unsign step leaves when this is the last operation"""
        if self.kind == "push":
            return push_min(self.data) if len(self.data) > 0 else b"\x00"
        return self.raw()


def random_op(rng, last=False):
    r = rng.random()
    if r < 0.65:
        ln = rng.choice([1, 2, 20, 33, 71, 72, 73, 75, 76, 77, 105, 255, 256, 300]) \
            if rng.random() < 0.5 else rng.randint(1, 120)
        if rng.random() < 0.05:
            ln = 0
        return Op("push", rbytes(rng, ln), rng.choice(["min", "min", "min", "pd1", "pd2", "pd4"]))
    if r < 0.8:
        return Op("zero")
    if r < 0.9:
        return Op("small", n=rng.randint(1, 16))
    return Op("other", n=rng.choice([0x4F, 0x50, 0x61, 0x76, 0xA9, 0xAC, 0xAE, 0xFF]))


class Tx:
    def __init__(self, version, ins, outs, locktime, wit=None):
        self.version, self.ins, self.outs, self.locktime, self.wit = version, ins, outs, locktime, wit

    @staticmethod
    def _ser(version, ins_scripts, ins, outs, locktime, wit):
        out = struct.pack("<i", version)
        seg = wit is not None and any(len(w) > 0 for w in wit)
        if seg:
            out += b"\x00\x01"
        out += varint(len(ins))
        for (op, _, seq), sc in zip(ins, ins_scripts):
            out += op + varint(len(sc)) + sc + seq
        out += varint(len(outs))
        for val, spk in outs:
            out += val + varint(len(spk)) + spk
        if seg:
            for w in wit:
                out += varint(len(w))
                for it in w:
                    out += varint(len(it)) + it
        out += locktime
        return out

    def raw(self):
        return self._ser(self.version, [b"".join(o.raw() for o in ops) for _, ops, _ in self.ins],
                         self.ins, self.outs, self.locktime, self.wit)

    def unsigned(self):
        scs = [b"\x00" * (len(ops) - 1) + ops[-1].canonical() for _, ops, _ in self.ins]
        return self._ser(self.version, scs, self.ins, self.outs, self.locktime, self.wit)


def random_tx(rng, max_in=4, max_out=3):
    nin = rng.randint(1, max_in)
    ins = []
    for _ in range(nin):
        nops = rng.randint(1, 6)
        ops = [random_op(rng) for _ in range(nops)]
        ins.append((rbytes(rng, 36), ops, rbytes(rng, 4)))
    outs = [(rbytes(rng, 8), rbytes(rng, rng.choice([0, 22, 23, 25, 34])))
            for _ in range(rng.randint(0, max_out))]
    wit = None
    if rng.random() < 0.3:
        wit = [[rbytes(rng, rng.randint(0, 40)) for _ in range(rng.randint(0, 3))] for _ in range(nin)]
    return Tx(rng.choice([1, 2]), ins, outs, rbytes(rng, 4), wit)


def random_receipt(rng):
    n = rng.choice([1, 30, 54, 55, 56, 57, 120, 254, 255, 256, 300, 700])
    items = [rlp_str(rbytes(rng, rng.randint(0, 40))) for _ in range(rng.randint(1, 6))]
    enc = rlp_list(items + [rlp_str(rbytes(rng, n))])
    return enc


def random_proof(rng):
    k = rng.choice([1, 1, 2, 3, 5, 8]) if rng.random() < 0.9 else rng.choice([40, 255])
    return [rbytes(rng, rng.choice([1, 32, 33, 64, 100, 254, 255]) if rng.random() < 0.5
                   else rng.randint(1, 120)) for _ in range(k)]


def sign_request_auth(rng, tx=None, segwit=None):
    tx = tx or random_tx(rng)
    segwit = rng.random() < 0.5 if segwit is None else segwit
    msg = {"tx": tx.raw().hex(), "input": rng.choice([0, 1, len(tx.ins) - 1, 255, 256, 65535, 2 ** 32 - 1])
           if rng.random() < 0.3 else rng.randrange(len(tx.ins)),
           "sighashComputationMode": "segwit" if segwit else "legacy"}
    if segwit:
        msg["witnessScript"] = rbytes(rng, rng.choice([1, 71, 105, 252, 253, 254, 300, 1000])).hex()
        msg["outpointValue"] = rng.choice([1, 2 ** 64 - 1, 2 ** 63, 2 ** 32]) if rng.random() < 0.3 \
            else rng.randint(1, 2 ** 64 - 1)
    receipt = random_receipt(rng)
    proof = random_proof(rng)
    req = {"command": "sign", "version": 5, "keyId": rng.choice(AUTH_PATHS), "message": msg,
           "auth": {"receipt": receipt.hex(), "receipt_merkle_proof": [n.hex() for n in proof]}}
    return req, tx, receipt, proof
