"""Shared generators: key paths, requests, device states.  Everything random comes from the
rng passed in (derived from VERIF_SEED)."""
import json
import struct

import devices

PATHS = ["m/44'/0'/0'/0/0", "m/44'/137'/0'/0/0", "m/44'/137'/1'/0/0",
         "m/44'/1'/0'/0/0", "m/44'/1'/1'/0/0", "m/44'/1'/2'/0/0"]
AUTH_PATHS = PATHS[:1] + PATHS[3:4]
UNAUTH_PATHS = [p for p in PATHS if p not in AUTH_PATHS]


def path_binary(p):
    out = bytes([5])
    for el in p[2:].split("/"):
        v = int(el.rstrip("'")) + ((1 << 31) if el.endswith("'") else 0)
        out += struct.pack("<I", v)
    return out


def rbytes(rng, n):
    return bytes(rng.getrandbits(8) for _ in range(n))


def line(req):
    return json.dumps(req).encode()


def random_device(rng, **kw):
    d = devices.Device(policy=devices.Policy(rng=rng), **kw)
    d.hashes = {c: rbytes(rng, 32) for c in d.hashes}
    d.difficulty = rng.choice([0, 1, (1 << 288) - 1, rng.getrandbits(288), rng.getrandbits(64)])
    d.flags = tuple(rng.choice([0, 1, rng.randint(2, 255)]) if rng.random() < 0.2
                    else rng.randint(0, 1) for _ in range(3))
    d.params = (rbytes(rng, 32), rng.choice([0, (1 << 288) - 1, rng.getrandbits(288), rng.getrandbits(80)]),
                rng.choice([1, 2, 3]))
    for p in PATHS:
        d.pubkeys[path_binary(p)] = b"\x04" + rbytes(rng, 64)

    def rsig():
        lr = rng.choice([0, 1, 8, 31, 32, 33, 72, 100, 127]) if rng.random() < 0.4 else rng.randint(30, 33)
        ls = rng.choice([0, 1, 8, 31, 32, 33, 72]) if rng.random() < 0.4 else rng.randint(30, 33)
        if 4 + lr + ls > 255:
            ls = 8
        return (rbytes(rng, lr), rbytes(rng, ls))
    d.sign_sig = rsig()
    d.hb = {"sig": rsig(), "msg": b"HSM:SIGNER:HB:5.4:" + rbytes(rng, rng.randint(0, 90)),
            "hash": rbytes(rng, 32), "pubkey": b"\x04" + rbytes(rng, 64)}
    d.uihb = {"sig": rsig(), "msg": b"HSM:UI:HB:5.4:" + rbytes(rng, rng.randint(0, 90)),
              "hash": rbytes(rng, 32), "pubkey": b"\x04" + rbytes(rng, 64)}
    return d
