"""Drive the admin commands onboard / unlock / changepin / pubkeys with simulated operator input
and render the runs as Coq `dcase` records."""
import contextlib
import io
import json
import os
import sys

import env
import stack
from coqgen import c_bool, c_bytes, c_list, c_opt, c_resp, c_event, c_str

HEADER = "From PowHsm Require Import Model.Admin Model.CaseCheckAdmin.\nOpen Scope N_scope.\n"


class StopHere(BaseException):
    pass


class Stdin:
    def __init__(self, lines, stop_after=None):
        self.lines = list(lines)
        self.reads = 0
        self.stop_after = stop_after

    def readline(self):
        self.reads += 1
        if self.stop_after is not None and self.reads > self.stop_after:
            raise StopHere()
        if not self.lines:
            raise EOFError("stdin exhausted")
        return self.lines.pop(0) + "\n"


class Opt:
    def __init__(self, **kw):
        self.pin = None
        self.new_pin = None
        self.any_pin = False
        self.no_unlock = False
        self.no_exec = False
        self.output_file_path = None
        self.verbose = False
        self.__dict__.update(kw)


def run_admin(cmd, kind, opt, stdin_lines, typed, seed, device=None, script=None, connects=None,
              unlock_args=None, tmpdir=None, through_unlock=False):
    """cmd in unlock/onboard/changepin/pubkeys.  Returns observation dict."""
    import admin.misc as misc
    import admin.onboard as onboard
    import admin.unlock as unlock
    import admin.changepin as changepin
    import admin.pubkeys as pubkeys
    from admin.misc import AdminError
    from comm.platform import Platform
    world = env.World(script=script, connects=connects, device=device)
    env.install_transport(world)
    Platform.set("Ledger" if kind == "ledger" else "SGX", {"sgx_host": "h", "sgx_port": 1})
    typed_left = list(typed)

    def fake_getpass(prompt=""):
        if not typed_left:
            raise EOFError("getpass exhausted")
        return typed_left.pop(0).decode("latin1")
    misc.getpass = fake_getpass
    import types
    misc.time = types.SimpleNamespace(sleep=lambda s: None)
    onboard.gen_seed = lambda: seed
    # on Ledger, onboarding continues with the attestation setup: stop at the "press Enter" prompt
    stdin = Stdin(stdin_lines)
    real_stdin = sys.stdin
    sys.stdin = stdin
    outcome, err = "ADone", None
    buf = io.StringIO()
    real_readline_count = {"n": 0}
    if cmd == "onboard" and kind == "ledger":
        # count the confirmation reads: the read after "Onboarding done" must stop the run
        orig_dispose = onboard.dispose_hsm
        disposals = {"n": 0}
        orig_unlock_dispose = unlock.dispose_hsm

        def dispose_then_stop(h):
            orig_dispose(h)
            disposals["n"] += 1
            # through_unlock: go on through "disconnect and re-connect" and the unlock step that follows the
            # device-side onboarding, and stop before the attestation setup (C15's subject)
            if not through_unlock or disposals["n"] >= 2:
                raise StopHere()
        onboard.dispose_hsm = dispose_then_stop
        if through_unlock:
            unlock.dispose_hsm = dispose_then_stop
    try:
        with contextlib.redirect_stdout(buf):
            try:
                if cmd == "unlock":
                    unlock.do_unlock(opt, **(unlock_args or {}))
                elif cmd == "onboard":
                    onboard.do_onboard(opt)
                elif cmd == "changepin":
                    changepin.do_changepin(opt)
                else:
                    pubkeys.do_get_pubkeys(opt)
            except StopHere:
                pass
            except AdminError as e:
                outcome, err = "AAdminError", str(e)
            except BaseException as e:
                outcome, err = "AOther", "%s: %s" % (type(e).__name__, e)
    finally:
        sys.stdin = real_stdin
        if cmd == "onboard" and kind == "ledger":
            onboard.dispose_hsm = orig_dispose
            unlock.dispose_hsm = orig_unlock_dispose
    return {"outcome": outcome, "error": err, "trace": list(world.trace), "answers": list(world.answers),
            "stdout": buf.getvalue()}


def c_opts(opt):
    def ob(x):
        return "None" if x is None else "(Some %s)" % c_bytes(x.encode("utf-8"))
    return "(mkOpts %s %s %s %s %s %s)" % (ob(opt.pin), ob(opt.new_pin), c_bool(opt.any_pin), c_bool(opt.no_unlock),
                                           c_bool(opt.no_exec), c_bool(opt.output_file_path is not None))


def to_dcase(cmd, kind, opt, stdin_lines, typed, seed, case_script, obs, unlock_args=None, keys=None):
    script = list(obs["answers"])
    if case_script is not None:
        script += list(case_script[len(obs["answers"]):])
    ua = unlock_args or {}
    cmd_t = {"unlock": "(AUnlock %s %s)" % (c_bool(ua.get("exit", True)), c_bool(ua.get("no_exec", False))),
             "onboard": "AOnboard", "onboard+unlock": "AOnboardUnlock", "changepin": "AChangepin", "pubkeys": "APubkeys"}[cmd]
    return "(mkDcase %s %s %s %s %s %s [] %s %s %s %s)" % (
        cmd_t, stack.KINDS[kind], c_opts(opt), c_list(c_str(x) for x in stdin_lines),
        c_list(c_bytes(t) for t in typed), c_bytes(seed), c_list(c_resp(i) for i in script),
        obs["outcome"], c_list(c_event(e) for e in obs["trace"]),
        "None" if keys is None else "(Some %s)" % c_list(
            "(%s, %s, %s)" % (c_str(a), c_str(b), c_str(c)) for a, b, c in keys))
