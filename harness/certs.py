"""Attestation certificate generators (v1 Ledger chains, v2 SGX chains), independent link
verdicts, corruption operators, and rendering of certificate cases for the Coq checker."""
import base64
import copy
import datetime
import hashlib
import hmac
import json

import ecdsa
from ecdsa.util import sigencode_der, sigdecode_der

import env  # noqa: F401
from coqgen import c_bool, c_json, c_list, c_opt, c_str

HEADER = "From PowHsm Require Import Model.Cert Model.CaseCheckCert.\nOpen Scope N_scope.\n"
ROOT = ("<root of trust>",)      # certifier key of the root in link tables (not a JSON value)
N1 = ecdsa.SECP256k1.order
NP = ecdsa.NIST256p.order


# ------------------------------------------------------------------ secp256k1 via `ecdsa` (pure python)
class K1Key:
    def __init__(self, rng):
        self.sk = ecdsa.SigningKey.from_secret_exponent(rng.randrange(1, N1), curve=ecdsa.SECP256k1)
        self.vk = self.sk.get_verifying_key()

    def pub(self):
        return self.vk.to_string("uncompressed")

    def sign(self, msg, tweak=None, low_s=True):
        """DER signature over sha256(msg); with a tweak the key is sk + HMAC(tweak, pub)"""
        d = self.sk.privkey.secret_multiplier
        if tweak is not None:
            t = int.from_bytes(hmac.new(tweak, self.pub(), hashlib.sha256).digest(), "big")
            d = (d + t) % N1
        sk = ecdsa.SigningKey.from_secret_exponent(d, curve=ecdsa.SECP256k1)
        sig = sk.sign_digest_deterministic(hashlib.sha256(msg).digest(), hashfunc=hashlib.sha256,
                                           sigencode=ecdsa.util.sigencode_string)
        r, s = ecdsa.util.sigdecode_string(sig, N1)
        if low_s and s > N1 // 2:
            s = N1 - s
        if not low_s and s <= N1 // 2:
            s = N1 - s
        return sigencode_der(r, s, N1)


def sign_short(key, msg, tweak=None):
    """a VALID signature whose DER form is unusually short: nonce 1/2 mod n gives an r of 166 bits"""
    d = key.sk.privkey.secret_multiplier
    if tweak is not None:
        t = int.from_bytes(hmac.new(tweak, key.pub(), hashlib.sha256).digest(), "big")
        d = (d + t) % N1
    sk = ecdsa.SigningKey.from_secret_exponent(d, curve=ecdsa.SECP256k1)
    k = pow(2, -1, N1)
    sig = sk.sign_digest(hashlib.sha256(msg).digest(), sigencode=ecdsa.util.sigencode_string, k=k)
    r, s = ecdsa.util.sigdecode_string(sig, N1)
    if s > N1 // 2:
        s = N1 - s
    return sigencode_der(r, s, N1)


def k1_verify(pub65, msg, sig_der, tweak=None):
    """Independent verdict of a v1 link (ecdsa package + own tweak arithmetic), libsecp256k1's
    conventions: strict DER, low-S only."""
    try:
        vk = ecdsa.VerifyingKey.from_string(pub65, curve=ecdsa.SECP256k1)
        if tweak is not None:
            t = int.from_bytes(hmac.new(tweak, vk.to_string("uncompressed"), hashlib.sha256).digest(), "big")
            if t >= N1:
                return False
            pt = vk.pubkey.point + ecdsa.SECP256k1.generator * t
            vk = ecdsa.VerifyingKey.from_public_point(pt, curve=ecdsa.SECP256k1)
        r, s = sigdecode_der(sig_der, N1)
        if s > N1 // 2:
            return False
        if sigencode_der(r, s, N1) != sig_der:
            return False
        return vk.verify_digest(sig_der, hashlib.sha256(msg).digest(), sigdecode=sigdecode_der)
    except Exception:
        return False


V1_EXTRACT = {"device": lambda b: b[-65:], "attestation": lambda b: b[1:], "ui": lambda b: b,
              "signer": lambda b: b}


def v1_chain(rng, legacy_signer=False):
    """A genuine Ledger chain: root -> device -> attestation -> {ui, signer}"""
    root, dev, att = K1Key(rng), K1Key(rng), K1Key(rng)
    dev_msg = bytes([0x02]) + bytes(rng.getrandbits(8) for _ in range(rng.randint(0, 12))) + dev.pub()
    att_msg = bytes([0xFF]) + att.pub()
    # the declared tweaks are application hashes (32 bytes) in genuine certificates; the HMAC takes a key of any
    # length, so some chains declare - and are genuinely signed under - shorter or longer ones
    ui_hash = bytes(rng.getrandbits(8) for _ in range(rng.choice([32, 32, 32, 1, 16, 31, 33])))
    signer_hash = bytes(rng.getrandbits(8) for _ in range(rng.choice([32, 32, 32, 2, 20, 31, 40])))
    ui_msg = b"HSM:UI:5.4" + bytes(rng.getrandbits(8) for _ in range(32 + 33 + 32 + 2))
    signer_msg = b"POWHSM:5.4::" + bytes(rng.getrandbits(8) for _ in range(115))
    els = [
        {"name": "attestation", "message": att_msg.hex(), "signature": dev.sign(att_msg).hex(),
         "signed_by": "device"},
        {"name": "device", "message": dev_msg.hex(), "signature": root.sign(dev_msg).hex(),
         "signed_by": "root"},
        {"name": "ui", "message": ui_msg.hex(), "signature": att.sign(ui_msg, ui_hash).hex(),
         "signed_by": "attestation", "tweak": ui_hash.hex()},
        {"name": "signer", "message": signer_msg.hex(), "signature": att.sign(signer_msg, signer_hash).hex(),
         "signed_by": "attestation", "tweak": signer_hash.hex()},
    ]
    doc = {"version": 1, "targets": ["ui", "signer"], "elements": els}
    return doc, {"root": root, "device": dev, "attestation": att}


def v1_link_truth(doc, root_pub):
    """{(element name, certifier name|None): bool} for every pair the walk may query, computed
    independently of the implementation"""
    els = {}
    for e in doc.get("elements", []):
        if isinstance(e, dict) and isinstance(e.get("name"), str):
            els[e["name"]] = e
    out = {}
    for nm, e in els.items():
        for cf in (ROOT, e.get("signed_by")):
            try:
                if cf is ROOT:
                    pub = root_pub
                else:
                    c = els.get(cf) if isinstance(cf, str) else None
                    if c is None:
                        continue
                    pub = V1_EXTRACT[c["name"]](bytes.fromhex(c["message"]))
                tw = bytes.fromhex(e["tweak"]) if "tweak" in e else None
                out[(nm, cf)] = bool(pub is not None and k1_verify(
                    pub, bytes.fromhex(e["message"]), bytes.fromhex(e["signature"]), tw))
            except Exception:
                out[(nm, cf)] = False
    return out


def flip(rng, hexstr):
    b = bytearray(bytes.fromhex(hexstr))
    if not b:
        return hexstr
    i = rng.randrange(len(b))
    b[i] ^= 1 << rng.randrange(8)
    return bytes(b).hex()


def der_header_flips(doc, keys, idx):
    """every bit of the DER framing of element idx's signature: SEQUENCE tag/length, both INTEGER
    tags/lengths and the first content byte of r and s"""
    out = []
    root_pub = keys["root"].pub()
    sig = bytes.fromhex(doc["elements"][idx]["signature"])
    rlen = sig[3]
    positions = [0, 1, 2, 3, 4, 4 + rlen, 5 + rlen, 6 + rlen, len(sig) - 1]
    for pos in positions:
        if pos >= len(sig):
            continue
        for bit in range(8):
            b = bytearray(sig)
            b[pos] ^= 1 << bit
            d = copy.deepcopy(doc)
            d["elements"][idx]["signature"] = bytes(b).hex()
            out.append(("derflip-%s-%d.%d" % (doc["elements"][idx]["name"], pos, bit), d, root_pub))
    return out


def v1_corruptions(rng, doc, keys):
    """single-point corruptions of a genuine chain: (label, document, root key hex)"""
    out = []
    root_pub = keys["root"].pub()
    for i, e in enumerate(doc["elements"]):
        for field in ("message", "signature") + (("tweak",) if "tweak" in e else ()):
            d = copy.deepcopy(doc)
            d["elements"][i][field] = flip(rng, e[field])
            out.append(("flip-%s-%s" % (e["name"], field), d, root_pub))
    # swapped signatures of ui and signer
    d = copy.deepcopy(doc)
    a, b = d["elements"][2], d["elements"][3]
    a["signature"], b["signature"] = b["signature"], a["signature"]
    out.append(("swap-signatures", d, root_pub))
    # signature by a different key
    other = K1Key(rng)
    for i, e in enumerate(doc["elements"]):
        d = copy.deepcopy(doc)
        tw = bytes.fromhex(e["tweak"]) if "tweak" in e else None
        d["elements"][i]["signature"] = other.sign(bytes.fromhex(e["message"]), tw).hex()
        out.append(("foreign-key-%s" % e["name"], d, root_pub))
    # wrong root
    out.append(("wrong-root", copy.deepcopy(doc), K1Key(rng).pub()))
    # wrong parent
    d = copy.deepcopy(doc)
    d["elements"][2]["signed_by"] = "device"
    out.append(("reparent-ui", d, root_pub))
    d = copy.deepcopy(doc)
    d["elements"][0]["signed_by"] = "root"
    out.append(("reparent-attestation", d, root_pub))
    # tweak removed / added
    d = copy.deepcopy(doc)
    del d["elements"][3]["tweak"]
    out.append(("untweak-signer", d, root_pub))
    d = copy.deepcopy(doc)
    d["elements"][0]["tweak"] = "aa" * 32
    out.append(("tweak-attestation", d, root_pub))
    # high-S signature (libsecp256k1 rejects it)
    d = copy.deepcopy(doc)
    msg = bytes.fromhex(d["elements"][1]["message"])
    d["elements"][1]["signature"] = keys["root"].sign(msg, low_s=False).hex()
    out.append(("high-s-device", d, root_pub))
    # deeper chains than the usual three levels: the signer certified by the ui element (whose message
    # is no key at all) and an attestation certified by the ui (four elements on the signer's path)
    d = copy.deepcopy(doc)
    d["elements"][3]["signed_by"] = "ui"
    out.append(("reparent-signer-under-ui", d, root_pub))
    # perfectly valid signatures that are shorter than usual (small r)
    for idx, signer_key, tw in ((1, keys["root"], None), (0, keys["device"], None),
                                (2, keys["attestation"], bytes.fromhex(doc["elements"][2]["tweak"]))):
        d = copy.deepcopy(doc)
        d["elements"][idx]["signature"] = sign_short(signer_key, bytes.fromhex(d["elements"][idx]["message"]),
                                                     tw).hex()
        out.append(("short-valid-signature-%s" % d["elements"][idx]["name"], d, root_pub))
    # attestation messages of other lengths: the certified key is everything after the first byte
    att_k, dev_k = keys["attestation"], keys["device"]
    for label, att_msg in (("attmsg-two-byte-prefix", b"\xff\xff" + att_k.pub()),
                           ("attmsg-compressed-key", b"\xff" + att_k.vk.to_string("compressed")),
                           ("attmsg-trailing-byte", b"\xff" + att_k.pub() + b"\x00")):
        d = copy.deepcopy(doc)
        d["elements"][0]["message"] = att_msg.hex()
        d["elements"][0]["signature"] = dev_k.sign(att_msg).hex()
        d["targets"] = ["attestation", "ui", "signer"]
        out.append((label, d, root_pub))
    # subsets / orders of targets, shared ancestors
    for tg in (["ui"], ["signer"], ["attestation"], ["device"], ["signer", "ui", "device"], []):
        d = copy.deepcopy(doc)
        d["targets"] = tg
        out.append(("targets-%s" % "+".join(tg), d, root_pub))
    # every corruption again with several targets in some order (one call validates them all)
    names = [e["name"] for e in doc["elements"]]
    for label, d0, rp in list(out):
        if label.startswith("targets-"):
            continue
        d = copy.deepcopy(d0)
        d["targets"] = rng.sample(names, rng.randint(2, len(names)))
        out.append((label + "+targets-" + "+".join(d["targets"]), d, rp))
    return out


# ------------------------------------------------------------------ running the implementation
def impl_load_validate(doc, root_obj_factory, tmpdir, with_resave=True, prior_root_factory=None):
    """load through HSMCertificate.from_jsonfile, validate, to_dict.  Returns observation dict.
    prior_root_factory: first validate the same object against that other root (history)."""
    import os
    from admin.certificate import HSMCertificate
    path = os.path.join(tmpdir, "cert.json")
    with open(path, "w") as f:
        json.dump(doc, f)
    obs = {"loaded": False, "results": None, "resave": "skip", "error": None}
    try:
        cert = HSMCertificate.from_jsonfile(path)
    except BaseException as e:
        if type(e).__name__ == "Hang":
            raise                      # the caller's time budget ran out: not an answer
        obs["error"] = type(e).__name__
        return obs
    obs["loaded"] = True
    obs["cert"] = cert
    if prior_root_factory is not None:
        try:
            cert.validate_and_get_values(prior_root_factory())
        except BaseException as e:
            if type(e).__name__ == "Hang":
                raise
    if root_obj_factory is not None:
        results = []
        root = root_obj_factory()
        for tg in cert._targets:
            # one target at a time so that an exception for one target does not hide the others
            saved = cert._targets
            cert._targets = [tg]
            try:
                r = cert.validate_and_get_values(root)[tg]
                results.append(r)
            except BaseException as e:
                if type(e).__name__ == "Hang":
                    raise
                results.append(("raises", type(e).__name__))
            finally:
                cert._targets = saved
        obs["results"] = results
        # ... and all targets in one call (what the commands do): must agree with the above
        try:
            allr = cert.validate_and_get_values(root)
            obs["results_all"] = [allr[tg] for tg in cert._targets]
        except BaseException as e:
            if type(e).__name__ == "Hang":
                raise
            obs["results_all"] = ("raises", type(e).__name__)
    if with_resave:
        try:
            # through the real saving entry point and the file it writes (what "saving" means to a user)
            path2 = os.path.join(tmpdir, "cert_saved.json")
            cert.save_to_jsonfile(path2)
            with open(path2) as f:
                obs["resave"] = json.load(f)
        except BaseException as e:
            if type(e).__name__ == "Hang":
                raise
            obs["resave"] = None
            obs["resave_error"] = type(e).__name__
    return obs


def c_vres(r):
    if r[0] == "raises":
        return "VRaises"
    if r[0] is True:
        v = r[1]
        if isinstance(v, dict):            # v2 quote: {"sgx_quote": SgxQuote, "message": hex}
            v = v["message"]
        return "(VValid %s %s)" % (c_str(v), c_opt(r[2], c_str))
    return "(VInvalid %s)" % c_json(r[1])


def b64_table(doc):
    out = {}
    for e in doc.get("elements", []) if isinstance(doc, dict) and isinstance(doc.get("elements"), list) else []:
        if isinstance(e, dict) and isinstance(e.get("message"), str):
            m = e["message"]
            try:
                out[m] = base64.b64encode(base64.b64decode(m)).decode("ascii")
            except Exception:
                out[m] = None
    return out


def key_table(doc):
    out = {}
    for e in doc.get("elements", []) if isinstance(doc, dict) and isinstance(doc.get("elements"), list) else []:
        if isinstance(e, dict) and isinstance(e.get("key"), str):
            try:
                kb = bytes.fromhex(e["key"])
                k = kb.hex()
                out[k] = ecdsa.VerifyingKey.from_string(kb, ecdsa.NIST256p).to_string("uncompressed").hex()
            except Exception:
                try:
                    out[bytes.fromhex(e["key"]).hex()] = None
                except Exception:
                    pass
    return out


def to_ccase(doc, links, obs):
    """links: {(name, certifier|None): bool} with JSON-value names"""
    results = None
    if obs.get("results") is not None:
        results = c_list(c_vres(r) for r in obs["results"])
    if obs["resave"] == "skip":
        resave = "None"
    elif obs["resave"] is None:
        resave = "(Some None)"
    else:
        resave = "(Some (Some %s))" % c_json(obs["resave"])
    return "(mkCcase %s %s %s %s %s %s %s)" % (
        c_json(doc),
        c_list("(%s, %s)" % (c_str(k), c_opt(v, c_str)) for k, v in b64_table(doc).items()),
        c_list("(%s, %s)" % (c_str(k), c_opt(v, c_str)) for k, v in key_table(doc).items()),
        c_list("(%s, %s, %s)" % (c_json(n), "None" if cf is ROOT else "(Some %s)" % c_json(cf), c_bool(v))
               for (n, cf), v in links.items()),
        c_bool(obs["loaded"]),
        "None" if results is None else "(Some %s)" % results,
        resave)


def impl_links(cert, root_obj):
    """link verdicts taken from the implementation itself (used where crypto is not the subject)"""
    out = {}
    for nm, e in cert._elements.items():
        for cf_name, cf in ((ROOT, root_obj), (e.signed_by, cert._elements.get(e.signed_by)
                                              if _hashable(e.signed_by) else None)):
            if cf is None:
                continue
            try:
                out[(nm, cf_name)] = bool(e.is_valid(cf))
            except BaseException:
                out[(nm, cf_name)] = False
    return out


def _hashable(x):
    try:
        hash(x)
        return True
    except TypeError:
        return False
