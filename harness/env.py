"""Common harness environment: import path, bitcoin.core shim, fake transport, recorders.

Run with /venv/bin/python.  Nothing here touches /repo; every fake is installed from outside
by assigning module attributes."""
import os
import sys
import random
import logging
import types

REPO = os.environ.get("VERIF_REPO", "/repo")
MW = os.path.join(REPO, "middleware")
VERIF = os.path.dirname(os.path.dirname(os.path.abspath(__file__)))

if MW not in sys.path:
    sys.path.insert(0, MW)
if os.path.join(VERIF, "harness") not in sys.path:
    sys.path.insert(0, os.path.join(VERIF, "harness"))

from shims import bitcoin_core  # noqa: E402

BITCOIN_IMPL = bitcoin_core.install()

logging.disable(logging.CRITICAL)

from ledgerblue.commException import CommException  # noqa: E402


class World:
    """Script of device answers + connect outcomes + recorded trace (shared by all fakes)."""

    def __init__(self, script=None, connects=None, device=None):
        self.script = list(script or [])
        self.connects = list(connects or [])
        self.device = device          # optional simulator: apdu(bytes) -> item
        self.trace = []               # ("A", bytes) | ("C", ok) | ("X",)  (X = close)
        self.answers = []             # every item actually delivered (record for replay)
        self.runaway = False

    MAX_EXCHANGES = int(os.environ.get("VERIF_MAX_EXCHANGES", "20000"))

    def next_item(self, apdu):
        # a run that never ends (e.g. a chunk loop that makes no progress) is cut off: the link
        # "breaks" and the run is marked so that the caller reports it
        if len(self.answers) >= self.MAX_EXCHANGES:
            self.runaway = True
            self.answers.append(("W",))
            return ("W",)
        if self.device is not None:
            item = self.device(apdu)
        elif self.script:
            item = self.script.pop(0)
        else:
            item = ("T",)
        self.answers.append(item)
        return item


class FakeDongle:
    def __init__(self, world):
        self.world = world
        self.opened = True

    dead = False      # a link that failed on a write or a read stays broken until it is re-opened

    def exchange(self, apdu, timeout=None):
        apdu = bytes(apdu)
        self.world.trace.append(("A", apdu))
        if not self.opened:
            # a handle that has been closed carries nothing any more
            self.world.answers.append(("W",))
            raise BaseException("Error while writing")
        if self.dead:
            self.world.answers.append(("W",))
            raise BaseException("Error while writing")
        item = self.world.next_item(apdu)
        k = item[0]
        if k in ("W", "R"):
            self.dead = True
        if k == "D":
            return bytearray(item[1])
        if k == "S":
            raise CommException("Invalid status %04x" % item[1], item[1])
        if k == "T":
            raise CommException("Timeout", 0x6F00)
        if k == "W":
            raise BaseException("Error while writing")
        if k == "R":
            raise OSError("read error")
        if k == "E":
            raise {"ValueError": ValueError, "TypeError": TypeError,
                   "OSError": OSError, "KeyboardInterrupt": KeyboardInterrupt}[item[1]]("injected")
        raise AssertionError("bad script item %r" % (item,))

    def close(self):
        self.world.trace.append(("X",))
        self.opened = False


def make_get_dongle(world):
    def get_dongle(*a, **k):
        ok = world.connects.pop(0) if world.connects else True
        world.trace.append(("C", ok))
        if not ok:
            raise CommException("No dongle found")
        return FakeDongle(world)
    return get_dongle


class _FakeHid:
    @staticmethod
    def hidapi_exit():
        return None


def install_transport(world):
    """Point every getDongle the middleware uses at the fake; neutralise hid and sleeping."""
    import ledger.hsm2dongle as h
    import ledger.hsm2dongle_tcp as ht
    import ledger.protocol as lp
    h.getDongle = make_get_dongle(world)
    ht.getDongle = make_get_dongle(world)
    h.hid = _FakeHid
    # replace the module's *reference* to time, never time.sleep itself (others still need to sleep)
    lp.time = types.SimpleNamespace(sleep=lambda s: None)
    try:
        import admin.dongle_admin as da
        da.getDongle = make_get_dongle(world)
    except Exception:
        pass


def set_platform(name="Ledger", options=None):
    from comm.platform import Platform
    Platform.set(name, options or {})


def rng(seed_extra=0):
    seed = int(os.environ.get("VERIF_SEED", "0"))
    return random.Random(seed * 1000003 + seed_extra)
