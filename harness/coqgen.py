"""Python values -> Gallina literals; case-file writer; parallel coqc runner; result reader."""
import os
import re
import subprocess
import math
import shutil

COQ_DIR = os.path.join(os.path.dirname(os.path.dirname(os.path.abspath(__file__))), "coq")


def c_bool(b):
    return "true" if b else "false"


def c_N(n):
    assert n >= 0
    return "%d" % n


def c_Z(n):
    return "(%d)%%Z" % n


_INTERN = {}      # literal text -> token
_TOKENS = {}      # token -> literal text
TOKEN_RE = re.compile(r"\u27e6L(\d+)\u27e7")


def _intern(lit):
    """Long literals are hoisted into one Definition per shard (parsing them is what costs)."""
    if len(lit) < 40:
        return lit
    tok = _INTERN.get(lit)
    if tok is None:
        tok = "\u27e6L%d\u27e7" % len(_INTERN)
        _INTERN[lit] = tok
        _TOKENS[tok] = lit
    return tok


def c_str(x):
    return _intern(_c_str(x))


def c_bytes(b):
    return _intern(_c_bytes(b))


def _c_str(x):
    """Python str -> `str` (list of code points)."""
    if all(32 <= ord(ch) < 127 and ch != '"' for ch in x) and len(x) < 4000:
        return '(s "%s")' % x
    if len(x) >= 4000 and all(ch in "0123456789abcdefABCDEF" for ch in x):
        # long hex text: keep the literal compact
        return "(" + " ++ ".join('s "%s"' % x[i:i + 2000] for i in range(0, len(x), 2000)) + ")"
    return "[" + "; ".join("%d" % ord(ch) for ch in x) + "]"


def _c_bytes(b):
    h = bytes(b).hex()
    if len(h) <= 4000:
        return '(hx "%s")' % h
    return "(" + " ++ ".join('hx "%s"' % h[i:i + 2000] for i in range(0, len(h), 2000)) + ")"


def c_list(items):
    return "[" + "; ".join(items) + "]"


def c_opt(x, f):
    return "None" if x is None else "(Some %s)" % f(x)


def c_json(v):
    if v is None:
        return "JNull"
    if v is True or v is False:
        return "(JBool %s)" % c_bool(v)
    if isinstance(v, int):
        return "(JInt %s)" % c_Z(v)
    if isinstance(v, float):
        if math.isfinite(v) and v.is_integer():
            return "(JFloat (Some %s))" % c_Z(int(v))
        return "(JFloat None)"
    if isinstance(v, str):
        return "(JStr %s)" % c_str(v)
    if isinstance(v, (list, tuple)):
        return "(JArr %s)" % c_list(c_json(x) for x in v)
    if isinstance(v, dict):
        return "(JObj %s)" % c_list("(%s, %s)" % (c_str(k), c_json(x)) for k, x in v.items())
    raise TypeError("not JSON: %r" % (v,))


def c_resp(item):
    k = item[0]
    if k == "D":
        return "(Data %s)" % c_bytes(item[1])
    if k == "S":
        return "(Status %d)" % item[1]
    return {"T": "TimeoutR", "W": "WriteErr", "R": "ReadErr", "E": "Raise"}[k]


def c_event(ev):
    if ev[0] == "A":
        return "(Apdu %s TimeoutR)" % c_bytes(ev[1])
    if ev[0] == "C":
        return "(Connect %s)" % c_bool(ev[1])
    if ev[0] == "X":
        return "Close"
    if ev[0] == "F":
        return "(PinFileWrite %s %s)" % (c_bytes(ev[1]), c_bool(ev[2]))
    raise ValueError(ev)


RESULT_RE = re.compile(r"=\s*\(\s*(\d+)(?:%nat)?\s*,\s*\[(.*?)\]\s*\)", re.S)


def expand(term):
    """replace interned-literal tokens by their text (for terms built in another process)"""
    return TOKEN_RE.sub(lambda m: "(" + _TOKENS["\u27e6L%s\u27e7" % m.group(1)] + ")", term)


def run_case_files(workdir, header, checker, case_terms, shard=250, jobs=16, timeout=900,
                   extra_defs=""):
    """Write case_terms (Gallina terms) into shards, evaluate `mismatches checker` with
    vm_compute inside Coq, return (n_evaluated, [bad indices], errors)."""
    os.makedirs(workdir, exist_ok=True)
    files = []
    for k in range(0, max(len(case_terms), 1), shard):
        chunk = case_terms[k:k + shard]
        path = os.path.join(workdir, "cases_%05d.v" % k)
        body = ";\n".join(chunk)
        used = sorted(set(TOKEN_RE.findall(body)), key=int)
        with open(path, "w") as f:
            f.write(header + "\n" + extra_defs + "\n")
            for n in used:
                f.write("Definition lit_%s := %s.\n" % (n, _TOKENS["\u27e6L%s\u27e7" % n]))
            f.write("Definition cases := [\n" + TOKEN_RE.sub(lambda m: "lit_" + m.group(1), body)
                    + "\n].\n")
            f.write("Eval vm_compute in (length cases, mismatches %s cases).\n" % checker)
        files.append((k, path, len(chunk)))
    procs = []
    results = []
    errors = []

    def reap(p, k, path, n):
        try:
            out, _ = p.communicate(timeout=timeout)
        except subprocess.TimeoutExpired:
            p.kill()
            errors.append("timeout evaluating %s" % path)
            return
        m = RESULT_RE.search(out)
        if p.returncode != 0 or not m:
            errors.append("coqc failed on %s: %s" % (path, out[-600:]))
            return
        cnt = int(m.group(1))
        bad = [int(x.replace("%nat", "")) for x in re.split(r"[;\s]+", m.group(2).strip()) if x]
        if cnt != n:
            errors.append("case count mismatch in %s" % path)
        results.append((k, cnt, bad))

    pending = list(files)
    running = []
    while pending or running:
        while pending and len(running) < jobs:
            k, path, n = pending.pop(0)
            p = subprocess.Popen(["coqc", "-Q", COQ_DIR, "PowHsm", path], cwd=workdir,
                                 stdout=subprocess.PIPE, stderr=subprocess.STDOUT, text=True)
            running.append((p, k, path, n))
        p, k, path, n = running.pop(0)
        reap(p, k, path, n)
    total = sum(c for _, c, _ in results)
    bad = sorted(k + i for k, _, b in results for i in b)
    return total, bad, errors


def eval_terms(workdir, header, terms, timeout=300):
    """Evaluate arbitrary terms with vm_compute and return coqc's raw output (diagnostics)."""
    os.makedirs(workdir, exist_ok=True)
    path = os.path.join(workdir, "diag.v")
    with open(path, "w") as f:
        f.write(header + "\n")
        for t in terms:
            f.write("Eval vm_compute in (%s).\n" % t)
    p = subprocess.run(["coqc", "-Q", COQ_DIR, "PowHsm", path], cwd=workdir,
                       stdout=subprocess.PIPE, stderr=subprocess.STDOUT, text=True, timeout=timeout)
    return p.stdout


def cleanup(workdir):
    shutil.rmtree(workdir, ignore_errors=True)
