"""The ten protocol commands as representative accepted requests with an honest device, and the
honest-transcript/injection machinery shared by C04 and C11."""
import copy
import gen
import devices
import stack


def standard_requests(rng, compact=False):
    """[(name, mode, request, device_factory)] covering every exchange shape of every command.
    compact: the same shapes with as few exchanges as possible (one block, one brother, 255-byte
    chunks) - used where every case is evaluated tens of thousands of times"""
    out = []

    def dev(**kw):
        def f():
            d = gen.random_device(__import__("random").Random(kw.pop("seed", 1)))
            d.policy = devices.Policy(chunk=kw.pop("chunk", 255 if compact else 40))
            for k, v in kw.items():
                setattr(d, k, v)
            return d
        return f

    r2 = __import__("random").Random(7)
    req, tx, receipt, proof = gen.sign_request_auth(r2, segwit=False)
    req["message"]["input"] = 0
    out.append(("sign-auth-legacy", "v5", req, dev()))
    req2, _, _, _ = gen.sign_request_auth(r2, segwit=True)
    req2["message"]["input"] = 0
    out.append(("sign-auth-segwit", "v5", req2, dev()))
    out.append(("sign-unauth", "v5", {"command": "sign", "version": 5, "keyId": gen.UNAUTH_PATHS[0],
                                      "message": {"hash": "ab" * 32}}, dev()))
    out.append(("sign-v1", "v1", {"command": "sign", "version": 1, "keyId": gen.PATHS[1],
                                  "message": "cd" * 32}, dev()))
    out.append(("getPubKey", "v5", {"command": "getPubKey", "version": 5, "keyId": gen.PATHS[0]}, dev()))
    out.append(("getPubKey-v1", "v1", {"command": "getPubKey", "version": 1, "keyId": gen.PATHS[0]}, dev()))
    hs = [gen.random_header(r2, 19), gen.random_header(r2, 20)]
    bros = [[gen.random_header(r2, 19), gen.random_header(r2, 20)], []]
    if compact:
        bros = [[gen.random_header(r2, 19)], []]
    out.append(("advanceBlockchain", "v5",
                {"command": "advanceBlockchain", "version": 5, "blocks": [h.hex() for h in hs],
                 "brothers": [[b.hex() for b in bl] for bl in bros]},
                dev(bo_plan={"ask_brothers": {0, 1}})))
    out.append(("advanceBlockchain-partial", "v5",
                {"command": "advanceBlockchain", "version": 5, "blocks": [h.hex() for h in hs],
                 "brothers": [[], []]}, dev(bo_plan={"stop_after": 1, "partial": True})))
    # the device may end an advance with PARTIAL or SUCCESS at any point it likes: after the last block, right
    # after the last brother of the last block, or before the announced count is exhausted
    bros_last = [[], [gen.random_header(r2, 19)]]
    out.append(("advanceBlockchain-partial-after-brother", "v5",
                {"command": "advanceBlockchain", "version": 5, "blocks": [h.hex() for h in hs],
                 "brothers": [[b.hex() for b in bl] for bl in bros_last]},
                dev(bo_plan={"ask_brothers": {1}, "partial": True})))
    out.append(("advanceBlockchain-partial-at-end", "v5",
                {"command": "advanceBlockchain", "version": 5, "blocks": [h.hex() for h in hs],
                 "brothers": [[], []]}, dev(bo_plan={"partial": True})))
    out.append(("advanceBlockchain-success-early", "v5",
                {"command": "advanceBlockchain", "version": 5, "blocks": [h.hex() for h in hs],
                 "brothers": [[b.hex() for b in bl] for bl in bros]},
                dev(bo_plan={"stop_after": 1, "ask_brothers": {0}})))
    out.append(("updateAncestorBlock", "v5",
                {"command": "updateAncestorBlock", "version": 5, "blocks": [h.hex() for h in hs]}, dev()))
    out.append(("updateAncestorBlock-success-early", "v5",
                {"command": "updateAncestorBlock", "version": 5, "blocks": [h.hex() for h in hs]},
                dev(bo_plan={"stop_after": 1})))
    out.append(("resetAdvanceBlockchain", "v5", {"command": "resetAdvanceBlockchain", "version": 5}, dev()))
    out.append(("blockchainState", "v5", {"command": "blockchainState", "version": 5}, dev()))
    out.append(("blockchainParameters", "v5", {"command": "blockchainParameters", "version": 5}, dev()))
    out.append(("signerHeartbeat", "v5", {"command": "signerHeartbeat", "version": 5,
                                          "udValue": "11" * 16}, dev()))
    out.append(("uiHeartbeat", "v5", {"command": "uiHeartbeat", "version": 5, "udValue": "22" * 32},
                dev(mode=3, after_exit=[4, 3])))
    out.append(("uiHeartbeat-inui", "v5", {"command": "uiHeartbeat", "version": 5, "udValue": "22" * 32},
                dev(mode=4)))
    out.append(("version", "v5", {"command": "version"}, dev()))
    return out


def honest_transcript(mode, req, device_factory):
    """Run the request against the honest device and return (answers, observation)."""
    case = {"mode": mode, "kind": "ledger", "lines": [gen.line(req)], "device": device_factory()}
    obs = stack.run_case(case)
    obs["device"] = case["device"]
    return list(obs["answers"]), obs


def device_verdict(cmdname, d):
    """The result code the DEVICE's own final report calls for (None when the simulator keeps no such
    report for the command): 0 for total success, 1 for partial success."""
    if cmdname in ("advanceBlockchain", "updateAncestorBlock"):
        return {"success": 0, "partial": 1}.get(getattr(d, "final_report", None))
    if cmdname == "sign":
        return 0 if getattr(d, "reported_success", False) else None
    return None


BRINGUP_SIGNER = [("D", bytes([0x80, 1, 5, 4, 1])),            # IS_ONBOARD: onboarded
                  ("D", bytes([0x80, 3])),                      # GET_MODE: signer
                  ("D", bytes([0x80, 1, 5, 4, 1])),            # version
                  ("D", bytes([0x80, 0x11, 0]) + b"\xaa" * 32 + (7).to_bytes(36, "big") + b"\x01")]
