"""PIN histories with real files, real FileBasedPin, the real bring-up and real process crashes:
each manager lifetime runs in a forked child against a PIN-checking device simulator whose state
is journalled to a file; faults are injected into open()/write(), crashes are os._exit at a
chosen point; the parent inspects the surviving files."""
import os
import sys

import env
import devices
from coqgen import c_bool, c_bytes, c_list, c_opt

HEADER = "From PowHsm Require Import Model.PinHistory Model.CaseCheckPin.\nOpen Scope N_scope.\n"

EXIT = {0: "RServed", 10: "RPinError", 11: "RUnlockFailed", 12: "RStopped", 77: "RCrashed", 78: "RCrashed",
        13: "other"}


class PinDevice(devices.Device):
    """bootloader-mode device whose PIN lives in a journal file"""

    def __init__(self, journal, send, sgx):
        super().__init__(mode=2, sgx=sgx)
        self.journal = journal
        self.send = send
        self.pin = open(journal, "rb").read()
        self.after_exit = [3, 3]
        self.sent_new_pins = []

    def _adopt(self, p):
        with open(self.journal, "wb") as f:
            f.write(p)
            f.flush()
            os.fsync(f.fileno())
        self.pin = p

    def _change(self, sent, ok_answer, refuse_answer):
        self.sent_new_pins.append(sent)
        with open(self.journal + ".sent", "ab") as f:      # survives a crash of the manager
            f.write(sent + b"|")
        if self.send == "SAck":
            self._adopt(sent)
            return ok_answer
        if self.send == "SRefuse":
            return refuse_answer
        if self.send == "SError":
            return ("S", 0x6A99)
        self._adopt(sent)            # SAckLost
        return ("W",)

    def cmd_08(self, data):          # Ledger CHANGE_PIN (PIN sent before with SEND_PIN, length-prefixed)
        sent = self._pin_sent(True)
        return self._change(sent, devices.D(devices.CLA, 0x08), ("S", 0x69A0))

    def cmd_a5(self, data):          # SGX_CHANGE_PASSWORD
        return self._change(bytes(data[1:]), devices.D(devices.CLA, 0xA5, 1), devices.D(devices.CLA, 0xA5, 0))


def child_run(path, default, force, candidates, send, commit, journal, kind, report):
    """one manager lifetime; never returns"""
    import ledger.pin as pinmod
    from ledger.pin import FileBasedPin, PinError
    from ledger.protocol import HSM2ProtocolLedger
    from comm.protocol import HSM2ProtocolError, HSM2ProtocolInterrupt
    from ledger.hsm2dongle import HSM2Dongle
    from sgx.hsm2dongle import HSM2DongleSGX
    cands = list(candidates)

    class _Rand:
        def __init__(self):
            self.cur = []

        def seed(self, *a):
            pass

        def choice(self, seq):
            if not self.cur:
                self.cur = list(cands.pop(0).decode("latin1"))
            return self.cur.pop(0)
    pinmod.random = _Rand()
    real_open = open

    class _FailingWrite:
        def __init__(self, f, crash):
            self.f, self.crash = f, crash

        def __enter__(self):
            return self

        def __exit__(self, *a):
            self.f.close()
            return False

        def write(self, data):
            if self.crash:
                os._exit(78)
            raise OSError("injected write failure")

    def fake_open(p, mode="r", *a, **k):
        if "w" in mode and os.path.abspath(p) == os.path.abspath(path):
            if commit == "COpenFail":
                raise OSError("injected open failure")
            if commit in ("CWriteFail", "CCrashAfterTruncate"):
                return _FailingWrite(real_open(p, mode), commit == "CCrashAfterTruncate")
        return real_open(p, mode, *a, **k)
    pinmod.open = fake_open
    try:
        pin = FileBasedPin(path, default, force)
    except PinError:
        os._exit(10)
    if commit == "CCrashBeforeCommit":
        pin.commit_change = lambda: os._exit(77)
    dev = PinDevice(journal, send, kind == "sgx")
    world = env.World(device=dev)
    env.install_transport(world)
    env.set_platform("SGX" if kind == "sgx" else "Ledger")
    dongle = HSM2DongleSGX("h", 1, False) if kind == "sgx" else HSM2Dongle(False)
    dongle.dongle = None
    proto = HSM2ProtocolLedger(pin, dongle)
    code = 13
    try:
        proto.initialize_device()
        code = 0
    except HSM2ProtocolInterrupt:
        code = 12
    except HSM2ProtocolError:
        code = 11
    except BaseException:
        code = 13
    with real_open(report, "wb") as f:
        f.write(b"|".join(dev.sent_new_pins))
        f.write(b"\n" + pin.get_pin())
    os._exit(code)


def run_history(tmp, init, runs, kind):
    """init: dict(file=bytes|None, dev=bytes, default=bytes|None); runs: list of dicts.
    Returns list of observations (state after, result, sent pins, manager pin)."""
    path = os.path.join(tmp, "pin.txt")
    journal = os.path.join(tmp, "device.pin")
    report = os.path.join(tmp, "report")
    for p in (path, journal, report, journal + ".sent"):
        if os.path.exists(p):
            os.unlink(p)
    if init["file"] is not None:
        with open(path, "wb") as f:
            f.write(init["file"])
    with open(journal, "wb") as f:
        f.write(init["dev"])
    obs = []
    for r in runs:
        for q in (report, journal + ".sent"):
            if os.path.exists(q):
                os.unlink(q)
        pid = os.fork()
        if pid == 0:
            try:
                child_run(path, init["default"], r["force"], r["candidates"], r["send"], r["commit"],
                          journal, kind, report)
            finally:
                os._exit(99)
        _, status = os.waitpid(pid, 0)
        code = os.waitstatus_to_exitcode(status)
        fcontent = open(path, "rb").read() if os.path.isfile(path) else None
        dev = open(journal, "rb").read()
        sent, mgr = [], None
        if os.path.exists(journal + ".sent"):
            sent = [x for x in open(journal + ".sent", "rb").read().split(b"|") if x]
        if os.path.exists(report):
            a, b = open(report, "rb").read().split(b"\n", 1)
            mgr = b
        obs.append({"file": fcontent, "dev": dev, "result": EXIT.get(code, "other"), "code": code,
                    "sent": sent, "mgr_pin": mgr})
    return obs


def c_g(file, dev, default):
    return "(mkG %s %s %s)" % (c_opt(file, c_bytes), c_bytes(dev), c_opt(default, c_bytes))


def valid_pin(p):
    return len(p) == 8 and p.isalnum() and p.isascii() and any(chr(c).isalpha() for c in p)


def to_pcase(init, runs, obs):
    rs = []
    for r in runs:
        newpin = next((c for c in r["candidates"] if valid_pin(c)), b"")
        rs.append("(mkRun %s %s %s %s)" % (c_bool(r["force"]), c_bytes(newpin), r["send"], r["commit"]))
    os_ = ["(%s, %s)" % (c_g(o["file"], o["dev"], init["default"]), o["result"]) for o in obs]
    return "(mkPcase %s %s %s)" % (c_g(init["file"], init["dev"], init["default"]), c_list(rs), c_list(os_))
