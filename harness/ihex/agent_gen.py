import random, sys, os, tempfile
sys.path.insert(0, '/tmp/agent_ihex')
from hexParser import IntelHexParser, IntelHexPrinter
random.seed(int(sys.argv[2]) if len(sys.argv) > 2 else 12345)

def cks(b):
    return (-sum(b)) & 0xFF

def line(count, addr, typ, payload, good_cks=True, upper=None):
    b = bytes([count & 0xFF, (addr >> 8) & 0xFF, addr & 0xFF, typ]) + bytes(payload)
    c = cks(b) if good_cks else random.randrange(256)
    s = b.hex() + "%02x" % c
    if upper is None: upper = random.random() < 0.5
    return ":" + (s.upper() if upper else s)

def rand_file():
    lines = []
    n = random.randrange(1, 12)
    cur = random.choice([0, 0x100, 0xFFF0, 0xFFFE, 0x8000])
    mal = random.random() < 0.3
    for _ in range(n):
        k = random.random()
        if k < 0.55:
            cnt = random.choice([0, 1, 2, 3, 16, 17]) if random.random() < 0.9 else random.randrange(256)
            if random.random() < 0.7:
                addr = cur & 0xFFFF
            else:
                addr = random.choice([0, 0x10, 0x100, 0xFFF0, cur + 1 & 0xFFFF, random.randrange(65536)])
            plen = cnt
            if mal and random.random() < 0.3:
                plen = max(0, cnt + random.choice([-2, -1, 1, 2]))
            payload = [random.randrange(256) for _ in range(plen)]
            lines.append(line(cnt, addr, 0, payload, good_cks=not (mal and random.random() < 0.5)))
            cur = addr + cnt
        elif k < 0.8:
            z = random.choice([0, 1, 2, 0x0800, 0xFFFF, random.randrange(65536)])
            pl = [z >> 8, z & 0xFF]
            if mal and random.random() < 0.2: pl = pl[:random.randrange(2)]
            lines.append(line(len(pl), random.choice([0, 0x1234]), 4, pl))
        elif k < 0.87:
            lines.append(line(0, 0, 1, []))
        elif k < 0.93:
            pl = [random.randrange(256) for _ in range(4)]
            if mal and random.random() < 0.3: pl = pl[:random.randrange(4)]
            lines.append(line(4, 0, 5, pl))
        elif k < 0.96:
            lines.append(line(2, 0, random.choice([2, 3, 6, 0x10, 0xFF]), [0, 0]))
        else:
            lines.append(random.choice(["", "garbage", ":0", ":zz", ":00", ":000000", ": 00 00 00 01", ":00 0000 01FF", ":0000000", "\t", " :00000001FF", ":00000001F F"]))
    if random.random() < 0.9:
        lines.insert(0, line(2, 0, 4, [0, random.randrange(4)]))
    eols = random.choice([["\n"], ["\r\n"], ["\r"], ["\n", "\r\n", "\r", "\n\n", "\r\r\n"]])
    s = ""
    for i, l in enumerate(lines):
        s += l
        if i < len(lines) - 1 or random.random() < 0.8:
            s += random.choice(eols)
    return s

def run_py(content):
    fd, p = tempfile.mkstemp()
    with os.fdopen(fd, "w", newline="") as f:
        f.write(content)
    try:
        ps = IntelHexParser(p)
        r = ("ok", [(a.start, bytes(a.data)) for a in ps.getAreas()], ps.getBootAddr())
    except Exception as e:
        n = type(e).__name__
        r = ("err", {"Exception": "OtherExc", "IndexError": "IndexError", "ValueError": "ValueError", "TypeError": "TypeError"}[n])
    os.unlink(p)
    return r

def coq_str(sx):
    return "[" + ";".join(str(ord(c)) for c in sx) + "]"
def coq_bytes(b):
    return "[" + ";".join(str(x) for x in b) + "]"

out = ["From PowHsm Require Import Py.Base Model.IntelHex.", "Open Scope N_scope.",
 "Definition areas_eqb (a b : list area) := list_eqb (fun x y => (astart x =? astart y) && bytes_eqb (adata x) (adata y)) a b.",
 "Definition chk_ok (c : str) (a : list (N * bytes)) (boot : N) : bool :=",
 "  match run_lines p_init (split_lines c) with inr st => areas_eqb (p_areas st) (map (fun p => mkArea (fst p) (snd p)) a) && (p_boot st =? boot) | inl _ => false end.",
 "Definition chk_err (c : str) (e : pyexc) : bool :=",
 "  match run_lines p_init (split_lines c) with inr _ => false | inl e' => pyexc_eqb e e' end."]
N = int(sys.argv[1]) if len(sys.argv) > 1 else 300
stats = {}
for i in range(N):
    c = rand_file()
    r = run_py(c)
    stats[r[0] if r[0]=="ok" else r[1]] = stats.get(r[0] if r[0]=="ok" else r[1], 0) + 1
    if r[0] == "ok":
        al = "[" + ";".join("(%d, %s)" % (s, coq_bytes(d)) for s, d in r[1]) + "]"
        out.append("Example t%d : chk_ok %s %s %d = true. Proof. vm_compute. reflexivity. Qed." % (i, coq_str(c), al, r[2]))
    else:
        out.append("Example t%d : chk_err %s %s = true. Proof. vm_compute. reflexivity. Qed." % (i, coq_str(c), r[1]))
open("/tmp/agent_ihex/coq/Corpus/IntelHexDiff.v", "w").write("\n".join(out) + "\n")
print(stats)
