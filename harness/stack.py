"""Run server-level cases against the real middleware stack and render them as Coq `scase`
records.  A case = one manager lifetime: a list of request lines served in order by the real
_RequestHandler on top of the real protocol + dongle objects over the fake transport."""
import io
import json
import logging

import env
from coqgen import (c_bool, c_bytes, c_list, c_json, c_resp, c_event, c_opt, c_str)

import comm.server as server
from comm.protocol import HSM2ProtocolError, HSM2ProtocolInterrupt  # noqa: F401
from ledger.protocol import HSM2ProtocolLedger
from ledger.protocol_v1 import HSM1ProtocolLedger
from ledger.hsm2dongle import HSM2Dongle
from ledger.hsm2dongle_tcp import HSM2DongleTCP
from sgx.hsm2dongle import HSM2DongleSGX
import ledger.pin as pinmod
from Crypto.Hash import keccak as _keccak

HEADER = "From PowHsm Require Import Model.CaseCheck.\nOpen Scope N_scope.\n"


def keccak256(b):
    return _keccak.new(digest_bits=256).update(b).digest()


class FakePin:
    """Stands for FileBasedPin with the same observable protocol, backed by the real class's
    methods where possible (we instantiate the real class without touching the disk)."""


def make_pin(pin_state, world, rand_pins, fs_ok):
    """pin_state = None | (cur, needs_change).  Builds a real FileBasedPin object without
    __init__ (no disk access) and routes generate/commit through recorded channels."""
    if pin_state is None:
        return None
    p = pinmod.FileBasedPin.__new__(pinmod.FileBasedPin)
    p.logger = logging.getLogger("pin")
    p._path = "/nonexistent/pin.txt"
    p._pin = pin_state[0]
    p._needs_change = pin_state[1]
    p._changing = False
    rp = list(rand_pins)
    fs = list(fs_ok)

    class _Rand:
        """random replacement: seed() is a no-op, choice() spells the next candidate PIN."""
        def __init__(self):
            self.cur = []

        def seed(self, *a):
            pass

        def choice(self, seq):
            if not self.cur:
                if not rp:
                    raise RuntimeError("candidate stream exhausted")
                self.cur = list(rp.pop(0).decode("latin1"))
            return self.cur.pop(0)

    class _File:
        def __init__(self, ok):
            self.ok = ok

        def __enter__(self):
            return self

        def __exit__(self, *a):
            return False

        def write(self, data):
            world.trace.append(("F", bytes(data), self.ok))
            if not self.ok:
                raise OSError("injected write failure")

    def fake_open(path, mode="r", *a, **k):
        ok = fs.pop(0) if fs else True
        return _File(ok)

    pinmod.random = _Rand()
    pinmod.open = fake_open
    return p


def classify_line(line):
    """What bytes.decode + json.loads make of a request line (the model's parse_outcome)."""
    try:
        data = line.strip().decode("utf-8")
    except UnicodeDecodeError:
        return ("Undecodable", None)
    try:
        return ("Parsed", json.loads(data))
    except json.decoder.JSONDecodeError:
        return ("JsonError", None)
    except Exception:
        return ("ParserRaised", None)


def c_parse_outcome(po):
    if po[0] == "Parsed":
        return "(Parsed %s)" % c_json(po[1])
    return po[0]


KINDS = {"ledger": "KLedger", "sgx": "KSgx", "tcp": "KTcp"}


def run_case(case):
    """case: dict(mode 'v5'|'v1', kind, issue, connects, pin, rand, fs, lines=[bytes], script=[items],
    device=callable|None).  Returns observation dict."""
    world = env.World(script=case.get("script"), connects=case.get("connects"),
                      device=case.get("device"))
    env.install_transport(world)
    env.set_platform({"ledger": "Ledger", "sgx": "SGX", "tcp": "X86"}[case.get("kind", "ledger")])
    kind = case.get("kind", "ledger")
    if kind == "ledger":
        dongle = HSM2Dongle(False)
    elif kind == "sgx":
        dongle = HSM2DongleSGX("h", 1, False)
    else:
        dongle = HSM2DongleTCP("h", 1, False)
    dongle.dongle = env.FakeDongle(world)      # already connected, as after bring-up
    pin = make_pin(case.get("pin"), world, case.get("rand", []), case.get("fs", []))
    if case.get("mode", "v5") == "v5":
        proto = HSM2ProtocolLedger(pin, dongle)
        proto._comm_issue = bool(case.get("issue"))
        v2 = proto
    else:
        proto = HSM1ProtocolLedger(pin, dongle)
        proto.protocol_v2._comm_issue = bool(case.get("issue"))
        v2 = proto.protocol_v2
    logger = logging.getLogger("srver")
    replies = []
    outcomes = []
    class _HungUp(io.BytesIO):
        """the client has gone: every write to its connection fails"""
        def write(self, data):
            raise BrokenPipeError(32, "Broken pipe")

    for li, line in enumerate(case["lines"]):
        outcomes.append(classify_line(line))
        rfile = io.BytesIO(line if line.endswith(b"\n") else line + b"\n")
        wfile = _HungUp() if li in case.get("hangup", ()) else io.BytesIO()
        stop = False
        escaped = None
        try:
            server._RequestHandler(proto, logger).handle("client", rfile, wfile)
        except (server.RequestHandlerError, server.RequestHandlerShutdown):
            stop = True
        except BaseException as e:     # would kill the connection thread
            stop = True
            escaped = type(e).__name__
        out = wfile.getvalue()
        replies.append({"raw": out, "stop": stop, "escaped": escaped})
        if stop:
            break
    return {
        "outcomes": outcomes,
        "replies": replies,
        "trace": list(world.trace),
        "answers": list(world.answers),
        "runaway": world.runaway,
        "issue_after": bool(v2._comm_issue),
        "pin_after": None if pin is None else (pin._pin, pin._needs_change),
    }


def reply_json(r):
    """The single JSON line written back, or None when the output is not exactly one line."""
    raw = r["raw"]
    if raw.count(b"\n") != 1 or not raw.endswith(b"\n"):
        return None
    try:
        return json.loads(raw.decode("utf-8"))
    except Exception:
        return None


def c_pin(pin_state):
    if pin_state is None:
        return "None"
    return "(Some (mkPin %s %s false None))" % (c_bytes(pin_state[0]), c_bool(pin_state[1]))


def blocks_in_case(case, obs):
    """Every hex string that may reach get_block_hash, to build the Keccak table."""
    out = []
    for po in obs["outcomes"]:
        if po[0] != "Parsed" or not isinstance(po[1], dict):
            continue
        for key in ("brothers",):
            v = po[1].get(key)
            if isinstance(v, list):
                for bl in v:
                    if isinstance(bl, list):
                        out.extend(x for x in bl if isinstance(x, str))
    return out


def keccak_table(case, obs):
    """Keccak oracle values for every header that block_utils may hash: computed here on the
    same pre-image the model will ask for (encoding of the header without its last 2 mm fields),
    using pycryptodome directly (the code reaches it through comm.utils.keccak_256)."""
    import rlp
    tbl = {}
    for h in blocks_in_case(case, obs):
        try:
            raw = bytes.fromhex(h)
            blk = rlp.decode(raw)
            n = len(blk)
            if n not in (17, 18, 19, 20):
                continue
            kept = blk[:-2] if n in (19, 20) else blk
            pre = rlp.encode(kept)
            tbl[pre] = keccak256(pre)
        except Exception:
            continue
    return tbl


def to_scase(case, obs):
    """Render (case, observation) as a Gallina `scase` term.  The script handed to the model is
    what the device actually answered (record/replay), followed by the unused tail."""
    script = list(obs["answers"])
    if case.get("device") is None:
        script = script + list((case.get("script") or [])[len(obs["answers"]):])
    replies = []
    for r in obs["replies"]:
        j = reply_json(r)
        if j is None or r["escaped"] is not None:
            return None      # not expressible: the caller reports it as a finding by itself
        replies.append("(%s, %s)" % (c_json(j), c_bool(r["stop"])))
    kt = keccak_table(case, obs)
    return ("(mkScase %s %s %s %s %s %s %s %s %s %s %s %s %s)" % (
        "V5" if case.get("mode", "v5") == "v5" else "V1",
        KINDS[case.get("kind", "ledger")],
        c_bool(case.get("issue")),
        c_list(c_bool(b) for b in (case.get("connects") or [])),
        c_pin(case.get("pin")),
        c_list(c_bytes(p) for p in case.get("rand", [])),
        c_list(c_bool(b) for b in case.get("fs", [])),
        c_list("(%s, %s)" % (c_bytes(k), c_bytes(v)) for k, v in kt.items()),
        c_list(c_parse_outcome(po) for po in obs["outcomes"]),
        c_list(c_resp(i) for i in script),
        c_list(replies),
        c_list(c_event(e) for e in obs["trace"]),
        c_bool(obs["issue_after"]),
    ))
