"""Run the manager bring-up (TCPServer.run -> initialize_device) against a simulated device and
render the run as a Coq `bcase`."""
import socketserver

import env
import stack
from coqgen import c_bool, c_bytes, c_list, c_resp, c_event

import comm.server as server
from ledger.protocol import HSM2ProtocolLedger
from ledger.hsm2dongle import HSM2Dongle
from ledger.hsm2dongle_tcp import HSM2DongleTCP
from sgx.hsm2dongle import HSM2DongleSGX

HEADER = "From PowHsm Require Import Model.CaseCheckBringup.\nOpen Scope N_scope.\n"


class _FakeTCPServer:
    served = False

    def __init__(self, addr, handler):
        pass

    def serve_forever(self):
        _FakeTCPServer.served = True

    def server_close(self):
        pass


def run_bringup(case):
    """case: kind, pin (cur, needs_change)|None, rand, fs, connects, device|script"""
    world = env.World(script=case.get("script"), connects=case.get("connects"), device=case.get("device"))
    env.install_transport(world)
    kind = case.get("kind", "ledger")
    env.set_platform({"ledger": "Ledger", "sgx": "SGX", "tcp": "X86"}[kind])
    if kind == "ledger":
        dongle = HSM2Dongle(False)
    elif kind == "sgx":
        dongle = HSM2DongleSGX("h", 1, False)
    else:
        dongle = HSM2DongleTCP("h", 1, False)
    dongle.dongle = None
    pin = stack.make_pin(case.get("pin"), world, case.get("rand", []), case.get("fs", []))
    proto = HSM2ProtocolLedger(pin, dongle)
    real = socketserver.TCPServer
    socketserver.TCPServer = _FakeTCPServer
    _FakeTCPServer.served = False
    outcome = None
    # through the manager's real entry point (mgr.runner.ManagerRunner.run), which builds the protocol
    # object and the server itself; only the outcome of TCPServer.run is recorded on the way
    import types
    import mgr.runner as runner

    class RecTCPServer(server.TCPServer):
        raised = False

        def run(self):
            try:
                return super().run()
            except server.TCPServerError:
                RecTCPServer.raised = True
                raise
    real_srv, real_cfg = runner.TCPServer, runner.configure_logging
    runner.TCPServer = RecTCPServer
    runner.configure_logging = lambda path: None
    opts = types.SimpleNamespace(logconfigfilepath=None, version_one=False, host="127.0.0.1", port=0)
    try:
        try:
            runner.ManagerRunner("manager", lambda o: dongle, lambda o: pin).run(opts)
            outcome = "BServes" if _FakeTCPServer.served else \
                ("BProtocolError" if RecTCPServer.raised else "BProtocolInterrupt")
        except BaseException as e:
            outcome = "BOtherException"
            exc = type(e).__name__
    finally:
        socketserver.TCPServer = real
        runner.TCPServer, runner.configure_logging = real_srv, real_cfg
    return {"outcome": outcome, "served": _FakeTCPServer.served, "trace": list(world.trace),
            "answers": list(world.answers),
            "pin_after": None if pin is None else (pin._pin, pin._needs_change)}


def to_bcase(case, obs):
    script = list(obs["answers"])
    if case.get("device") is None:
        script += list((case.get("script") or [])[len(obs["answers"]):])
    pa = obs["pin_after"]
    return "(mkBcase %s %s %s %s %s %s %s %s %s)" % (
        stack.KINDS[case.get("kind", "ledger")],
        c_list(c_bool(b) for b in (case.get("connects") or [])),
        stack.c_pin(case.get("pin")),
        c_list(c_bytes(p) for p in case.get("rand", [])),
        c_list(c_bool(b) for b in case.get("fs", [])),
        c_list(c_resp(i) for i in script),
        obs["outcome"],
        c_list(c_event(e) for e in obs["trace"]),
        "None" if pa is None else "(Some (%s, %s))" % (c_bytes(pa[0]), c_bool(pa[1])))
