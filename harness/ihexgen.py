"""Own Intel-HEX writer (independent of ledgerblue's printer) and image generator."""


def _rec(rtype, addr, data):
    body = bytes([len(data), (addr >> 8) & 0xFF, addr & 0xFF, rtype]) + data
    cs = (-sum(body)) & 0xFF
    return ":" + (body + bytes([cs])).hex().upper()


def write_image(areas, sizes, order=None, newline="\n", boot=None):
    """areas: list of (start, data); sizes: cyclic list of record lengths (1..255).
    Records never cross a 64 KiB boundary; a type-04 record is written whenever the upper
    address half changes."""
    lines = []
    zone = None
    k = 0
    idxs = order if order is not None else range(len(areas))
    for i in idxs:
        start, data = areas[i]
        pos = 0
        while pos < len(data):
            addr = start + pos
            n = sizes[k % len(sizes)]
            k += 1
            n = min(n, len(data) - pos, 0x10000 - (addr & 0xFFFF))
            z = addr >> 16
            if z != zone:
                lines.append(_rec(4, 0, bytes([(z >> 8) & 0xFF, z & 0xFF])))
                zone = z
            lines.append(_rec(0, addr & 0xFFFF, data[pos:pos + n]))
            pos += n
    if boot is not None:
        lines.append(_rec(5, 0, boot.to_bytes(4, "big")))
    lines.append(_rec(1, 0, b""))
    return newline.join(lines) + newline


def random_image(rng):
    n = rng.randint(1, 8)
    areas = []
    addr = rng.choice([0, 0x100, 0xFF00, 0xFFF0, 0x1FFF0, 0xC0D00000, 0x2000])
    for _ in range(n):
        r = rng.random()
        if r < 0.12:
            # sizes on and around the powers of two a hashing or flashing loop is likely to chunk by
            ln = rng.choice([64, 128, 512, 1024, 4096, 8192, 4095, 4097, 12288, 16384, 65536])
        elif r < 0.6:
            ln = rng.choice([1, 2, 16, 40, 255, 256, 300, 1000])
        else:
            ln = rng.randint(1, 600)
        data = bytes(rng.getrandbits(8) for _ in range(ln))
        areas.append((addr, data))
        gap = rng.choice([1, 1, 7, 0x100, 0x10000, 0x20000 - (ln % 0x10000)])
        addr = addr + ln + gap
        if addr + 2000 >= 2 ** 32:
            break
    return areas


def random_sizes(rng):
    r = rng.random()
    if r < 0.25:
        return [rng.choice([1, 16, 32, 64, 255])]
    return [rng.randint(1, 255) for _ in range(rng.randint(1, 5))]
