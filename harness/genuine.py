"""Simulated genuine devices for the end-to-end attestation flows (C15): a Ledger with its
issuer (root) -> device -> attestation key hierarchy, UI and signer attestations; and an SGX
powHSM producing a quote envelope.  Written from docs/attestation.md and the firmware, not from
the middleware's gathering code."""
import hashlib
import hmac
import struct

import ecdsa

import certs
import certs_v2 as v2
import devices
import gen

CLA = 0x80
ADMIN_CLA = 0xE0


def tweak_key(k, tweak):
    """K1Key-like signer for key + HMAC(tweak, pub)"""
    return lambda msg: k.sign(msg, tweak)


class GenuineLedger(devices.Device):
    """mode: 2 = bootloader/UI (locked or unlocked), 3 = signer, 'os' = dashboard for admin commands"""

    def __init__(self, rng, legacy_signer=False, pages=None, alter=None, ui_pages=None):
        super().__init__(mode=2, onboarded=False)
        self.rng = rng
        self.root = certs.K1Key(rng)            # Ledger's issuer key (root of trust)
        self.devkey = certs.K1Key(rng)
        self.attkey = None
        self.wallet = {p: certs.K1Key(rng) for p in gen.PATHS}
        for p, k in self.wallet.items():
            self.pubkeys[gen.path_binary(p)] = k.pub()
        self.ui_hash = gen.rbytes(rng, 32)
        self.signer_hash = gen.rbytes(rng, 32)
        self.signer_iteration = rng.randrange(65536)
        self.best_block = gen.rbytes(rng, 32)
        self.last_tx = gen.rbytes(rng, 8)
        self.timestamp = rng.getrandbits(40)
        self.legacy_signer = legacy_signer
        self.page_size = pages or rng.choice([40, 80, 255])
        self.ui_page_size = ui_pages or self.page_size
        self.ud = None
        self.alter = alter or {}
        self.after_exit = None
        self.admin_log = []

    # ---- helpers
    def keys_hash(self):
        h = hashlib.sha256()
        for p in sorted(self.wallet):
            h.update(self.wallet[p].pub())
        return h.digest()

    def alt(self, what, b):
        """single-point alteration of an answer, if requested"""
        if what in self.alter:
            i, bit = self.alter[what]
            bb = bytearray(b)
            if bb:
                bb[i % len(bb)] ^= 1 << bit
            return bytes(bb)
        return b

    def __call__(self, apdu):
        if apdu[0] == ADMIN_CLA:
            return self.admin(apdu)
        return super().__call__(apdu)

    # ---- exit: bootloader -> (signer | stays UI with no_exec)
    def cmd_ff(self, data):
        if self.mode == 2 and self.unlocked:
            self.mode = 3
        return ("W",)

    def cmd_fa(self, data):           # exit without executing the signer: stay in the UI
        return ("W",)

    def cmd_07(self, data):
        r = super().cmd_07(data)
        self.unlocked = False
        return r

    # ---- admin (dashboard) commands used by the attestation setup
    def admin(self, apdu):
        cmd = apdu[1]
        self.admin_log.append(bytes(apdu))
        if cmd == 0x04:                       # IDENTIFY
            return ("D", b"")
        if cmd == 0x50:                       # NONCE: batch(4) + device nonce(8)
            return ("D", b"\x00\x00\x00\x01" + gen.rbytes(self.rng, 8))
        if cmd == 0x51:                       # SEND_KEY
            return ("D", b"")
        if cmd == 0x52:                       # GET_KEY
            if apdu[2] == 0x00:
                header = b"\x01\x02\x03"
                pub = self.devkey.pub()
                signed = bytes([0x02]) + header + pub
                sig = self.alt("device_sig", self.root.sign(signed))
                pub = self.alt("device_pub", pub)
                return ("D", bytes([len(header)]) + header + bytes([len(pub)]) + pub + bytes([len(sig)]) + sig)
            return ("D", b"\x00")
        if cmd == 0xC0:                       # SETUP_ENDO: new attestation key certified by the device key
            self.attkey = certs.K1Key(self.rng)
            pub = self.attkey.pub()
            sig = self.alt("att_sig", self.devkey.sign(bytes([0xFF]) + pub))
            return ("D", self.alt("att_pub", pub) + sig)
        if cmd == 0xC2:
            return ("D", b"")
        return ("S", 0x6D00)

    # ---- UI attestation (bootloader/UI, unlocked)
    def ui_message(self):
        btc = self.wallet[gen.PATHS[0]].vk.to_string("compressed")
        return b"HSM:UI:5.4" + self.ud + btc + self.signer_hash + struct.pack(">H", self.signer_iteration)

    def cmd_50(self, data):
        if self.mode == 2:
            op = data[0]
            if op == 4:
                return devices.D(CLA, 0x50, 4, self.alt("ui_hash", self.ui_hash))
            if op == 1:
                self.ud = bytes(data[1:])
                return devices.D(CLA, 0x50, 1)
            if op == 2:
                msg = self.alt("ui_msg", self.ui_message())
                page = data[1]
                chunk = msg[page * self.ui_page_size:(page + 1) * self.ui_page_size]
                more = 1 if (page + 1) * self.ui_page_size < len(msg) else 0
                return devices.D(CLA, 0x50, 2, more, chunk)
            if op == 3:
                sig = self.attkey.sign(self.ui_message(), self.ui_hash)
                return devices.D(CLA, 0x50, 3, self.alt("ui_sig", sig))
            return self.err(0x6A01)
        # signer: powHSM attestation
        op = data[0]
        if op == 1:
            self.ud = bytes(data[1:])
            sig = self.attkey.sign(self.signer_message(), self.signer_hash)
            return devices.D(CLA, 0x50, 1, self.alt("signer_sig", sig))
        if op in (2, 4):
            msg = self.alt("signer_msg", self.signer_message())
            if self.legacy_signer:
                return devices.D(CLA, 0x50, op, msg)
            page = data[1]
            chunk = msg[page * self.page_size:(page + 1) * self.page_size]
            more = 1 if (page + 1) * self.page_size < len(msg) else 0
            return devices.D(CLA, 0x50, op, more, chunk)
        if op == 3:
            return devices.D(CLA, 0x50, 3, self.alt("signer_hash", self.signer_hash))
        return self.err(0x6A01)

    def signer_message(self):
        if self.legacy_signer:
            return b"HSM:SIGNER:5.4" + self.keys_hash()
        return b"POWHSM:5.4::" + b"led" + self.ud + self.keys_hash() + self.best_block + self.last_tx + \
            struct.pack(">Q", self.timestamp)


class GenuineSgx(devices.Device):
    """SGX powHSM: attestation = quote envelope as OpenEnclave lays it out"""

    def __init__(self, rng, auth_len=None, ncerts=2, pages=None, alter=None):
        super().__init__(mode=2, onboarded=True, sgx=True)
        self.rng = rng
        self.wallet = {p: certs.K1Key(rng) for p in gen.PATHS}
        for p, k in self.wallet.items():
            self.pubkeys[gen.path_binary(p)] = k.pub()
        self.root_k, self.plat_k, self.qe_k, self.att_k = (v2.new_key(rng) for _ in range(4))
        self.root_c = v2.make_cert(rng, "SGX Root CA", "SGX Root CA", self.root_k, self.root_k)
        self.plat_c = v2.make_cert(rng, "Platform CA", "SGX Root CA", self.plat_k, self.root_k)
        self.qe_c = v2.make_cert(rng, "QE", "Platform CA", self.qe_k, self.plat_k)
        self.auth = gen.rbytes(rng, rng.choice([1, 32, 100, 1000]) if auth_len is None else auth_len)
        self.ncerts = ncerts
        self.page_size = pages or rng.choice([100, 200, 250])
        self.best_block = gen.rbytes(rng, 32)
        self.last_tx = gen.rbytes(rng, 8)
        self.timestamp = rng.getrandbits(40)
        self.mrenclave = gen.rbytes(rng, 32)
        self.mrsigner = gen.rbytes(rng, 32)
        self.alter = alter or {}
        self.ud = None
        self.pin = b"abcd1234"

    def keys_hash(self):
        h = hashlib.sha256()
        for p in sorted(self.wallet):
            h.update(self.wallet[p].pub())
        return h.digest()

    def message(self):
        return b"POWHSM:5.4::" + b"sgx" + self.ud + self.keys_hash() + self.best_block + self.last_tx + \
            struct.pack(">Q", self.timestamp)

    def alt(self, what, b):
        if what in self.alter:
            i, bit = self.alter[what]
            bb = bytearray(b)
            bb[i % len(bb)] ^= 1 << bit
            return bytes(bb)
        return b

    @staticmethod
    def raw_sig(key, digest):
        from cryptography.hazmat.primitives.asymmetric.utils import decode_dss_signature
        r, s = decode_dss_signature(v2.sign_digest(key, digest))
        return r.to_bytes(32, "big") + s.to_bytes(32, "big")

    def envelope(self):
        from cryptography.hazmat.primitives import serialization
        msg = self.message()
        body = bytearray(gen.rbytes(self.rng, 384))
        body[64:96] = self.mrenclave
        body[128:160] = self.mrsigner
        body[320:352] = hashlib.sha256(msg).digest()
        quote = gen.rbytes(self.rng, 48) + bytes(body)
        att_xy = v2.raw_xy(self.att_k.public_key())
        qe_body = bytearray(gen.rbytes(self.rng, 384))
        qe_body[320:352] = hashlib.sha256(att_xy + self.auth).digest()
        qe_body = bytes(qe_body)
        quote_sig = self.raw_sig(self.att_k, hashlib.sha256(quote).digest())
        qe_sig = self.raw_sig(self.qe_k, hashlib.sha256(qe_body).digest())
        pems = [c.public_bytes(serialization.Encoding.PEM) for c in (self.qe_c, self.plat_c, self.root_c)]
        certdata = b"".join(pems[:self.ncerts])
        auth_data = self.alt("sig", quote_sig) + self.alt("attkey", att_xy) + self.alt("qe_body", qe_body) + \
            self.alt("qe_sig", qe_sig)
        sig_len = len(auth_data) + 2 + len(self.auth) + 6 + len(certdata)
        env = self.alt("quote", quote) + struct.pack("<I", sig_len) + auth_data + \
            struct.pack("<H", len(self.auth)) + self.alt("auth", self.auth) + \
            struct.pack("<HI", 5, len(certdata)) + self.alt("certs", certdata) + self.alt("tail", msg)
        return env

    def cmd_ff(self, data):
        self.mode = 3
        return ("W",)

    def cmd_a3(self, data):
        r = super().cmd_a3(data)
        return r

    def cmd_50(self, data):
        op = data[0]
        if op == 1:
            self.ud = bytes(data[1:])
            self._env = self.envelope()
            return devices.D(CLA, 0x50, 1, b"")
        if op in (2, 4):
            buf = self.alt("msg", self.message()) if op == 2 else self._env
            page = data[1]
            chunk = buf[page * self.page_size:(page + 1) * self.page_size]
            more = 1 if (page + 1) * self.page_size < len(buf) else 0
            return devices.D(CLA, 0x50, op, more, chunk)
        if op == 3:
            return devices.D(CLA, 0x50, 3, self.mrenclave)
        return self.err(0x6A01)
