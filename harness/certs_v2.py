"""Version-2 (SGX) attestation certificates: generation of genuine chains with `cryptography`,
independent link verdicts (cryptography for the ECDSA links the code checks with `ecdsa`, and
`ecdsa` for the X.509 signatures the code checks with `cryptography`), corruption operators and
rendering for the Coq checker."""
import base64
import copy
import datetime
import hashlib

import ecdsa
from ecdsa.util import sigdecode_der
from cryptography import x509
from cryptography.x509.oid import NameOID
from cryptography.hazmat.primitives import hashes, serialization
from cryptography.hazmat.primitives.asymmetric import ec, utils as asym_utils
from cryptography.exceptions import InvalidSignature

import env  # noqa: F401
import certs
from coqgen import c_bool, c_json, c_list, c_opt, c_str, c_Z

HEADER = ("From PowHsm Require Import Model.Cert Model.CertV2 Model.CaseCheckCert Model.CaseCheckCertV2.\n"
          "Open Scope N_scope.\n")
NOW = datetime.datetime(2026, 6, 1, 12, 0, 0, tzinfo=datetime.timezone.utc)
ROOT = certs.ROOT


def rb(rng, n):
    return bytes(rng.getrandbits(8) for _ in range(n))


def new_key(rng, curve=None):
    return ec.derive_private_key(rng.randrange(1, 2 ** 200), curve or ec.SECP256R1())


def make_cert(rng, subject_cn, issuer_cn, subject_key, issuer_key, nvb=None, nva=None):
    b = x509.CertificateBuilder()
    b = b.subject_name(x509.Name([x509.NameAttribute(NameOID.COMMON_NAME, subject_cn)]))
    b = b.issuer_name(x509.Name([x509.NameAttribute(NameOID.COMMON_NAME, issuer_cn)]))
    b = b.public_key(subject_key.public_key())
    b = b.serial_number(rng.randrange(1, 2 ** 60))
    b = b.not_valid_before(nvb or (NOW - datetime.timedelta(days=30)))
    b = b.not_valid_after(nva or (NOW + datetime.timedelta(days=365)))
    alg = hashes.SHA384() if isinstance(issuer_key.curve, ec.SECP384R1) else hashes.SHA256()
    return b.sign(issuer_key, alg)


def b64der(cert):
    return base64.b64encode(cert.public_bytes(serialization.Encoding.DER)).decode("ascii")


def raw_xy(pub):
    n = pub.public_numbers()
    return n.x.to_bytes(32, "big") + n.y.to_bytes(32, "big")


def sign_digest(key, digest):
    return key.sign(digest, ec.ECDSA(asym_utils.Prehashed(hashes.SHA256())))


def report_body(rng, report_data32):
    body = bytearray(rb(rng, 384))
    body[320:352] = report_data32
    return bytes(body)


def genuine(rng, depth=3, qe_curve=None, validity=None, auth_len=None):
    """returns (document, root b64, secrets)"""
    root_k, plat_k = new_key(rng), new_key(rng)
    qe_k = new_key(rng, qe_curve)
    att_k = new_key(rng)
    validity = validity or {}
    root_c = make_cert(rng, "SGX Root CA", "SGX Root CA", root_k, root_k, *validity.get("root", (None, None)))
    plat_c = make_cert(rng, "Platform CA", "SGX Root CA", plat_k, root_k, *validity.get("platform", (None, None)))
    qe_issuer = ("Platform CA", plat_k) if depth >= 3 else ("SGX Root CA", root_k)
    qe_c = make_cert(rng, "QE", qe_issuer[0], qe_k, qe_issuer[1], *validity.get("qe", (None, None)))
    auth = rb(rng, rng.choice([0, 1, 32, 100, 1000]) if auth_len is None else auth_len)
    att_xy = raw_xy(att_k.public_key())
    qe_body = report_body(rng, hashlib.sha256(att_xy + auth).digest())
    qe_sig = sign_digest(qe_k, hashlib.sha256(qe_body).digest()) \
        if isinstance(qe_k.curve, ec.SECP256R1) else rb(rng, 70)
    custom = b"POWHSM:5.4::" + b"sgx" + rb(rng, 112)
    quote = rb(rng, 48) + report_body(rng, hashlib.sha256(custom).digest())
    quote_sig = sign_digest(att_k, hashlib.sha256(quote).digest())
    els = [
        {"name": "quote", "type": "sgx_quote", "message": quote.hex(), "custom_data": custom.hex(),
         "signature": quote_sig.hex(), "signed_by": "attestation"},
        {"name": "attestation", "type": "sgx_attestation_key", "message": qe_body.hex(),
         "key": (b"\x04" + att_xy).hex(), "auth_data": auth.hex(), "signature": qe_sig.hex(),
         "signed_by": "quoting_enclave"},
        {"name": "quoting_enclave", "type": "x509_pem", "message": b64der(qe_c),
         "signed_by": "platform_ca" if depth >= 3 else "sgx_root"},
    ]
    if depth >= 3:
        els.append({"name": "platform_ca", "type": "x509_pem", "message": b64der(plat_c),
                    "signed_by": "sgx_root"})
    doc = {"version": 2, "targets": ["quote"], "elements": els}
    return doc, b64der(root_c), {"root": root_k, "platform": plat_k, "qe": qe_k, "att": att_k,
                                 "custom": custom, "quote": quote}


# ------------------------------------------------------------------ independent oracles
def parse_x509(b64):
    try:
        c = x509.load_der_x509_certificate(base64.b64decode(b64))
        pk = c.public_key()
        key = None
        if isinstance(pk, ec.EllipticCurvePublicKey) and isinstance(pk.curve, ec.SECP256R1):
            key = raw_xy(pk)
        return {"nvb": int(c.not_valid_before_utc.timestamp()), "nva": int(c.not_valid_after_utc.timestamp()),
                "key": key, "cert": c}
    except Exception:
        return None


def x509_sig_ok(subject_b64, issuer_b64):
    """issuer's key signs subject's TBS — verified with the `ecdsa` package"""
    s, i = parse_x509(subject_b64), parse_x509(issuer_b64)
    if s is None or i is None:
        return False
    try:
        ipk = i["cert"].public_key()
        if not isinstance(ipk, ec.EllipticCurvePublicKey):
            return False
        curve = {"secp256r1": ecdsa.NIST256p, "secp384r1": ecdsa.NIST384p}[ipk.curve.name]
        n = ipk.public_numbers()
        vk = ecdsa.VerifyingKey.from_public_point(ecdsa.ellipticcurve.Point(curve.curve, n.x, n.y), curve=curve)
        alg = s["cert"].signature_hash_algorithm
        h = {"sha256": hashlib.sha256, "sha384": hashlib.sha384}[alg.name]
        return vk.verify(s["cert"].signature, s["cert"].tbs_certificate_bytes, hashfunc=h,
                         sigdecode=sigdecode_der)
    except Exception:
        return False


def key_raw(hexkey):
    """hex key -> raw x||y, decoded with `cryptography` (the code uses `ecdsa`)"""
    try:
        kb = bytes.fromhex(hexkey)
        if len(kb) == 64:
            kb = b"\x04" + kb
        pk = ec.EllipticCurvePublicKey.from_encoded_point(ec.SECP256R1(), kb)
        return raw_xy(pk)
    except Exception:
        return None


def verify_digest(key_xy, digest, sig):
    try:
        pk = ec.EllipticCurvePublicNumbers(int.from_bytes(key_xy[:32], "big"), int.from_bytes(key_xy[32:], "big"),
                                           ec.SECP256R1()).public_key()
        pk.verify(sig, digest, ec.ECDSA(asym_utils.Prehashed(hashes.SHA256())))
        return True
    except (InvalidSignature, Exception):
        return False


def elem_pubkey(e, root_b64):
    """raw P-256 key an element offers as certifier (None = cannot)"""
    if e is ROOT:
        p = parse_x509(root_b64)
        return p["key"] if p else None
    if e.get("type") == "sgx_attestation_key":
        return key_raw(e.get("key", ""))
    if e.get("type") == "x509_pem":
        p = parse_x509(e.get("message", ""))
        return p["key"] if p else None
    return None


def link_truth(e, cf, root_b64, now_ts):
    """independent statement of certificate_v2's three is_valid methods"""
    try:
        ty = e.get("type")
        if ty == "sgx_quote":
            msg, custom, sig = bytes.fromhex(e["message"]), bytes.fromhex(e["custom_data"]), \
                bytes.fromhex(e["signature"])
            if len(msg) < 432:
                return False
            if hashlib.sha256(custom).digest() != msg[48:432][320:352]:
                return False
            k = elem_pubkey(cf, root_b64)
            return k is not None and verify_digest(k, hashlib.sha256(msg).digest(), sig)
        if ty == "sgx_attestation_key":
            msg, auth, sig = bytes.fromhex(e["message"]), bytes.fromhex(e["auth_data"]), \
                bytes.fromhex(e["signature"])
            kxy = key_raw(e["key"])
            if kxy is None or len(msg) < 384:
                return False
            if hashlib.sha256(kxy + auth).digest() != msg[320:352]:
                return False
            k = elem_pubkey(cf, root_b64)
            return k is not None and verify_digest(k, hashlib.sha256(msg).digest(), sig)
        if ty == "x509_pem":
            cb64 = root_b64 if cf is ROOT else (cf.get("message") if cf.get("type") == "x509_pem" else None)
            if cb64 is None:
                return False
            s = parse_x509(e["message"])
            if s is None or parse_x509(cb64) is None:
                return False
            if s["nvb"] > now_ts or s["nva"] < now_ts:
                return False
            return x509_sig_ok(e["message"], cb64)
    except Exception:
        return False
    return False


def canon_b64(m):
    try:
        return base64.b64encode(base64.b64decode(m)).decode("ascii")
    except Exception:
        return None


def flip_hex(rng, h, lo=None, hi=None):
    b = bytearray(bytes.fromhex(h))
    if not b:
        return "%02x" % rng.randrange(256)        # nothing to flip: the alteration is an added byte
    i = rng.randrange(lo or 0, hi or len(b))
    b[i] ^= 1 << rng.randrange(8)
    return bytes(b).hex()


def flip_b64(rng, m):
    b = bytearray(base64.b64decode(m))
    i = rng.randrange(len(b))
    b[i] ^= 1 << rng.randrange(8)
    return base64.b64encode(bytes(b)).decode("ascii")


def corruptions(rng, doc, root_b64, sec):
    out = []

    def el(d, name):
        return next(e for e in d["elements"] if e["name"] == name)
    for name, field, rngs in (("quote", "message", [(0, 48), (48, 368), (368, 400), (400, 432)]),
                              ("quote", "custom_data", [None]), ("quote", "signature", [None]),
                              ("attestation", "message", [(0, 320), (320, 352), (352, 384)]),
                              ("attestation", "key", [(1, 65)]), ("attestation", "auth_data", [None]),
                              ("attestation", "signature", [None])):
        for r in rngs:
            d = copy.deepcopy(doc)
            e = el(d, name)
            e[field] = flip_hex(rng, e[field], *(r or (None, None)))
            out.append(("flip-%s-%s-%s" % (name, field, r), d, root_b64, NOW))
    for name in [e["name"] for e in doc["elements"] if e["type"] == "x509_pem"]:
        d = copy.deepcopy(doc)
        el(d, name)["message"] = flip_b64(rng, el(d, name)["message"])
        out.append(("flip-%s-der" % name, d, root_b64, NOW))
    # signatures by another key
    other = new_key(rng)
    d = copy.deepcopy(doc)
    el(d, "quote")["signature"] = sign_digest(other, hashlib.sha256(sec["quote"]).digest()).hex()
    out.append(("foreign-key-quote", d, root_b64, NOW))
    d = copy.deepcopy(doc)
    el(d, "attestation")["signature"] = sign_digest(
        other, hashlib.sha256(bytes.fromhex(el(d, "attestation")["message"])).digest()).hex()
    out.append(("foreign-key-attestation", d, root_b64, NOW))
    # custom data replaced (binding broken although the signature still verifies)
    d = copy.deepcopy(doc)
    el(d, "quote")["custom_data"] = (b"POWHSM:5.4::" + rb(rng, 115)).hex()
    out.append(("replace-custom-data", d, root_b64, NOW))
    # key/auth binding broken
    d = copy.deepcopy(doc)
    el(d, "attestation")["auth_data"] = rb(rng, 16).hex()
    out.append(("replace-auth-data", d, root_b64, NOW))
    # an attacker's attestation key declaring no auth data, and a quote signed with it: only the
    # binding of (key || auth data) to the quoting enclave's report stands in the way
    atk = new_key(rng)
    d = copy.deepcopy(doc)
    el(d, "attestation")["key"] = (b"\x04" + raw_xy(atk.public_key())).hex()
    el(d, "attestation")["auth_data"] = ""
    el(d, "quote")["signature"] = sign_digest(atk, hashlib.sha256(sec["quote"]).digest()).hex()
    out.append(("attacker-key-empty-auth", d, root_b64, NOW))
    # quotes longer than the 432-byte structure: the signature covers every byte of the message
    if "att" in sec:
        tail = rb(rng, 16)
        d = copy.deepcopy(doc)
        el(d, "quote")["message"] = (sec["quote"] + tail).hex()
        el(d, "quote")["signature"] = sign_digest(sec["att"], hashlib.sha256(sec["quote"] + tail).digest()).hex()
        out.append(("longquote-signed-in-full", d, root_b64, NOW))
        d = copy.deepcopy(doc)
        el(d, "quote")["message"] = (sec["quote"] + tail).hex()          # bytes appended after signing
        out.append(("longquote-unsigned-tail", d, root_b64, NOW))
    # the bound hash present in the signed report data, but not where the structure puts it (offset 0 of the
    # 64-byte report data): messages genuinely signed by the right key whose report data carries the hash at
    # another offset
    if "att" in sec and isinstance(sec["qe"].curve, ec.SECP256R1):
        for off in (1, 16, 32):
            at = el(doc, "attestation")
            want = hashlib.sha256(bytes.fromhex(at["key"])[-64:] + bytes.fromhex(at["auth_data"])).digest()
            body = bytearray(bytes.fromhex(at["message"]))
            body[320:384] = rb(rng, 64)
            body[320 + off:320 + off + 32] = want
            d = copy.deepcopy(doc)
            el(d, "attestation")["message"] = bytes(body).hex()
            el(d, "attestation")["signature"] = sign_digest(sec["qe"], hashlib.sha256(bytes(body)).digest()).hex()
            out.append(("key-hash-at-offset-%d" % off, d, root_b64, NOW))
            q = bytearray(sec["quote"])
            q[48 + 320:48 + 384] = rb(rng, 64)
            q[48 + 320 + off:48 + 320 + off + 32] = hashlib.sha256(sec["custom"]).digest()
            d = copy.deepcopy(doc)
            el(d, "quote")["message"] = bytes(q).hex()
            el(d, "quote")["signature"] = sign_digest(sec["att"], hashlib.sha256(bytes(q)).digest()).hex()
            out.append(("custom-hash-at-offset-%d" % off, d, root_b64, NOW))
        # report data that commits to nothing, or to a mere prefix of the hash: all zeroes, and the first k bytes of
        # the hash followed by zeroes - genuinely signed by the right key ("begins with SHA-256(...)" means all 32)
        for k in (0, 1, 8, 31):
            at = el(doc, "attestation")
            want = hashlib.sha256(bytes.fromhex(at["key"])[-64:] + bytes.fromhex(at["auth_data"])).digest()
            body = bytearray(bytes.fromhex(at["message"]))
            body[320:384] = want[:k] + bytes(64 - k)
            d = copy.deepcopy(doc)
            el(d, "attestation")["message"] = bytes(body).hex()
            el(d, "attestation")["signature"] = sign_digest(sec["qe"], hashlib.sha256(bytes(body)).digest()).hex()
            out.append(("key-hash-prefix-%d-then-zeroes" % k, d, root_b64, NOW))
            q = bytearray(sec["quote"])
            q[48 + 320:48 + 384] = hashlib.sha256(sec["custom"]).digest()[:k] + bytes(64 - k)
            d = copy.deepcopy(doc)
            el(d, "quote")["message"] = bytes(q).hex()
            el(d, "quote")["signature"] = sign_digest(sec["att"], hashlib.sha256(bytes(q)).digest()).hex()
            out.append(("custom-hash-prefix-%d-then-zeroes" % k, d, root_b64, NOW))
    # re-parenting
    d = copy.deepcopy(doc)
    el(d, "quote")["signed_by"] = "quoting_enclave"
    out.append(("reparent-quote", d, root_b64, NOW))
    d = copy.deepcopy(doc)
    el(d, "attestation")["signed_by"] = "sgx_root"
    out.append(("reparent-attestation", d, root_b64, NOW))
    if el(doc, "quoting_enclave")["signed_by"] != "sgx_root":
        d = copy.deepcopy(doc)
        el(d, "quoting_enclave")["signed_by"] = "sgx_root"
        out.append(("reparent-qe", d, root_b64, NOW))
    # wrong root
    rk = new_key(rng)
    out.append(("wrong-root", copy.deepcopy(doc), b64der(make_cert(rng, "SGX Root CA", "SGX Root CA", rk, rk)),
                NOW))
    # a complete chain under a foreign root which ships that root as an element named like the
    # root of trust: the trust anchor is what the caller supplies, never what the file contains
    fdoc, froot_b64, _ = genuine(rng, depth=3 if any(e["name"] == "platform_ca" for e in doc["elements"]) else 2)
    fdoc["elements"].append({"name": "sgx_root", "type": "x509_pem", "message": froot_b64,
                             "signed_by": "sgx_root"})
    out.append(("foreign-chain-ships-root", fdoc, root_b64, NOW))
    # time: before / after validity
    out.append(("clock-too-early", copy.deepcopy(doc), root_b64, NOW - datetime.timedelta(days=400)))
    out.append(("clock-too-late", copy.deepcopy(doc), root_b64, NOW + datetime.timedelta(days=4000)))
    # ... by less than any time-zone offset (the check must be made in UTC whatever the host's zone)
    out.append(("clock-just-early", copy.deepcopy(doc), root_b64,
                NOW - datetime.timedelta(days=30, hours=2)))
    out.append(("clock-just-late", copy.deepcopy(doc), root_b64,
                NOW + datetime.timedelta(days=365, hours=2)))
    out.append(("clock-just-inside", copy.deepcopy(doc), root_b64,
                NOW + datetime.timedelta(days=364, hours=22)))
    # key given in other encodings (still the same point)
    d = copy.deepcopy(doc)
    el(d, "attestation")["key"] = el(d, "attestation")["key"][2:]          # raw x||y
    out.append(("key-raw-encoding", d, root_b64, NOW))
    # other targets
    for tg in (["quote", "quote"], [], ["quote", "attestation"], ["quoting_enclave"]):
        d = copy.deepcopy(doc)
        d["targets"] = tg
        out.append(("targets-%s" % "+".join(tg), d, root_b64, NOW))
    return out


def all_pairs(doc):
    els = {}
    for e in doc["elements"]:
        els[e["name"]] = e
    pairs = []
    for nm, e in els.items():
        pairs.append((e, ROOT))
        c = els.get(e.get("signed_by"))
        if c is not None:
            pairs.append((e, c))
    return els, pairs


def to_v2case(doc, root_b64, now, obs, impl_links):
    now_ts = int(now.timestamp())
    els, pairs = all_pairs(doc)
    b64s = {e["message"] for e in doc["elements"] if e.get("type") == "x509_pem"} | {root_b64}
    x509_tbl = {}
    for m in b64s:
        cm = canon_b64(m)
        if cm is None:
            continue
        p = parse_x509(cm)
        x509_tbl[cm] = None if p is None else (p["nvb"], p["nva"], None if p["key"] is None else p["key"].hex())
    sig_tbl = []
    cbs = [c for c in x509_tbl]
    for a in cbs:
        for b in cbs:
            sig_tbl.append((a, b, x509_sig_ok(a, b)))
    keys = {}
    for e in doc["elements"]:
        if e.get("type") == "sgx_attestation_key":
            h = bytes.fromhex(e["key"]).hex()
            r = key_raw(h)
            keys[h] = None if r is None else r.hex()
    ver = []
    for e, cf in pairs:
        if e.get("type") in ("sgx_quote", "sgx_attestation_key"):
            k = elem_pubkey(cf, root_b64)
            if k is None:
                continue
            msg, sig = bytes.fromhex(e["message"]), bytes.fromhex(e["signature"])
            dg = hashlib.sha256(msg).digest()
            ver.append((k.hex(), dg.hex(), sig.hex(), verify_digest(k, dg, sig)))
    results = None
    if obs.get("results") is not None:
        results = "(Some %s)" % c_list(certs.c_vres(r) for r in obs["results"])
    return "(mkV2case %s %s %s %s %s %s %s %s %s %s %s)" % (
        c_json(doc), c_str(root_b64),
        c_list("(%s, %s)" % (c_str(k), c_opt(v, c_str)) for k, v in certs.b64_table(doc).items()),
        c_list("(%s, %s)" % (c_str(k), c_opt(v, c_str)) for k, v in keys.items()),
        c_list("(%s, %s)" % (c_str(k), "None" if v is None else "(Some (%s, %s, %s))"
                            % (c_Z(v[0]), c_Z(v[1]), c_opt(v[2], c_str))) for k, v in x509_tbl.items()),
        c_list("(%s, %s, %s)" % (c_str(a), c_str(b), c_bool(v)) for a, b, v in sig_tbl),
        c_list("(%s, %s, %s, %s)" % (c_str(a), c_str(b), c_str(s_), c_bool(v)) for a, b, s_, v in ver),
        c_Z(now_ts), c_bool(obs["loaded"]), results or "None",
        c_list("(%s, %s, %s)" % (c_json(n), "None" if cf is ROOT else "(Some %s)" % c_json(cf), c_bool(v))
               for (n, cf), v in impl_links.items()))
