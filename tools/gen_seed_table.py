#!/usr/bin/env python3
"""Regenerate the seeded-changes table of DESIGN.md (between the SEEDED markers) from seeded/*/meta.json."""
import json
import os
import re

HERE = os.path.dirname(os.path.dirname(os.path.abspath(__file__)))
rows = []
for i in sorted(os.listdir(os.path.join(HERE, "seeded"))):
    m = json.load(open(os.path.join(HERE, "seeded", i, "meta.json")))
    rows.append("| `%s` | %s | %s | %s |" % (i, m["needs_to_manifest"], m["caught_by"], m["history"]))
table = ("| seeded change | needs, to manifest | reported by | history |\n|---|---|---|---|\n" + "\n".join(rows) + "\n")
p = os.path.join(HERE, "DESIGN.md")
t = open(p).read()
t2 = re.sub(r"(<!-- SEEDED-BEGIN -->\n).*?(<!-- SEEDED-END -->)", lambda m: m.group(1) + table + m.group(2), t, flags=re.S)
assert t2 != t or table in t, "markers not found"
open(p, "w").write(t2)
print("rows", len(rows))
