#!/bin/sh
# verify_seed.sh <Cxx> <k>: confirm a candidate seeded change in its scratch worktree /tmp/mut_<Cxx>
# (applies cleanly, pinned suite unchanged, demo FAIL with / PASS without); prints one summary line.
P=$1; K=$2; W=${MUT_PREFIX:-/tmp/mut_}$P; C=$W/out/change$K
cd $W || exit 2
git checkout -q -- . ; git status --porcelain | grep -v '^?? out/' | head -3
git apply --check $C/patch.diff || { echo "$P/$K APPLY-CHECK-FAILED"; exit 2; }
PYTHONPATH=$W/middleware /venv/bin/python $C/demo.py > $C/demo_without.txt 2>&1; d0=$?
git apply $C/patch.diff
PYTHONPATH=$W/middleware /venv/bin/python $C/demo.py > $C/demo_with.txt 2>&1; d1=$?
t=$(/venv/bin/python -m pytest -q -p no:cacheprovider --timeout=900 --continue-on-collection-errors 2>&1 | tail -1)
git checkout -q -- .
echo "$P/$K demo_without=$d0 demo_with=$d1 suite: $t"
