#!/venv/bin/python
"""T1 translator: regenerates coq/Gen/Tables.v and coq/Gen/DocCodes.v from /repo on every run.

Two readers, both fail-closed (any unrecognised shape aborts with a non-zero exit, which the
check reports as a broken tie):
  * import + introspection: enums, class constants, small functions tabulated completely;
  * ast: literals inside function bodies (per-step error lists, chunk error maps, next
    operations, the except-ladders of every command handler).
Output files are rewritten only when their content changes (keeps `make` incremental)."""
import ast
import inspect
import os
import re
import sys
import textwrap

sys.path.insert(0, os.path.join(os.path.dirname(os.path.abspath(__file__)), "..", "harness"))
import env  # noqa: E402  (sets sys.path to /repo/middleware and installs the shim)

OUT = os.path.join(env.VERIF, "coq", "Gen")


class GenError(Exception):
    pass


def need(cond, msg):
    if not cond:
        raise GenError(msg)


def coq_N(n):
    need(isinstance(n, int) and n >= 0, "not a natural: %r" % (n,))
    return "%d" % n


def coq_Z(n):
    need(isinstance(n, int), "not an int: %r" % (n,))
    return "(%d)%%Z" % n


def coq_str(x):
    need(isinstance(x, str), "not a str: %r" % (x,))
    if all(32 <= ord(c) < 127 and c != '"' for c in x):
        return '(s "%s")' % x
    return "[" + "; ".join("%d" % ord(c) for c in x) + "]%N"


def coq_list(items):
    return "[" + "; ".join(items) + "]"


def ident(x):
    return re.sub(r"[^A-Za-z0-9_]", "_", x)


class Emitter:
    def __init__(self):
        self.lines = []

    def comment(self, c):
        self.lines.append("(* %s *)" % c)

    def defn(self, name, typ, body):
        self.lines.append("Definition %s : %s := %s." % (name, typ, body))

    def text(self):
        return "\n".join(self.lines) + "\n"


def write_if_changed(path, content):
    os.makedirs(os.path.dirname(path), exist_ok=True)
    try:
        with open(path) as f:
            if f.read() == content:
                return False
    except FileNotFoundError:
        pass
    with open(path, "w") as f:
        f.write(content)
    return True


# ------------------------------------------------------------------ ast helpers

def func_ast(cls_or_mod, name):
    obj = getattr(cls_or_mod, name)
    src = textwrap.dedent(inspect.getsource(obj))
    tree = ast.parse(src)
    need(len(tree.body) == 1 and isinstance(tree.body[0], ast.FunctionDef),
         "cannot parse function %s" % name)
    return tree.body[0]


def ev(node, ns):
    return eval(compile(ast.Expression(node), "<gen>", "eval"), ns)


def handlers_in_order(fn):
    """All ExceptHandler nodes in source order."""
    hs = [n for n in ast.walk(fn) if isinstance(n, ast.ExceptHandler)]
    hs.sort(key=lambda n: (n.lineno, n.col_offset))
    return hs


def handler_class_names(h):
    if h.type is None:
        return ["BaseException"]
    if isinstance(h.type, ast.Tuple):
        elts = h.type.elts
    else:
        elts = [h.type]
    names = []
    for e in elts:
        if isinstance(e, ast.Name):
            names.append(e.id)
        elif isinstance(e, ast.Attribute):
            names.append(e.attr)
        else:
            raise GenError("unrecognised except class expression at line %d" % h.lineno)
    return names


def in_lists_of_handler(h, ns):
    """For an `except HSM2DongleErrorResult as e:` body made of
    if e.error_code in [..]: return (False, R) [elif ... in [..]: return (False, R2)] return (False, D)
    return ([(list, R), ...], D)."""
    pairs = []
    default = None
    body = [st for st in h.body if not _is_logging(st)]

    def ret_val(st):
        need(isinstance(st, ast.Return) and isinstance(st.value, ast.Tuple)
             and len(st.value.elts) == 2, "unexpected return shape at line %d" % st.lineno)
        need(ev(st.value.elts[0], ns) is False, "handler returns non-False at %d" % st.lineno)
        return int(ev(st.value.elts[1], ns))

    def walk_if(st):
        need(isinstance(st.test, ast.Compare) and len(st.test.ops) == 1
             and isinstance(st.test.ops[0], ast.In), "unexpected test at line %d" % st.lineno)
        left = st.test.left
        need(isinstance(left, ast.Attribute) and left.attr == "error_code",
             "test is not on e.error_code at line %d" % st.lineno)
        lst = ev(st.test.comparators[0], ns)
        need(isinstance(lst, list), "membership is not in a list at %d" % st.lineno)
        need(len(st.body) == 1, "unexpected if body at %d" % st.lineno)
        pairs.append(([int(x) for x in lst], ret_val(st.body[0])))
        if st.orelse:
            need(len(st.orelse) == 1, "unexpected else at %d" % st.lineno)
            if isinstance(st.orelse[0], ast.If):
                walk_if(st.orelse[0])
            else:
                nonlocal default
                default = ret_val(st.orelse[0])

    need(len(body) in (1, 2) and isinstance(body[0], ast.If) or
         (len(body) == 1 and isinstance(body[0], ast.Return)),
         "unexpected ErrorResult handler body at line %d" % h.lineno)
    if isinstance(body[0], ast.If):
        walk_if(body[0])
        if len(body) == 2:
            need(default is None, "two defaults at line %d" % h.lineno)
            default = ret_val(body[1])
    else:
        default = body[0]
    need(default is not None and isinstance(default, int), "no default at line %d" % h.lineno)
    return pairs, default


def _is_logging(st):
    return (isinstance(st, ast.Expr) and isinstance(st.value, ast.Call)
            and isinstance(st.value.func, ast.Attribute)
            and isinstance(st.value.func.value, ast.Attribute)
            and st.value.func.value.attr == "logger")


# ------------------------------------------------------------------ Tables.v

def gen_tables():
    import ledger.hsm2dongle as H
    import ledger.protocol as LP
    import ledger.protocol_v1 as LP1
    import comm.protocol as CP
    import comm.protocol_v1 as CP1
    from ledger.pin import BasePin
    from ledger.parameters import _Network
    import ledger.hsm2dongle_cmds.signer_heartbeat as SHB
    import ledger.hsm2dongle_cmds.ui_heartbeat as UHB
    import ledger.hsm2dongle_cmds.powhsm_attestation as PATT
    import sgx.hsm2dongle as SGX
    import admin.certificate as CERT
    import admin.certificate_v2 as CERT2
    import admin.pubkeys as PK
    import admin.dongle_admin as DA
    import comm.server as SRV
    import socketserver

    D = H.HSM2Dongle
    e = Emitter()
    e.lines.append("(* GENERATED by tools/gen_tables.py from /repo on every run. Do not edit. *)")
    e.lines.append("From PowHsm Require Import Py.Base.")
    e.lines.append("Open Scope N_scope.")

    def enum(prefix, en, z=False):
        seen = set()
        for name, member in en.__members__.items():   # includes aliases (ECHO/SIGN)
            nm = "%s_%s" % (prefix, ident(name))
            need(nm not in seen, "duplicate name " + nm)
            seen.add(nm)
            if z:
                e.defn(nm, "Z", coq_Z(int(member)))
            else:
                e.defn(nm, "N", coq_N(int(member)))
        vals = sorted(set(int(m) for m in en))
        e.defn(prefix + "_VALUES", "list Z" if z else "list N",
               coq_list((coq_Z if z else coq_N)(v) for v in vals))

    e.comment("ledger/hsm2dongle.py enums")
    enum("CMD", H._Command)
    enum("SIGN_OP", H._SignOps)
    enum("GST_OP", H._GetStateOps)
    enum("RAV_OP", H._ResetAdvanceOps)
    enum("ADV_OP", H._AdvanceOps)
    enum("UPD_OP", H._UpdateAncestorOps)
    enum("UIATT_OP", H._UIAttestationOps)
    enum("SAUTH_OP", H._SignerAuthorizationOps)
    enum("OFF", H._Offset)
    enum("MODE", H._Mode)
    enum("GST_FLAG", H._GetStateFlagOffset)
    enum("ERR_SIGN", H._SignError)
    enum("ERR_PUBKEY", H._GetPubKeyError)
    enum("ERR_ADV", H._AdvanceUpdateError)
    enum("ERR_UI", H._UIError)
    enum("ERR_UIATT", H._UIAttestationError)
    enum("ERR_SAUTH", H._SignerAuthorizationError)
    enum("RESP_SIGN", H._SignResponse, z=True)
    enum("RESP_ADV", H._AdvanceResponse, z=True)
    enum("RESP_UPD", H._UpdateAncestorResponse, z=True)
    enum("ONB", H._Onboarding)
    e.defn("CLA", "N", coq_N(D.CLA))
    e.defn("HASH_SIZE", "N", coq_N(D.HASH_SIZE))
    e.defn("MAX_PAGES_UI_ATT_MESSAGE", "N", coq_N(D.MAX_PAGES_UI_ATT_MESSAGE))
    e.defn("SIGNER_AUTH_ITERATION_SIZE", "N", coq_N(D.SIGNER_AUTH_ITERATION_SIZE))
    e.defn("GST_HASH_VALUES", "list (str * N)", coq_list(
        "(%s, %s)" % (coq_str(k), coq_N(v)) for k, v in D.GST.HASH_VALUES.items()))
    e.defn("SIGHASH_MODES", "list (str * N)", coq_list(
        "(%s, %s)" % (coq_str(m.value), coq_N(m.netvalue)) for m in H.SighashComputationMode))

    # is_user_defined_error tabulated over every 16-bit word, emitted as ranges
    ranges = []
    start = None
    for sw in range(0x10000 + 1):
        v = sw < 0x10000 and bool(H._Error.is_user_defined_error(sw))
        if v and start is None:
            start = sw
        if not v and start is not None:
            ranges.append((start, sw - 1))
            start = None
    for probe in (-1, 0x10000, 0x16B87):
        need(not H._Error.is_user_defined_error(probe), "user-defined range leaks past 16 bits")
    e.defn("USER_DEFINED_RANGES", "list (N * N)",
           coq_list("(%d, %d)" % r for r in ranges))

    # exception class hierarchy among the dongle errors
    classes = ["HSM2DongleBaseError", "HSM2DongleError", "HSM2DongleTimeoutError",
               "HSM2DongleCommError", "HSM2DongleErrorResult"]
    e.comment("exception classes: index in " + ", ".join(classes))
    for i, c in enumerate(classes):
        e.defn("EXC_" + c, "N", coq_N(i))
    e.defn("EXC_Exception", "N", "100")
    e.defn("EXC_BaseException", "N", "101")
    e.defn("EXC_ISA", "list (N * list N)", coq_list(
        "(%d, %s)" % (i, coq_list(
            [coq_N(j) for j, d in enumerate(classes) if issubclass(getattr(H, c), getattr(H, d))]
            + ["100", "101"]))
        for i, c in enumerate(classes)))
    need(issubclass(H.HSM2DongleBaseError, Exception), "dongle errors no longer Exceptions")

    # ---- per-step error lists (ast)
    dongle = D(False)
    ns = dict(vars(H))
    ns["self"] = dongle

    fn = func_ast(D, "sign_authorized")
    hs = [h for h in handlers_in_order(fn) if handler_class_names(h) == ["HSM2DongleErrorResult"]]
    need(len(hs) == 4, "sign_authorized: expected 4 ErrorResult handlers, got %d" % len(hs))
    for i, h in enumerate(hs, 1):
        pairs, default = in_lists_of_handler(h, ns)
        e.defn("SIGN_AUTH_STEP%d_ERRS" % i, "list (list N * Z)", coq_list(
            "(%s, %s)" % (coq_list(map(coq_N, l)), coq_Z(r)) for l, r in pairs))
        e.defn("SIGN_AUTH_STEP%d_DEFAULT" % i, "Z", coq_Z(default))
    def simple_handler_result(fn_, clsname, ns_, what):
        """`except <clsname>: [log]; return (False, R)` handlers: list of R"""
        outl = []
        for h in handlers_in_order(fn_):
            if handler_class_names(h) == [clsname]:
                body = [st for st in h.body if not _is_logging(st)]
                need(len(body) == 1 and isinstance(body[0], ast.Return)
                     and isinstance(body[0].value, ast.Tuple) and len(body[0].value.elts) == 2
                     and ev(body[0].value.elts[0], ns_) is False, what + ": handler shape")
                outl.append(int(ev(body[0].value.elts[1], ns_)))
        return outl

    def opt_Z(l, what):
        need(len(l) <= 1, what + ": more than one handler")
        return "(Some %s)" % coq_Z(l[0]) if l else "None"

    e.defn("SIGN_AUTH_PAYLOAD_OVERFLOW_RESULT", "option Z",
           opt_Z(simple_handler_result(fn, "OverflowError", ns, "sign_authorized OverflowError"),
                 "sign_authorized OverflowError"))
    fn = func_ast(D, "sign_unauthorized")
    hs = [h for h in handlers_in_order(fn) if handler_class_names(h) == ["HSM2DongleErrorResult"]]
    need(len(hs) == 1, "sign_unauthorized: expected 1 ErrorResult handler")
    pairs, default = in_lists_of_handler(hs[0], ns)
    e.defn("SIGN_UNAUTH_ERRS", "list (list N * Z)", coq_list(
        "(%s, %s)" % (coq_list(map(coq_N, l)), coq_Z(r)) for l, r in pairs))
    e.defn("SIGN_UNAUTH_DEFAULT", "Z", coq_Z(default))

    # ---- chunk error mappings (ast: the dict literal passed to _do_block_operation)
    for meth, pref, errs, resp in (("advance_blockchain", "ADV", D.ERR.ADVANCE, D.RESPONSE.ADVANCE),
                                   ("update_ancestor", "UPD", D.ERR.UPD_ANCESTOR,
                                    D.RESPONSE.UPD_ANCESTOR)):
        fn = func_ast(D, meth)
        calls = [n for n in ast.walk(fn) if isinstance(n, ast.Call)
                 and isinstance(n.func, ast.Attribute) and n.func.attr == "_do_block_operation"]
        need(len(calls) == 1, meth + ": expected one _do_block_operation call")
        dicts = [a for a in calls[0].args if isinstance(a, ast.Dict)]
        need(len(dicts) == 1, meth + ": expected one dict literal argument")
        ns2 = dict(ns)
        ns2["err"] = errs
        ns2["response"] = resp
        d = ev(dicts[0], ns2)
        e.defn(pref + "_CHUNK_ERRORS", "list (N * Z)", coq_list(
            "(%s, %s)" % (coq_N(int(k)), coq_Z(int(v))) for k, v in d.items()))

    fn = func_ast(D, "advance_blockchain")
    ns_adv = dict(ns)
    ns_adv.update(err=D.ERR.ADVANCE, response=D.RESPONSE.ADVANCE)
    e.defn("ADV_SORT_VALUEERROR_RESULT", "option Z",
           opt_Z(simple_handler_result(fn, "ValueError", ns_adv, "advance_blockchain ValueError"),
                 "advance_blockchain ValueError"))
    fn = func_ast(D, "_do_block_operation")
    ns_bo = dict(ns)
    ns_bo.update(errors=D.ERR.ADVANCE, responses=D.RESPONSE.ADVANCE, ops=D.OP.ADVANCE,
                 command=D.CMD.ADVANCE)
    e.defn("ADV_BROCOUNT_OVERFLOW_RESULT", "option Z",
           opt_Z(simple_handler_result(fn, "OverflowError", ns_bo, "_do_block_operation OverflowError"),
                 "_do_block_operation OverflowError"))

    # ---- _do_block_operation / _send_block_header lists (ast), evaluated for both commands
    for pref, errs, resp, ops, cmd in (
            ("ADV", D.ERR.ADVANCE, D.RESPONSE.ADVANCE, D.OP.ADVANCE, D.CMD.ADVANCE),
            ("UPD", D.ERR.UPD_ANCESTOR, D.RESPONSE.UPD_ANCESTOR, D.OP.UPD_ANCESTOR,
             D.CMD.UPD_ANCESTOR)):
        ns2 = dict(ns)
        ns2.update(errors=errs, responses=resp, ops=ops, command=cmd)
        fn = func_ast(D, "_do_block_operation")
        hs = [h for h in handlers_in_order(fn)
              if handler_class_names(h) == ["HSM2DongleErrorResult"]]
        need(len(hs) == 2, "_do_block_operation: expected 2 ErrorResult handlers")
        for nm, h in zip(("INIT", "BROLIST"), hs):
            if nm == "BROLIST" and pref == "UPD":
                continue      # brothers exist for advanceBlockchain only
            pairs, default = in_lists_of_handler(h, ns2)
            e.defn("%s_%s_ERRS" % (pref, nm), "list (list N * Z)", coq_list(
                "(%s, %s)" % (coq_list(map(coq_N, l)), coq_Z(r)) for l, r in pairs))
            e.defn("%s_%s_DEFAULT" % (pref, nm), "Z", coq_Z(default))
        fn = func_ast(D, "_send_block_header")
        hs = [h for h in handlers_in_order(fn)
              if handler_class_names(h) == ["HSM2DongleErrorResult"]]
        need(len(hs) == 2, "_send_block_header: expected 2 ErrorResult handlers")
        pairs, default = in_lists_of_handler(hs[0], ns2)
        e.defn("%s_META_ERRS" % pref, "list (list N * Z)", coq_list(
            "(%s, %s)" % (coq_list(map(coq_N, l)), coq_Z(r)) for l, r in pairs))
        e.defn("%s_META_DEFAULT" % pref, "Z", coq_Z(default))
        # second handler: chunk_error_mapping.get(code, responses.ERROR_UNEXPECTED)
        rets = [n for n in ast.walk(hs[1]) if isinstance(n, ast.Return)]
        need(len(rets) == 1, "_send_block_header: chunk handler shape")
        call = rets[0].value.elts[1]
        need(isinstance(call, ast.Call) and call.func.attr == "get"
             and call.func.value.id == "chunk_error_mapping", "chunk handler not a .get")
        e.defn("%s_CHUNK_DEFAULT" % pref, "Z", coq_Z(int(ev(call.args[1], ns2))))
        hs_v = [h for h in handlers_in_order(fn) if "ValueError" in handler_class_names(h)]
        need(len(hs_v) == 1, "_send_block_header: expected one ValueError handler")
        for nm_ in handler_class_names(hs_v[0]):
            need(nm_ in ("ValueError", "OverflowError"), "_send_block_header: unexpected class " + nm_)
        e.defn("%s_COMPUTE_META_CATCHES_OVERFLOW" % pref, "bool",
               "true" if "OverflowError" in handler_class_names(hs_v[0]) else "false")
        rets = [n for n in ast.walk(hs_v[0]) if isinstance(n, ast.Return)]
        need(len(rets) == 1, "ValueError handler shape")
        e.defn("%s_COMPUTE_META_RESULT" % pref, "Z", coq_Z(int(ev(rets[0].value.elts[1], ns2))))
        # next_operations for (block, brother)
        for hname in ("block", "brother"):
            if hname == "brother" and pref == "UPD":
                continue
            ns3 = dict(ns2)
            ns3.update(header_name=hname,
                       op_meta=ops.HEADER_META if hname == "block" else ops.BROTHER_META,
                       op_chunk=ops.HEADER_CHUNK if hname == "block" else ops.BROTHER_CHUNK)
            # execute the statements that build next_operations
            stmts = []
            started = False
            for st in ast.walk(fn):
                pass
            body = None
            for tr in [n for n in ast.walk(fn) if isinstance(n, ast.Try)]:
                for i, st in enumerate(tr.body):
                    if isinstance(st, ast.Assign) and isinstance(st.targets[0], ast.Name) \
                            and st.targets[0].id == "next_operations":
                        body = tr.body[i:]
                        break
            need(body is not None, "_send_block_header: next_operations not found")
            for st in body:
                if isinstance(st, ast.Assign) and isinstance(st.targets[0], ast.Name) \
                        and st.targets[0].id == "response":
                    break
                stmts.append(st)
            need(1 <= len(stmts) <= 3, "_send_block_header: next_operations shape")
            exec(compile(ast.Module(stmts, []), "<gen>", "exec"), ns3)
            e.defn("%s_NEXT_OPS_%s" % (pref, hname.upper()), "list N",
                   coq_list(coq_N(int(x)) for x in ns3["next_operations"]))

    # ---- result-to-errorcode translations, tabulated behaviourally
    pv5 = LP.HSM2ProtocolLedger(None, None)
    pv1 = LP1.HSM1ProtocolLedger(None, None)
    FAR = 424242

    def tab(fn_, lo=-64, hi=64):
        default = fn_(FAR)
        need(fn_(-FAR) == default, "translation default not uniform")
        return [(k, fn_(k)) for k in range(lo, hi + 1) if fn_(k) != default], default

    for nm, f in (("TR_SIGN_V5", pv5._translate_sign_error), ("TR_SIGN_V1", pv1._translate_sign_error),
                  ("TR_ADV", pv5._translate_advance_result),
                  ("TR_UPD", pv5._translate_update_ancestor_result)):
        t, dflt = tab(f)
        e.defn(nm, "list (Z * Z)", coq_list("(%s, %s)" % (coq_Z(k), coq_Z(int(v))) for k, v in t))
        e.defn(nm + "_DEFAULT", "Z", coq_Z(int(dflt)))

    # ---- protocol constants
    for pref, P in (("V5", LP.HSM2ProtocolLedger), ("V1", LP1.HSM1ProtocolLedger)):
        for k in sorted(vars(CP.HSM2Protocol)):
            if k.startswith("ERROR_CODE_") and k != "ERROR_CODE_KEY":
                e.defn("%s_%s" % (pref, k), "Z", coq_Z(getattr(P, k)))
        e.defn(pref + "_VERSION", "Z", coq_Z(P.VERSION))
    P = LP.HSM2ProtocolLedger
    e.defn("MINIMUM_UPDATE_ANCESTOR_BLOCKS", "N", coq_N(P.MINIMUM_UPDATE_ANCESTOR_BLOCKS))
    e.defn("SIGNER_HBT_UD_VALUE_SIZE", "N", coq_N(P.SIGNER_HBT_UD_VALUE_SIZE))
    e.defn("UI_HBT_UD_VALUE_SIZE", "N", coq_N(P.UI_HBT_UD_VALUE_SIZE))
    e.defn("KEY_COMMAND", "str", coq_str(P.COMMAND_KEY))
    e.defn("KEY_ERRORCODE", "str", coq_str(P.ERROR_CODE_KEY))
    e.defn("KEY_VERSION", "str", coq_str(P.VERSION_KEY))
    cmdnames = ["VERSION_COMMAND", "SIGN_COMMAND", "GETPUBKEY_COMMAND",
                "ADVANCE_BLOCKCHAIN_COMMAND", "RESET_ADVANCE_BLOCKCHAIN_COMMAND",
                "BLOCKCHAIN_STATE_COMMAND", "UPDATE_ANCESTOR_BLOCK_COMMAND",
                "GET_BLOCKCHAIN_PARAMETERS", "SIGNER_HEARTBEAT", "UI_HEARTBEAT"]
    for c in cmdnames:
        e.defn("CMDNAME_" + c, "str", coq_str(getattr(P, c)))
    e.defn("KNOWN_COMMANDS_V5", "list str", coq_list(coq_str(k) for k in pv5._known_commands))
    e.defn("KNOWN_COMMANDS_V1", "list str", coq_list(coq_str(k) for k in pv1._known_commands))
    # which method serves which command (names only; the model dispatches on them)
    for pref, p in (("V5", pv5), ("V1", pv1)):
        e.defn("DISPATCH_" + pref, "list (str * str)", coq_list(
            "(%s, %s)" % (coq_str(k), coq_str(v.__name__)) for k, v in p._mappings.items()))
        e.defn("VALIDATE_" + pref, "list (str * str)", coq_list(
            "(%s, %s)" % (coq_str(k), coq_str(v.__name__)) for k, v in p._validation_mappings.items()))

    # ---- behavioural probes of small decision points (None / false = the exception escapes)
    def probe_gate(p_, cmdval):
        try:
            r = p_.handle_request({"command": cmdval, "version": p_.VERSION})
            return int(r["errorcode"])
        except TypeError:
            return None
    for pref, p_ in (("V5", pv5), ("V1", pv1)):
        a, b = probe_gate(p_, []), probe_gate(p_, {})
        need(a == b, "gate treats list and dict commands differently")
        e.defn("GATE_UNHASHABLE_COMMAND_" + pref, "option Z", "None" if a is None else "(Some %s)" % coq_Z(a))

    def probe_input(i):
        return pv5._validate_message({"message": {"tx": "aa", "input": i,
                                                   "sighashComputationMode": "legacy"}}, what="tx")
    lo_rej = probe_input(-1) < 0
    hi_rej = probe_input(2 ** 32) < 0
    need(probe_input(0) == 0 and probe_input(2 ** 32 - 1) == 0, "valid input index rejected")
    need(lo_rej == hi_rej, "input index range check is one-sided")
    need(lo_rej == (probe_input(-2 ** 70) < 0) and hi_rej == (probe_input(2 ** 70) < 0),
         "input index range check is not monotone")
    e.defn("SIGN_INPUT_RANGE_CHECKED", "bool", "true" if lo_rej else "false")

    import io as _io
    import logging as _logging

    class _P:
        def format_error(self):
            return {"errorcode": -901}

        def unknown_error(self):
            return {"errorcode": -906}

        def handle_request(self, r):
            return {"errorcode": 0}

    def probe_parser(line):
        w = _io.BytesIO()
        try:
            SRV._RequestHandler(_P(), _logging.getLogger("gen")).handle("x", _io.BytesIO(line + b"\n"), w)
            return w.getvalue() == b'{"errorcode": -901}\n'
        except SRV.RequestHandlerError:
            return False
    pa = probe_parser(b"1" * 5000)
    pb = probe_parser(b"[" * 100000 + b"]" * 100000)
    need(pa == pb, "server treats the two non-JSONDecodeError parser failures differently")
    e.defn("SERVER_PARSER_RAISED_IS_FORMAT_ERROR", "bool", "true" if pa else "false")

    import ledger.block_utils as BU

    def probe_coinbase():
        def s_(b):
            return (b if len(b) == 1 and b[0] < 0x80 else bytes([0x80 + len(b)]) + b)
        payload = b"".join(s_(b"a") for _ in range(18)) + b"\xc1\x01"
        blk = bytes([0xC0 + len(payload)]) + payload
        try:
            BU.get_coinbase_txn(blk.hex())
            return None
        except ValueError:
            return True
        except AttributeError:
            return False
    pc = probe_coinbase()
    need(pc is not None, "get_coinbase_txn accepts a list-valued coinbase field")
    e.defn("COINBASE_LIST_IS_VALUEERROR", "bool", "true" if pc else "false")

    for nm, v in (("UI_VERSION", P.UI_VERSION), ("APP_VERSION", P.APP_VERSION)):
        e.defn(nm, "N * N * N", "(%d, %d, %d)" % (v.major, v.minor, v.patch))
    e.defn("MIN_AVAILABLE_RETRIES", "N", coq_N(P.MIN_AVAILABLE_RETRIES))

    # ---- except ladders of the command handlers (ast)
    code_names = {k: getattr(P, k) for k in dir(P) if k.startswith("ERROR_CODE_")}

    def ladder(cls, meth):
        fn_ = func_ast(cls, meth)
        tries = [n for n in ast.walk(fn_) if isinstance(n, ast.Try)]
        out = []
        for tr in tries:
            lad = []
            for h in tr.handlers:
                names = handler_class_names(h)
                sets_flag = False
                action = None
                for st in h.body:
                    if _is_logging(st):
                        continue
                    if isinstance(st, ast.Assign) and isinstance(st.targets[0], ast.Attribute) \
                            and st.targets[0].attr == "_comm_issue":
                        need(ev(st.value, {}) is True, "flag assigned non-True")
                        sets_flag = True
                    elif isinstance(st, ast.Expr) and isinstance(st.value, ast.Call) \
                            and isinstance(st.value.func, ast.Attribute) \
                            and st.value.func.attr == "report_comm_issue":
                        sets_flag = True
                    elif isinstance(st, ast.Expr) and isinstance(st.value, ast.Call) \
                            and isinstance(st.value.func, ast.Attribute) \
                            and st.value.func.attr == "_error":
                        action = ("error", None)
                    elif isinstance(st, ast.Return) and isinstance(st.value, ast.Call) \
                            and isinstance(st.value.func, ast.Attribute) \
                            and st.value.func.attr == "_error":
                        action = ("error", None)
                    elif isinstance(st, ast.Return) and isinstance(st.value, ast.Tuple) \
                            and len(st.value.elts) == 1 \
                            and isinstance(st.value.elts[0], ast.Attribute) \
                            and st.value.elts[0].attr in code_names:
                        action = ("code", st.value.elts[0].attr)
                    elif isinstance(st, ast.Pass):
                        action = ("pass", None)
                    else:
                        raise GenError("%s.%s: unrecognised handler statement at line %d"
                                       % (cls.__name__, meth, st.lineno))
                need(action is not None, "%s.%s: handler without action" % (cls.__name__, meth))
                lad.append((names, sets_flag, action))
            out.append(lad)
        return out

    EXC_IDS = {c: i for i, c in enumerate(classes)}
    EXC_IDS["Exception"] = 100
    EXC_IDS["BaseException"] = 101

    def emit_ladder(name, lad, pref):
        items = []
        for names, flag, (kind, arg) in lad:
            for n in names:
                need(n in EXC_IDS, "unknown exception class %s in %s" % (n, name))
            act = {"error": "LadError", "pass": "LadPass"}.get(kind) or \
                "(LadCode %s_%s)" % (pref, arg)
            items.append("(%s, %s, %s)" % (coq_list(coq_N(EXC_IDS[n]) for n in names),
                                           "true" if flag else "false", act))
        e.defn(name, "list (list N * bool * ladder_action)", coq_list(items))

    e.lines.append("Inductive ladder_action := LadCode (c : Z) | LadError | LadPass.")
    spec = {
        "V5": (LP.HSM2ProtocolLedger, {
            "_get_pubkey": 1, "_sign": 2, "_blockchain_state": 1, "_reset_advance_blockchain": 1,
            "_advance_blockchain": 1, "_update_ancestor_block": 1, "_get_blockchain_parameters": 1,
            "_signer_heartbeat": 1}),
        "V1": (LP1.HSM1ProtocolLedger, {"_get_pubkey": 1, "_sign": 1}),
    }
    for pref, (cls, meths) in spec.items():
        for meth, ntries in meths.items():
            lads = ladder(cls, meth)
            if meth == "_sign" and pref == "V5":
                # try #1: unauthorized; try #2: get_unsigned_tx (except Exception); try #3: authorized
                need(len(lads) == 3, "V5._sign: expected 3 try blocks, got %d" % len(lads))
                emit_ladder("LADDER_V5_sign_unauth", lads[0], pref)
                need([x[0] for x in lads[1]] == [["Exception"]], "V5._sign: unsign try shape")
                emit_ladder("LADDER_V5_sign_auth", lads[2], pref)
            else:
                need(len(lads) == ntries, "%s.%s: expected %d try blocks, got %d"
                     % (pref, meth, ntries, len(lads)))
                emit_ladder("LADDER_%s%s" % (pref, meth), lads[0], pref)
    # _ui_heartbeat: outer ladder + two inner `except HSM2DongleCommError: pass`
    lads = ladder(LP.HSM2ProtocolLedger, "_ui_heartbeat")
    need(len(lads) == 3, "V5._ui_heartbeat: expected 3 try blocks")
    emit_ladder("LADDER_V5_ui_heartbeat", lads[0], "V5")
    emit_ladder("LADDER_V5_ui_heartbeat_exit1", lads[1], "V5")
    emit_ladder("LADDER_V5_ui_heartbeat_exit2", lads[2], "V5")
    # get_current_mode: except HSM2DongleError -> UNKNOWN
    fn_ = func_ast(D, "get_current_mode")
    hs = handlers_in_order(fn_)
    need(len(hs) == 1, "get_current_mode: one handler expected")
    e.defn("GET_MODE_CATCHES", "list N",
           coq_list(coq_N(EXC_IDS[n]) for n in handler_class_names(hs[0])))
    # new_pin: ErrorResult with INVALID_PIN -> False
    # initialize_device / _handle_bootloader / ensure_connection ladders
    for meth, n in (("initialize_device", 2), ("_handle_bootloader", 3), ("ensure_connection", 1)):
        fn_ = func_ast(LP.HSM2ProtocolLedger, meth)
        tries = [t for t in ast.walk(fn_) if isinstance(t, ast.Try)]
        tries.sort(key=lambda t: t.lineno)
        need(len(tries) == n, "%s: expected %d try blocks, got %d" % (meth, n, len(tries)))
        for i, tr in enumerate(tries):
            e.defn("CATCH_%s_%d" % (meth.strip("_"), i), "list (list N)", coq_list(
                coq_list(coq_N(EXC_IDS.get(nm, 100 if nm != "HSM2ProtocolError" else 200))
                         for nm in handler_class_names(h)) for h in tr.handlers))

    # ---- pin policy
    e.defn("PIN_LENGTH", "N", coq_N(BasePin.PIN_LENGTH))
    e.defn("PIN_POSSIBLE_CHARS", "list N", coq_list(coq_N(ord(c)) for c in BasePin.POSSIBLE_CHARS))
    e.defn("PIN_ALPHA_CHARS", "list N", coq_list(coq_N(ord(c)) for c in BasePin.ALPHA_CHARS))

    # ---- parameters / heartbeat / attestation / SGX enums
    enum("NETWORK", _Network)
    e.defn("NETWORK_NAMES", "list (N * str)", coq_list(
        "(%d, %s)" % (int(m), coq_str(m.name.lower())) for m in _Network))
    enum("SHB_OP", SHB.Op)
    enum("UHB_OP", UHB.Op)
    e.defn("SHB_COMMAND", "N", coq_N(SHB.HSM2SignerHeartbeat.Command))
    e.defn("UHB_COMMAND", "N", coq_N(UHB.HSM2UIHeartbeat.Command))
    enum("PATT_OP", PATT.Op)
    e.defn("PATT_COMMAND", "N", coq_N(PATT.PowHsmAttestation.Command))
    e.defn("PATT_LEGACY_HEADER", "bytes", coq_list(coq_N(b) for b in PATT.LEGACY_HEADER))
    enum("SGXCMD", SGX.SgxCommand)
    enum("DA_CMD", DA._Command)
    enum("DA_ROLE", DA._Role)
    e.defn("DA_CLA", "N", coq_N(DA.DongleAdmin.CLA))

    # ---- certificates
    e.defn("CERT_V1_VALID_NAMES", "list str",
           coq_list(coq_str(x) for x in CERT.HSMCertificateElement.VALID_NAMES))
    e.defn("CERT_V1_ROOT", "str", coq_str(CERT.HSMCertificate.ROOT_ELEMENT))
    e.defn("CERT_V2_ROOT", "str", coq_str(CERT.HSMCertificateV2.ROOT_ELEMENT))
    e.defn("CERT_VERSIONS", "list Z", coq_list(coq_Z(k) for k in CERT.HSMCertificate.VERSION_MAPPING))
    e.defn("CERT_V2_TYPES", "list str",
           coq_list(coq_str(k) for k in CERT2.HSMCertificateV2Element.TYPE_MAPPING))
    # extractor behaviour tabulated on a 100-byte probe: (name, start offset, length)
    probe = bytes(range(100))
    ex = []
    for nm in CERT.HSMCertificateElement.VALID_NAMES:
        out = CERT.HSMCertificateElement.EXTRACTORS[nm](probe)
        st = probe.find(out) if out else 0
        need(probe[st:st + len(out)] == out, "extractor %s is not a slice" % nm)
        ex.append("(%s, (%d, %d))" % (coq_str(nm), st, len(out)))
    e.defn("CERT_V1_EXTRACTORS_ON_100", "list (str * (N * N))", coq_list(ex))

    # ---- admin
    e.defn("PUBKEY_PATHS", "list (str * str * bytes)", coq_list(
        "(%s, %s, %s)" % (coq_str(k), coq_str(str(v)), coq_list(coq_N(b) for b in v.to_binary()))
        for k, v in PK.PATHS.items()))

    # ---- str.isdecimal / int(str): Unicode Nd digits come in runs of ten (checked here)
    nd = [c for c in range(sys.maxunicode + 1) if chr(c).isdecimal()]
    starts = []
    i = 0
    while i < len(nd):
        blk = nd[i:i + 10]
        need(blk == list(range(nd[i], nd[i] + 10)) and
             [int(chr(c)) for c in blk] == list(range(10)), "Unicode Nd digits not in runs of ten")
        starts.append(nd[i])
        i += 10
    e.defn("UNICODE_ND_STARTS", "list N", coq_list(coq_N(x) for x in starts))
    e.defn("INT_MAX_STR_DIGITS", "N", coq_N(sys.get_int_max_str_digits()))

    # ---- server kind
    fn_ = func_ast(SRV.TCPServer, "run")
    ctor = [n for n in ast.walk(fn_) if isinstance(n, ast.Call) and isinstance(n.func, ast.Attribute)
            and isinstance(n.func.value, ast.Name) and n.func.value.id == "socketserver"
            and n.func.attr.endswith("Server")]
    need(len(ctor) == 1, "TCPServer.run: expected one socketserver.*Server construction")
    kls = getattr(socketserver, ctor[0].func.attr)
    threaded = issubclass(kls, (socketserver.ThreadingMixIn, socketserver.ForkingMixIn))
    # structure facts: the serving path creates no thread / process / task anywhere except the one helper
    # thread of _TCPServerRequestHandler.shutdown, and that thread does nothing but self.server.shutdown()
    SPAWNERS = {"Thread", "Process", "fork", "submit", "create_task", "Timer", "ThreadPoolExecutor",
                "ProcessPoolExecutor", "start_new_thread", "run_in_executor", "ensure_future"}

    def spawn_sites(modname):
        import importlib
        m_ = importlib.import_module(modname)
        tree = ast.parse(open(inspect.getsourcefile(m_)).read())
        sites = []

        def walk(node, where):
            for ch in ast.iter_child_nodes(node):
                w = where
                if isinstance(ch, (ast.FunctionDef, ast.ClassDef, ast.AsyncFunctionDef)):
                    w = where + [ch.name]
                if isinstance(ch, ast.Call):
                    f = ch.func
                    nm = f.attr if isinstance(f, ast.Attribute) else f.id if isinstance(f, ast.Name) else None
                    if nm in SPAWNERS:
                        sites.append((".".join(w), nm))
                walk(ch, w)
        walk(tree, [])
        return sites, tree
    srv_sites, srv_tree = spawn_sites("comm.server")
    other_sites = []
    for mn in ("comm.protocol", "comm.protocol_v1", "ledger.protocol", "ledger.protocol_v1", "mgr.runner",
               "ledger.hsm2dongle", "ledger.hsm2dongle_tcp", "sgx.hsm2dongle"):
        other_sites += [(mn,) + x for x in spawn_sites(mn)[0]]
    only_shutdown_thread = srv_sites in ([("_TCPServerRequestHandler.shutdown", "Thread")],
                                         [("_TCPServerRequestHandler.shutdown.tgt", "Thread")])
    ds = func_ast(SRV._TCPServerRequestHandler, "_do_shutdown")
    ds_body = [st for st in ds.body if not (isinstance(st, ast.Expr) and isinstance(st.value, ast.Constant))]
    shutdown_only = (len(ds_body) == 1 and isinstance(ds_body[0], ast.Expr)
                     and ast.unparse(ds_body[0].value) == "self.server.shutdown()")
    overrides = [n.name for n in ast.walk(srv_tree) if isinstance(n, ast.FunctionDef)
                 and n.name in ("process_request", "process_request_thread", "finish_request", "get_request")]
    spawns = not (only_shutdown_thread and shutdown_only and not other_sites and not overrides)
    e.comment("thread/process creation sites: comm.server %r; other serving modules %r; _do_shutdown is "
              "server.shutdown() only: %r; socketserver hooks overridden: %r"
              % (srv_sites, other_sites, shutdown_only, overrides))
    e.defn("SERVER_IS_SEQUENTIAL", "bool", "false" if (threaded or spawns) else "true")
    e.defn("SERVER_CLASS", "str", coq_str(ctor[0].func.attr))

    # ---- CStruct layouts (sgx/envelope.py, admin/attestation_utils.py): field offsets and sizes
    import struct as _struct
    import sgx.envelope as ENV
    import admin.attestation_utils as AU
    from comm.cstruct import CStruct

    def layout(cls):
        st, atrmap, names, types, typename = cls._spec(True)
        fmt = st.format
        need(fmt[0] == "<", "unexpected struct byte order")
        items = re.findall(r"(\d*)([A-Za-z])", fmt[1:])
        need(len(items) == len(names), "layout items/names mismatch for " + cls.__name__)
        off = 0
        out = []
        for (cnt, ch), nm in zip(items, names):
            sz = _struct.calcsize("<" + cnt + ch)
            out.append((nm, off, sz))
            off += sz
        need(off == st.size, "layout size mismatch for " + cls.__name__)
        return out, st.size
    for cls in (ENV.SgxReportBody, ENV.SgxQuote, ENV.SgxReportData, ENV.SgxQuoteAuthData,
                ENV.SgxEcdsa256Signature, ENV.SgxEcdsa256Key, ENV.SgxQuoteTail, ENV.SgxEnvelope,
                ENV.SgxQeAuthData, ENV.SgxQeCertData, AU.PowHsmAttestationMessage):
        lay, size = layout(cls)
        nm = ident(cls.__name__)
        e.defn("LAYOUT_" + nm, "list (str * (N * N))",
               coq_list("(%s, (%d, %d))" % (coq_str(n_), o_, s_) for n_, o_, s_ in lay))
        e.defn("SIZEOF_" + nm, "N", coq_N(size))
    e.defn("POWHSM_HEADER_LEN", "N", coq_N(len(b"POWHSM:5.4::")))
    import admin.verify_ledger_attestation as VL
    for nm in ("UD_VALUE_LENGTH", "PUBLIC_KEYS_HASH_LENGTH", "PUBKEY_COMPRESSED_LENGTH",
               "SIGNER_HASH_LENGTH", "SIGNER_ITERATION_LENGTH"):
        e.defn("VL_" + nm, "N", coq_N(getattr(VL, nm)))
    e.defn("VL_UI_DERIVATION_PATH", "str", coq_str(VL.UI_DERIVATION_PATH))

    # ---- documented result codes (docs/protocol.md)
    doc = open(os.path.join(env.REPO, "docs", "protocol.md")).read()
    titles = {"Get version": P.VERSION_COMMAND, "Sign": P.SIGN_COMMAND,
              "Get public key": P.GETPUBKEY_COMMAND, "Advance Blockchain": P.ADVANCE_BLOCKCHAIN_COMMAND,
              "Reset Advance Blockchain": P.RESET_ADVANCE_BLOCKCHAIN_COMMAND,
              "Get Blockchain State": P.BLOCKCHAIN_STATE_COMMAND,
              "Update ancestor block": P.UPDATE_ANCESTOR_BLOCK_COMMAND,
              "Get Blockchain Parameters": P.GET_BLOCKCHAIN_PARAMETERS,
              "Signer heartbeat": P.SIGNER_HEARTBEAT, "UI heartbeat": P.UI_HEARTBEAT}
    sections = re.split(r"^### ", doc, flags=re.M)[1:]
    found = {}
    generic = None
    for sec in sections:
        title = sec.split("\n", 1)[0].strip()
        if title in titles:
            m = re.search(r"This operation can return (.*?) and generic errors", sec, flags=re.S)
            need(m is not None, "docs/protocol.md: no result-code sentence for '%s'" % title)
            found[titles[title]] = [int(x) for x in re.findall(r"`(-?\d+)`", m.group(1))]
        if title == "Error and success codes":
            g = sec.split("Generic errors", 1)
            need(len(g) == 2, "docs/protocol.md: no generic errors section")
            generic = [int(x) for x in re.findall(r"`(-?\d+)`", g[1].split("###")[0])]
    need(set(found) == set(titles.values()), "docs/protocol.md: missing command sections: %s"
         % sorted(set(titles.values()) - set(found)))
    need(generic, "docs/protocol.md: generic codes not found")
    e.defn("DOC_CODES", "list (str * list Z)", coq_list(
        "(%s, %s)" % (coq_str(k), coq_list(coq_Z(c) for c in v)) for k, v in found.items()))
    e.defn("DOC_GENERIC", "list Z", coq_list(coq_Z(c) for c in generic))
    with open(os.path.join(env.VERIF, "build", "doc_codes.json"), "w") as f:
        import json as _json
        _json.dump({"codes": found, "generic": generic}, f)

    return e.text()


def main():
    try:
        t = gen_tables()
    except GenError as ex:
        print("GEN-ERROR: %s" % ex)
        return 2
    except Exception as ex:   # import failure etc. is also a broken tie
        print("GEN-ERROR: %s: %s" % (type(ex).__name__, ex))
        return 2
    ch = write_if_changed(os.path.join(OUT, "Tables.v"), t)
    print("Tables.v %s" % ("rewritten" if ch else "unchanged"))
    return 0


if __name__ == "__main__":
    sys.exit(main())
