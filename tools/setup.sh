#!/bin/sh
# Offline build of the framework from files on disk: regenerate tables from /repo, full .vo build.
set -e
cd "$(dirname "$0")/.."
mkdir -p build evidence
PYTHONHASHSEED=0 /venv/bin/python tools/gen_tables.py
PYTHONHASHSEED=0 /venv/bin/python tools/gen_src.py
cd coq
coq_makefile -f _CoqProject -o Makefile > /dev/null
timeout 3000 make -j16
/venv/bin/python -m compileall -q ../harness ../checks > /dev/null || true
