#!/usr/bin/env python3
"""Run every stored seeded change (seeded/<id>/patch.diff) against its property's check.
usage: run_all_seeds.py [<id-prefix> ...]     env SEED_TIER=quick|thorough
Each change is applied to /repo (which must be clean), the check is run, the change is undone.
Prints one line per change; exit 1 if any change is NOT reported as a violation."""
import json
import os
import subprocess
import sys

HERE = os.path.dirname(os.path.dirname(os.path.abspath(__file__)))
ids = sorted(os.listdir(os.path.join(HERE, "seeded")))
if sys.argv[1:]:
    ids = [i for i in ids if any(i.startswith(p) for p in sys.argv[1:])]
missed = []
for i in ids:
    d = os.path.join(HERE, "seeded", i)
    prop = json.load(open(os.path.join(d, "meta.json")))["property"]
    r = subprocess.run([sys.executable, os.path.join(HERE, "tools", "try_seed.py"),
                        os.path.join(d, "patch.diff"), prop], capture_output=True, text=True)
    line = (r.stdout.strip().splitlines() or ["(no output) " + r.stderr[-200:]])[-1]
    caught = "exit=1" in line and "VIOLATION" in line
    found = caught and "no-failing-input-found" not in line.split("|")[0]
    print("%-45s %s" % (i, "caught (failing input)" if found else "caught (tie only)" if caught else "MISSED: " + line[:160]))
    sys.stdout.flush()
    if not caught:
        missed.append(i)
sys.exit(1 if missed else 0)
