#!/usr/bin/env python3
"""Fill result / caught_by of seeded/*/meta.json from the output of tools/par_seeds.py (one line per change),
and the history notes of round 4.  usage: update_seed_meta.py <par_seeds output file>"""
import json
import os
import re
import sys

HERE = os.path.dirname(os.path.dirname(os.path.abspath(__file__)))
H4 = {
 "C01-5": "first attempt: broken tie only (correspondence); caught with an input after the simulator reports a chunk larger than it asked for and the oracle demands success from an abiding device",
 "C01-6": "first attempt: broken tie only (correspondence); caught with an input after the abiding-device clause; since the source translation also a broken proof (SrcEquivProto: _validate_message)",
 "C02-5": "caught at the first attempt; since the source translation also a broken proof (SrcEquivBase: BIP32Element)",
 "C02-6": "missed (no upper-case 0X spelling generated); caught after adding prefix / radix spellings around the exact length; since the source translation also a broken proof (SrcEquivBase: is_hex_string_of_length)",
 "C03-5": "caught at the first attempt", "C03-6": "caught at the first attempt",
 "C04-5": "first attempt: the plugin crashed on the mutant's honest run (tie only); caught with an input after honest runs without a code and link outcomes without a code became oracle clauses",
 "C04-6": "missed (the honest code was taken from the implementation itself and no run ended PARTIAL after a brother); caught after the device's own report decides the honest code and block operations end at every point the firmware may choose",
 "C05-5": "caught at the first attempt", "C05-6": "caught at the first attempt",
 "C06-5": "caught at the first attempt", "C06-6": "caught at the first attempt",
 "C07-5": "missed (bindings were corrupted, never moved); caught after adding genuinely signed report data carrying the hash at offsets 1, 16, 32",
 "C07-6": "caught at the first attempt",
 "C08-5": "caught at the first attempt", "C08-6": "caught at the first attempt",
 "C09-5": "caught at the first attempt",
 "C09-6": "first attempt: broken tie only (correspondence on a C11-style case); caught with an input after adding swapped-device repair histories (repair cut short by a time-out, then further requests)",
 "C10-5": "caught at the first attempt", "C10-6": "caught at the first attempt",
 "C11-5": "missed (two-request histories only); caught after adding the whole-trace repair rule and repairs cut short by a time-out followed by a third request",
 "C11-6": "caught at the first attempt",
 "C12-5": "missed (no version request in the mix; T1 scanned two functions only); caught after mixing in every command and scanning whole modules for thread / process creation",
 "C12-6": "missed, then tie only (T1: _do_shutdown is no longer server.shutdown() alone); caught with an input after adding rounds in which one client meets a fatal answer while others are queued, and making the fake transport fail on a closed handle",
 "C13-5": "missed (fresh device per query); caught after adding device-replaced-between-queries histories for keys, parameters and state",
 "C13-6": "missed (statuses injected at the heartbeat exchanges only); caught after injecting a device-range status at each of the ten exchanges of the mode dance",
 "C14-5": "caught at the first attempt", "C14-6": "caught at the first attempt",
 "C15-5": "caught at the first attempt", "C15-6": "caught at the first attempt",
 "C16-5": "caught at the first attempt",
 "C16-6": "missed (the harness saved through to_dict, not save_to_jsonfile); caught after saving through the real entry point and re-reading the file",
 "C17-5": "first attempt: the plugin crashed after having found the violation (tie only); caught with an input after the round-trip step reports instead of raising; since the source translation also a broken proof (SrcEquivAdmin: SignerVersion)",
 "C17-6": "caught at the first attempt",
 "C18-5": "missed (typed PINs had no surrounding blanks); caught after adding compliant PINs wrapped in blanks to the typed entries",
 "C18-6": "missed (onboarding was stopped before its own unlock step); caught after continuing through 'disconnect and re-connect' with a device that comes back in each state; the step is now modelled and proved (C18b)",
 "C19-5": "caught at the first attempt",
 "C19-6": "missed (-v never passed, output not scanned); caught after exercising every option and scanning the tool's output for the key",
}
H5 = {
 "C02-7": "first attempt and now: broken proof only (SrcEquivProto: _validate_message no longer the model's) - docs/protocol.md is silent on extra fields inside `message`, so the oracle allows both verdicts and no failing input exists under the property as stated",
 "C02-8": "caught at the first attempt",
 "C03-7": "first attempt: broken proof only (SrcEquivBase: _validate_key_id); caught with an input after adding oversized key ids (6..1000 elements) to the hostile corpus",
 "C03-8": "caught at the first attempt",
 "C04-7": "caught at the first attempt",
 "C04-8": "first attempt: broken proof only (SrcEquivBlockM: _do_block_operation); caught with an input after wrong-opcode answers range over every other opcode of the device's own protocols (success markers excepted)",
 "C11-7": "caught at the first attempt (also a change of the now translated _send_command)",
 "C11-8": "caught at the first attempt",
 "C12-7": "broken tie only (T1: TCPServer.run no longer constructs one server); a failing input needs several bind addresses, which the unchanged manager refuses",
 "C12-8": "first attempt: broken tie only; caught with an input after the monitor demands that a success reply other than `version` be made while the request exchanged something with the device",
 "C13-7": "caught at the first attempt", "C13-8": "caught at the first attempt",
 "C15-7": "caught at the first attempt", "C15-8": "caught at the first attempt",
 "C18-7": "caught at the first attempt",
 "C18-8": "first attempt: broken proof only (SrcEquivSgxM: the translated SGX echo is no longer the model's); caught with an input after adding the finer ways an echo can be wrong (right payload under a wrong class / command byte, a byte short, a byte long)",
}
H6 = {
 "C01-7": "broken proof only (SrcEquivDongleM: _send_data_in_chunks is no longer the model's chunk loop); a failing input needs a device that consumed a chunk whose answer was then lost - the simulators answer or fail, they do not do both",
 "C01-8": "caught at the first attempt",
 "C05-7": "caught at the first attempt",
 "C05-8": "broken proof only (SrcEquivBlockM: _do_block_operation); ten-brother lists are among the generated cases, but the oracle has no independent notion of 'the middleware gave up on a legal request' (it demands 0/1 exactly when the device reported success); forcing such a case into every run was tried and withdrawn for lack of time to judge it: seeded C05-4 makes a proof script of SrcEquivBlockM run into the 1500 s build limit, so that check takes about half an hour before it reports",
 "C06-7": "missed (every declared tweak was 32 bytes); caught after chains declare - and are genuinely signed under - tweaks of 1..40 bytes",
 "C06-8": "caught at the first attempt",
 "C07-7": "broken tie only (correspondence: the foreign chain that ships its own root is judged differently by model and implementation); the oracle compares verdicts, and that chain is rejected further down under the change too",
 "C07-8": "missed (report data was corrupted or moved, never reduced); caught after adding genuinely signed report data that is all zeroes or a zero-padded prefix of the hash",
 "C08-7": "first attempt: the plugin crashed on a negative printed number after the oracle had found the violation (tie only); caught with an input after the rendering step reports instead of asserting",
 "C08-8": "caught at the first attempt",
 "C09-7": "caught at the first attempt", "C09-8": "caught at the first attempt",
 "C10-7": "missed (every reply could be written); caught after adding the repair-time change with the client gone before its reply (the write fails)",
 "C10-8": "caught at the first attempt",
 "C14-7": "caught at the first attempt", "C14-8": "caught at the first attempt",
 "C16-7": "caught at the first attempt",
 "C16-8": "missed (C16 ran the real link checks on garbage signatures only, so no certifier was ever reached as a key); caught after genuinely signed chains and all their alterations go through the real link checks",
 "C17-7": "first attempt: broken proof only (SrcEquivAdmin); caught with an input after adding 64-character hash texts that decode to fewer than 32 bytes",
 "C17-8": "caught at the first attempt",
 "C19-7": "caught at the first attempt",
 "C19-8": "missed (the key bytes appear nowhere literally); caught after 'written nowhere' also covers two signatures of one run sharing r, from which the key follows by arithmetic",
}
res = {}
for line in open(sys.argv[1]):
    m = re.match(r"(\S+)\s+(caught \(failing input\)|caught \(tie only\)|MISSED)(.*)", line)
    if not m:
        continue
    i, st, rest = m.groups()
    k = re.search(r'"key": "([^"]+)"', rest)
    w = re.search(r'"what": "(correspondence[^"]*|proof|translator)"', rest)
    res[i] = (st, k.group(1) if k else (w.group(1) if w else None))
n = 0
for i in sorted(os.listdir(os.path.join(HERE, "seeded"))):
    p = os.path.join(HERE, "seeded", i, "meta.json")
    m = json.load(open(p))
    if i not in res:
        continue
    st, key = res[i]
    m["result"] = {"caught (failing input)": "reported by the quick check (exit 1, VIOLATION line) with a failing input",
                   "caught (tie only)": "reported by the quick check (exit 1, VIOLATION ... no-failing-input-found): broken tie only",
                   "MISSED": "NOT reported"}[st]
    if m.get("round") in (4, 5, 6) or m.get("caught_by") in (None, "pending", ""):
        m["caught_by"] = ("oracle %s" % key) if st.startswith("caught (failing") else ("tie: %s" % key)
        pref = "-".join(i.split("-")[:2])
        if pref in H4:
            m["history"] = H4[pref]
        if pref in H6 and m.get("round") == 6:
            m["history"] = H6[pref]
            m["checks_run"] = "tools/par_seeds.py (scratch copy of /verif + detached worktree of /repo: git apply; checks/check.py <property> --tier quick; git checkout -- .)"
        if pref in H5 and m.get("round") == 5:
            m["history"] = H5[pref]
            m["checks_run"] = "tools/par_seeds.py (scratch copy of /verif + detached worktree of /repo: git apply; checks/check.py <property> --tier quick; git checkout -- .)"
    json.dump(m, open(p, "w"), indent=1)
    n += 1
print("updated", n)
