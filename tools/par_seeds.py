#!/usr/bin/env python3
"""Run stored seeded changes against their property's quick check IN PARALLEL, each worker in its own
scratch pair (a copy of /verif's committed-or-working files and a detached git worktree of /repo), so that
/repo and /verif/coq themselves are never touched and stay free for other work.
usage: par_seeds.py <workers> [<id-prefix> ...]       env SEED_TIER=quick|thorough
Scratch lives under /root/seedwork/w<k> and is removed at the end (worktrees via git worktree remove)."""
import json
import os
import shutil
import subprocess
import sys
import threading

HERE = os.path.dirname(os.path.dirname(os.path.abspath(__file__)))
BASE = "/root/seedwork"
nworkers = int(sys.argv[1])
ids = sorted(os.listdir(os.path.join(HERE, "seeded")))
if sys.argv[2:]:
    ids = [i for i in ids if any(i.startswith(p) for p in sys.argv[2:])]
queue = list(ids)
lock = threading.Lock()
results = {}


def sh(*a, **k):
    return subprocess.run(*a, capture_output=True, text=True, **k)


def setup(k):
    w = os.path.join(BASE, "w%d" % k)
    v, r = os.path.join(w, "verif"), os.path.join(w, "repo")
    if os.path.exists(r):
        sh(["git", "-C", "/repo", "worktree", "remove", "--force", r])
    shutil.rmtree(w, ignore_errors=True)
    os.makedirs(w)
    # copy of the framework including its build output (compiled .vo files), without evidence
    sh(["rsync", "-a", "--exclude", ".git", "--exclude", "evidence", "--exclude", "build", HERE + "/", v + "/"])
    os.makedirs(os.path.join(v, "evidence"), exist_ok=True)
    os.makedirs(os.path.join(v, "build"), exist_ok=True)
    sh(["git", "-C", "/repo", "worktree", "add", "--detach", r, "HEAD"])
    return v, r


def worker(k):
    v, r = setup(k)
    env = dict(os.environ, PYTHONHASHSEED="0", VERIF_REPO=r)
    while True:
        with lock:
            if not queue:
                break
            i = queue.pop(0)
        d = os.path.join(HERE, "seeded", i)
        prop = json.load(open(os.path.join(d, "meta.json")))["property"]
        a = sh(["git", "-C", r, "apply", os.path.join(d, "patch.diff")])
        if a.returncode != 0:
            results[i] = "APPLY-FAILED " + a.stderr[:200]
            continue
        try:
            q = sh(["/venv/bin/python", os.path.join(v, "checks", "check.py"), prop, "--tier",
                    os.environ.get("SEED_TIER", "quick")], cwd=v, env=env)
            lines = [l for l in q.stdout.splitlines() if l.startswith("VIOLATION")]
            caught = q.returncode == 1 and bool(lines)
            found = caught and not any("no-failing-input-found" in l for l in lines[:1])
            what = ""
            rp = lines[0].split("replay=")[1].split()[0] if lines else None
            if rp and os.path.exists(rp):
                try:
                    what = open(rp).read()[:600].replace("\n", " ")
                except Exception:
                    pass
            results[i] = ("caught (failing input)" if found else "caught (tie only)" if caught
                          else "MISSED exit=%d %s" % (q.returncode, q.stdout[-300:].replace("\n", " | "))) + "  ## " + what
        finally:
            sh(["git", "-C", r, "checkout", "--", "."])
            sh(["git", "-C", r, "clean", "-fdq"])
        with lock:
            print("%-48s %s" % (i, results[i][:400]))
            sys.stdout.flush()
    sh(["git", "-C", "/repo", "worktree", "remove", "--force", r])
    shutil.rmtree(os.path.join(BASE, "w%d" % k), ignore_errors=True)


ts = [threading.Thread(target=worker, args=(k,)) for k in range(nworkers)]
for t in ts:
    t.start()
for t in ts:
    t.join()
missed = [i for i in ids if not results.get(i, "").startswith("caught")]
print("SUMMARY: %d run, %d caught with input, %d tie only, %d missed" % (
    len(ids), sum(1 for x in results.values() if x.startswith("caught (failing")),
    sum(1 for x in results.values() if x.startswith("caught (tie")), len(missed)))
sys.exit(1 if missed else 0)
