#!/usr/bin/env python3
"""Write the instructions handed to a fresh sub-agent that is to produce seeded breaking changes
for one property: the property's text (from properties.jsonl), sandbox practicalities, and the
list of mechanisms already tried (from seeded/*/README.txt - the agents' own earlier reports;
nothing else from /verif is shown to them).
usage: make_seed_prompts.py <outdir> <worktree-prefix>     e.g.  /tmp/mutp /tmp/mut3_"""
import json
import os
import sys

HERE = os.path.dirname(os.path.dirname(os.path.abspath(__file__)))
TEMPLATE = '''You are testing how well a verification effort detects regressions in the Python middleware of rsksmart/rsk-powhsm. You work ONLY in your own scratch git worktree of the repository: {W} (never touch /repo or /verif, never read /verif). Python is /venv/bin/python (3.12); the middleware lives in {W}/middleware; the existing test suite is run with `cd {W} && /venv/bin/python -m pytest -q -p no:cacheprovider --continue-on-collection-errors` (baseline on the untouched tree: 468 passed, 25 collection errors because python-bitcoinlib (`bitcoin.core`) is not installed in this sandbox - those 25 errors are expected and must stay exactly as they are; nothing can be installed, there is no network). A script that needs to import `ledger.hsm2dongle`/`ledger.protocol`/`comm.bitcoin` must therefore first put a small stand-in for `bitcoin.core` into `sys.modules` (write your own minimal one inside your demonstration; for most properties a module object with the attributes the import needs is enough). The hardware device is reached through `ledgerblue`'s `getDongle(...)`/`dongle.exchange(apdu, timeout)`; replace those with your own fake in the demonstration (e.g. assign `ledger.hsm2dongle.getDongle = ...`, or set `HSM2Dongle(...).dongle = fake`). A fake `exchange` returns a bytearray for success and raises `ledgerblue.commException.CommException(msg, sw)` for a status word; timeouts are `CommException("Timeout", 0x6F00)`, link errors `BaseException("Error while writing")` / `OSError("read error")`. Run things with `PYTHONPATH={W}/middleware`.

The property under test ({P}):

{TITLE}

{STATEMENT}

Quantifier: {QUANT}


Task: produce TWO different, realistic changes to the repository source (under {W}/middleware, not tests, not docs) each of which BREAKS this property while (a) the code still imports and (b) the existing test suite gives exactly the baseline result (468 passed, same 25 collection errors). Prefer changes that need something specific to manifest - a particular interleaving, a fault or crash at a particular point, a multi-step sequence of operations, an unusual input or boundary value, or two cooperating sites that each look fine alone - NOT changes that ordinary use would expose at once, and not changes that merely crash on every call. Think like a plausible maintenance mistake: an off-by-one in a bound, a wrong byte order or offset in one branch, a dropped check, a reordered pair of statements, a widened or narrowed except clause, a cache that is not invalidated, a comparison changed from < to <=, a table entry mapped to a neighbouring code, etc. The two changes should touch different mechanisms. The change must violate the property AS STATED (read its statement and quantifier closely); say in the README which clause of the statement is violated.

For each change k in (1, 2) deliver a directory {W}/out/change{{k}}/ containing:
  - patch.diff : `git diff` of the change against the worktree's HEAD (must apply with `git apply` on a clean checkout);
  - demo.py    : a self-contained demonstration (run as `cd {W} && PYTHONPATH={W}/middleware /venv/bin/python out/change{{k}}/demo.py`) that exits 0 and prints PASS when the property holds on the scenario it exercises and exits 1 and prints FAIL (with a one-line reason) when it does not; it must FAIL with the change applied and PASS on the untouched tree;
  - README.txt : 5-10 lines: what was changed, why the property breaks (which clause), what specific circumstance is needed for it to manifest, and the exact commands you ran with their outcomes (test suite result with the change, demo with and without the change).
Procedure for each change: edit, run the test suite (must match the baseline), write and run the demo (FAIL), save `git diff > out/change{{k}}/patch.diff`, then `git checkout -- middleware` to restore the tree and run the demo again (PASS). Leave the worktree clean (only the untracked `out/` directory) when you finish. Keep your final report to a few lines per change.
'''


def main():
    outdir, prefix = sys.argv[1], sys.argv[2]
    os.makedirs(outdir, exist_ok=True)
    seeds = {}
    sd = os.path.join(HERE, "seeded")
    for i in sorted(os.listdir(sd)):
        m = json.load(open(os.path.join(sd, i, "meta.json")))
        readme = open(os.path.join(sd, i, "README.txt")).read()
        seeds.setdefault(m["property"], []).append((i, readme))
    for line in open(os.path.join(HERE, "properties.jsonl")):
        d = json.loads(line)
        p = d["id"]
        t = TEMPLATE.format(W=prefix + p, P=p, TITLE=d["title"], STATEMENT=d["statement"],
                            QUANT=d["quantifier"]["text"])
        if seeds.get(p):
            t += ("\n\nEarlier rounds already produced the following changes for this property; do NOT repeat them "
                  "or close variants (same site and mechanism) - find different mechanisms, code sites and kinds of "
                  "trigger:\n")
            for i, readme in seeds[p]:
                t += " - %s: %s\n" % (i.split("-", 2)[2], " ".join(readme.strip().split())[:330])
            t += ("Look for what has NOT been touched yet: other files among the property's code, other platforms "
                  "(Ledger / SGX / TCP), the legacy v1 protocol, option combinations of the command-line tools, "
                  "encoding details (byte order, signedness, length prefixes, hex case / whitespace), values at the "
                  "other end of a range, behaviour on the second and later use of an object or a process.\n")
        open(os.path.join(outdir, "prompt_%s.txt" % p), "w").write(t)


if __name__ == "__main__":
    main()
