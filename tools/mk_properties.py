#!/usr/bin/env python3
"""Generate coq/Properties/<id>.v from a spec: each property theorem restates a lemma proved in
Proofs/ (statement obtained from Coq with `Check`) and is closed by `exact lemma`.
usage: mk_properties.py <id> <spec.json>
spec: {"title": str, "imports": [...], "scopes": [...], "theorems": [[prop_name, lemma, comment], ...],
       "examples": [coq text, ...]}"""
import json
import os
import re
import subprocess
import sys

V = os.path.dirname(os.path.dirname(os.path.abspath(__file__)))
COQ = os.path.join(V, "coq")


def check(imports, scopes, lemma):
    src = "".join("From PowHsm Require Import %s.\n" % i for i in imports)
    src += "".join("Open Scope %s.\n" % s for s in scopes)
    src += "Set Printing Width 100.\nSet Printing Depth 10000.\nCheck @%s.\n" % lemma
    p = subprocess.run(["coqtop", "-Q", COQ, "PowHsm", "-quiet"], input=src, text=True,
                       capture_output=True, cwd=COQ)
    out = p.stdout
    m = re.search(r"^@?%s\s*\n?\s*:\s(.*?)(?=\n\n|\Z)" % re.escape(lemma), out, flags=re.S | re.M)
    if not m:
        raise SystemExit("cannot Check %s:\n%s\n%s" % (lemma, out[-2000:], p.stderr[-2000:]))
    return m.group(1).rstrip()


def main():
    pid, specpath = sys.argv[1], sys.argv[2]
    spec = json.load(open(specpath))
    lines = ["(* %s — %s" % (pid, spec["title"]),
             "   Only statements, `exact`, and non-vacuity examples live here; proofs are in Proofs/.",
             "   GENERATED skeleton (tools/mk_properties.py): statements are the ones Coq reports for the",
             "   lemmas they restate, so they cannot drift from what is proved. *)"]
    for i in spec["imports"]:
        lines.append("From PowHsm Require Import %s." % i)
    for s in spec.get("scopes", []):
        lines.append("Open Scope %s." % s)
    lines.append("")
    for name, lemma, comment in spec["theorems"]:
        st = check(spec["imports"], spec.get("scopes", []), lemma)
        lines.append("(* %s *)" % comment)
        lines.append("Theorem %s :\n  %s.\nProof. exact (@%s). Qed.\n" % (name, st.replace("\n", "\n  "), lemma))
    for ex in spec.get("examples", []):
        lines.append(ex + "\n")
    path = os.path.join(COQ, "Properties", pid + ".v")
    with open(path, "w") as f:
        f.write("\n".join(lines))
    p = subprocess.run(["coqc", "-Q", COQ, "PowHsm", path], capture_output=True, text=True, cwd=COQ)
    if p.returncode != 0:
        print(p.stdout[-3000:], p.stderr[-3000:])
        raise SystemExit("generated file does not compile: " + path)
    print("wrote", path, len(spec["theorems"]), "theorems")


if __name__ == "__main__":
    main()
