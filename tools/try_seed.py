#!/usr/bin/env python3
"""Apply a seeded change to /repo, run the given checks, undo the change.
usage: try_seed.py <patch.diff> <Cxx> [<Cyy> ...]   (prints one line per check)"""
import subprocess
import sys
import os

patch = os.path.abspath(sys.argv[1])
props = sys.argv[2:]
assert subprocess.run(["git", "-C", "/repo", "status", "--porcelain"], capture_output=True, text=True).stdout == "", \
    "/repo not clean"
r = subprocess.run(["git", "-C", "/repo", "apply", patch], capture_output=True, text=True)
if r.returncode != 0:
    print("APPLY-FAILED", r.stderr[:300])
    sys.exit(2)
# the evidence files describe the unchanged tree: keep them across this experiment
import shutil
saved = {}
for p in props:
    ev = "/verif/evidence/%s.json" % p
    if os.path.exists(ev):
        saved[ev] = open(ev, "rb").read()
try:
    for p in props:
        tier = os.environ.get("SEED_TIER", "quick")
        q = subprocess.run(["/venv/bin/python", "/verif/checks/check.py", p, "--tier", tier], capture_output=True,
                           text=True, cwd="/verif", env=dict(os.environ, PYTHONHASHSEED="0"))
        lines = [l for l in q.stdout.splitlines() if l.startswith("VIOLATION") or l.startswith(p)]
        print("%s exit=%d %s" % (p, q.returncode, " | ".join(l[:220] for l in lines[:3])))
finally:
    subprocess.run(["git", "-C", "/repo", "checkout", "--", "."], check=True)
    for ev, data in saved.items():
        open(ev, "wb").write(data)
    # regenerate tables and rebuild for the pristine tree so later runs start clean
    subprocess.run(["/venv/bin/python", "/verif/tools/gen_tables.py"], capture_output=True, cwd="/verif",
                   env=dict(os.environ, PYTHONHASHSEED="0"))
