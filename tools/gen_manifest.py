#!/usr/bin/env python3
"""Writes MANIFEST.json from the table below (kept in one place so it stays valid)."""
import json, os
V = os.path.dirname(os.path.dirname(os.path.abspath(__file__)))
props = [json.loads(l) for l in open(os.path.join(V, "properties.jsonl"))]
CLAIMED = json.load(open(os.path.join(V, "tools", "claims.json")))
checks = []
na = []
for p in props:
    pid = p["id"]
    c = CLAIMED.get(pid)
    if c is None or c.get("not_applicable"):
        na.append({"property_id": pid, "reason": (c or {}).get("reason", "check not built yet in this round; planned per DESIGN.md section 5")})
        continue
    checks.append({
        "property_id": pid,
        "quick_cmd": "/venv/bin/python checks/check.py %s --tier quick" % pid,
        "thorough_cmd": "/venv/bin/python checks/check.py %s --tier thorough" % pid,
        "evidence_file": "/verif/evidence/%s.json" % pid,
        "replay_cmd_template": "/venv/bin/python checks/check.py %s --replay {path}" % pid,
        "engine": "coq-model",
        "level_claimed": {"category": c["category"], "text": c["text"], "design_ref": "DESIGN.md section 5, " + pid},
        "level_note": c["note"],
        "technique": c["technique"],
    })
m = {
    "version": 1,
    "setup_cmd": "sh tools/setup.sh",
    "hooks": {"guard": "RSK_POWHSM_VERIF", "enable": "no source hooks: every fake is installed from outside by the harness (module attribute assignment)", "baseline_off_cmd": "cd /repo && /venv/bin/python -m pytest -ra -q -p no:cacheprovider --timeout=900 --continue-on-collection-errors", "source_commits": [], "add_only": True},
    "engines": [{"name": "coq-model", "path": "/verif/coq", "serves_properties": [c["property_id"] for c in checks], "kind_free_text": "Coq 8.16.1 theorems over hand-written executable Gallina models; tables regenerated from /repo (tools/gen_tables.py); model/implementation correspondence by vm_compute on recorded runs; Python property oracles"}],
    "checks": checks,
    "not_applicable": na,
    "notes": "See DESIGN.md. known_findings.json lists recorded defects and fixed ones.",
}
json.dump(m, open(os.path.join(V, "MANIFEST.json"), "w"), indent=1)
print("claimed", len(checks), "not_applicable", len(na))
