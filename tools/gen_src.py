#!/venv/bin/python
"""T0 translator: regenerates coq/Gen/Src.v from the Python SOURCE TEXT of /repo on every run.

A shallow, fail-closed translation of a Python subset into Gallina over the value universe of
coq/Py/Val.v: every expression becomes a term of type [pr pv] (value | Python exception | not
modelled), statements are translated in continuation style (early returns, if-chains, local and
subscript / attribute assignment, try/except, for-loops without break).  Anything outside the
subset aborts the generation (GenError -> the check reports a broken tie).

What is assumed rather than translated (part of the trusted base, see DESIGN.md):
  * calls on a logger and the construction of exception messages have no effect and do not raise;
    their arguments are restricted syntactically (names, constants, attribute reads, str()/len()/
    format() of those, %-formatting, f-strings) and a variable bound to a formatted text may be used
    nowhere else;
  * `self.NAME` where NAME is a class-level int / str / bool / None constant is replaced by the value
    the class has on import (per concrete class: an inherited method is re-translated for every
    class in SPEC, so overriding constants and methods are resolved as Python's MRO does);
  * tuples are modelled as lists.
"""
import ast
import hashlib
import importlib
import inspect
import json
import os
import sys
import textwrap

sys.path.insert(0, os.path.join(os.path.dirname(os.path.abspath(__file__)), "..", "harness"))
import env  # noqa: E402

OUT = os.path.join(env.VERIF, "coq", "Gen")


class GenError(Exception):
    pass


NOTCONST = object()


def need(c, msg, node=None):
    if not c:
        where = " (line %s)" % getattr(node, "lineno", "?") if node is not None else ""
        raise GenError(msg + where)


# ---- what to translate: (module, class or None, function names) --------------------------------
SPEC = [
    ("comm.utils", None, ["is_hex_string_of_length", "is_nonempty_hex_string", "has_nonempty_hex_field",
                          "has_hex_field_of_length", "has_field_of_type", "normalize_hex_string"]),
    ("comm.bip32", "BIP32Element", ["__init__"]),
    ("comm.bip32", "BIP32Path", ["__init__"]),
    ("comm.protocol", "HSM2Protocol", [
        "format_error", "_invalid_request", "_wrong_version", "_command_unknown", "device_error",
        "unknown_error", "_version",
        "_validate_key_id", "_validate_auth", "_validate_message", "_validate_get_pubkey",
        "_validate_sign", "_validate_advance_blockchain", "_validate_update_ancestor_block",
        "_validate_signer_heartbeat", "_validate_ui_heartbeat",
        "__internal_handle_request"]),
    ("comm.protocol_v1", "HSM1Protocol", [
        "format_error", "_invalid_request", "_wrong_version", "_command_unknown", "device_error",
        "unknown_error", "_version",
        "_validate_key_id", "_validate_get_pubkey", "_validate_sign",
        "__internal_handle_request"]),
    ("ledger.version", "HSM2FirmwareVersion", ["__init__", "supports", "__ge__", "__eq__"]),
    ("ledger.pin", "BasePin", ["is_valid"]),
    ("admin.certificate_v1", "HSMCertificate", ["validate_and_get_values"]),
    ("admin.certificate_v2", "HSMCertificateV2", ["validate_and_get_values"]),
    ("ledger.hsm2dongle", "_Error", ["is_user_defined_error"]),
    ("ledger.signature", "HSM2DongleSignature", ["__init__"]),
    ("ledger.parameters", "HSM2FirmwareParameters", ["__init__", "from_dongle_format"]),
    ("admin.utils", None, ["hex_or_decimal_string_to_int"]),
    ("admin.ledger_utils", None, ["encode_eth_message"]),
    ("admin.signer_authorization", "SignerVersion", ["__init__", "msg", "get_authorization_msg", "to_dict"]),
]

# second backend: functions that talk to the device / carry manager state, translated into the device monad
# of Model/ValM.v (module MV): (module, class, [method names])
SPEC_M = [
    ("ledger.hsm2dongle", "HSM2Dongle", [
        "get_current_mode", "is_onboarded", "echo", "get_version", "get_retries", "get_signer_parameters",
        "exit_menu", "exit_app", "get_public_key", "send_command", "sign_unauthorized",
        "_send_data_in_chunks"]),
]
SPEC_M.append(("ledger.hsm2dongle", "HSM2Dongle", ["reset_advance_blockchain", "sign_authorized"]))
SPEC_M.append(("ledger.hsm2dongle", "HSM2Dongle", ["_send_pin", "unlock", "new_pin", "onboard", "authorize_signer"]))
# functions of the repository that are thin wrappers around a third-party library: pure oracles
ORACLE_FUNCS = {("comm.bitcoin", "encode_varint"),
                # block_utils / pow: wrappers around the rlp package and the SHA-256 midstate code; their own models
                # (Model/Rlp.v, Model/BlockOps.v, Model/Sha256.v) are tied by T2, here they are oracles
                ("ledger.block_utils", "rlp_mm_payload_size"), ("ledger.block_utils", "get_coinbase_txn"),
                ("ledger.block_utils", "get_block_hash"), ("ledger.block_utils", "remove_mm_fields_if_present"),
                ("comm.pow", "coinbase_tx_get_hash"),
                # python-bitcoinlib wrappers (modelled in Model/BtcTx.v, tied by T2; here oracles)
                ("comm.bitcoin", "get_unsigned_tx"), ("comm.bitcoin", "get_tx_hash")}
SPEC_M.append(("ledger.protocol", "HSM2ProtocolLedger", [
    "report_comm_issue", "_error", "ensure_connection", "_get_pubkey", "_reset_advance_blockchain"]))
SPEC_M.append(("ledger.hsm2dongle", "HSM2Dongle", [
    "_send_block_header", "_do_block_operation", "advance_blockchain", "update_ancestor"]))
SPEC_M.append(("ledger.hsm2dongle", "HSM2Dongle", ["get_blockchain_state"]))
SPEC_M.append(("ledger.protocol", "HSM2ProtocolLedger", ["_sign"]))
# properties of objects whose class the code does not name but whose property name identifies it (pure code)
PROP_CLASS = {"r": ("ledger.signature", "HSM2DongleSignature"), "s": ("ledger.signature", "HSM2DongleSignature")}
SPEC_M.append(("ledger.protocol", "HSM2ProtocolLedger", ["_blockchain_state"]))
SPEC_M.append(("ledger.protocol", "HSM2ProtocolLedger", [
    "_translate_advance_result", "_translate_update_ancestor_result", "_translate_sign_error",
    "_advance_blockchain", "_update_ancestor_block"]))
SPEC_M.append(("ledger.protocol", "HSM2ProtocolLedger", [
    "_check_version", "_wait_and_reconnect", "_handle_bootloader", "initialize_device"]))
SPEC_M.append(("ledger.hsm2dongle_cmds.signer_heartbeat", "HSM2SignerHeartbeat", ["send", "run"]))
SPEC_M.append(("ledger.hsm2dongle_cmds.ui_heartbeat", "HSM2UIHeartbeat", ["send", "run"]))
SPEC_M.append(("ledger.hsm2dongle", "HSM2Dongle", ["get_signer_heartbeat", "get_ui_heartbeat"]))
SPEC_M.append(("ledger.protocol", "HSM2ProtocolLedger", ["_signer_heartbeat", "_ui_heartbeat"]))
SPEC_M.append(("ledger.protocol", "HSM2ProtocolLedger", ["_get_blockchain_parameters"]))
SPEC_M.append(("ledger.protocol", "HSM2ProtocolLedger", ["__internal_handle_request"]))
# instance attributes that __init__ sets to fixed objects of another class (command classes)
INSTANCE_ALIAS = {
    ("HSM2SignerHeartbeat", "Offset"): ("ledger.hsm2dongle", "HSM2Dongle", "OFF"),
    ("HSM2UIHeartbeat", "Offset"): ("ledger.hsm2dongle", "HSM2Dongle", "OFF"),
    ("HSM2SignerHeartbeat", "ErrorResult"): ("ledger.hsm2dongle", "HSM2Dongle", "ErrorResult"),
    ("HSM2UIHeartbeat", "ErrorResult"): ("ledger.hsm2dongle", "HSM2Dongle", "ErrorResult"),
    ("PowHsmAttestation", "Offset"): ("ledger.hsm2dongle", "HSM2Dongle", "OFF"),
    ("PowHsmAttestation", "ErrorResult"): ("ledger.hsm2dongle", "HSM2Dongle", "ErrorResult"),
}
SPEC_M.append(("ledger.protocol_v1", "HSM1ProtocolLedger", [
    "_error", "_translate_sign_error", "_get_pubkey", "_sign"]))
SPEC_M.append(("ledger.protocol_v1", "HSM1ProtocolLedger", ["__internal_handle_request"]))
SPEC_M.append(("sgx.hsm2dongle", "HSM2DongleSGX", ["echo", "unlock", "new_pin", "get_retries", "onboard"]))
SPEC_M.append(("ledger.hsm2dongle_cmds.powhsm_attestation", "PowHsmAttestation", ["send", "run"]))
SPEC_M.append(("ledger.hsm2dongle", "HSM2Dongle", ["get_ui_attestation", "get_powhsm_attestation"]))
SPEC_M.append(("ledger.hsm2dongle", "HSM2Dongle", ["_send_command"]))
# attributes of self that hold another translated object: (class, attribute) -> (module, class)
ATTR_CLASS = {("HSM2SignerHeartbeat", "dongle"): ("ledger.hsm2dongle", "HSM2Dongle"),
              ("PowHsmAttestation", "dongle"): ("ledger.hsm2dongle", "HSM2Dongle"),
              ("HSM2UIHeartbeat", "dongle"): ("ledger.hsm2dongle", "HSM2Dongle"),
              ("HSM1ProtocolLedger", "hsm2dongle"): ("ledger.hsm2dongle", "HSM2Dongle"),
              ("HSM1ProtocolLedger", "protocol_v2"): ("ledger.protocol", "HSM2ProtocolLedger"),
              ("HSM2ProtocolLedger", "hsm2dongle"): ("ledger.hsm2dongle", "HSM2Dongle"),
              ("HSM2ProtocolLedger", "pin"): ("ledger.pin", "FileBasedPin")}
# fields known to hold a member of an IntEnum (set by a translated constructor from EnumClass(value))
ENUM_FIELD = {"network": ("ledger.parameters", "_Network")}
# methods of objects whose class the code does not name but whose method name identifies it (pure code)
METHOD_CLASS = {"supports": ("ledger.version", "HSM2FirmwareVersion")}
# methods that are primitives of the device monad rather than translated
PRIM_M = {("HSM2Dongle", "disconnect"): "m_disconnect", ("HSM2Dongle", "connect"): "m_connect",
          ("FileBasedPin", "get_pin"): "m_pin_get_pin", ("FileBasedPin", "needs_change"): "m_pin_needs_change",
          ("FileBasedPin", "get_new_pin"): "m_pin_get_new_pin", ("FileBasedPin", "start_change"): "m_pin_start_change",
          ("FileBasedPin", "commit_change"): "m_pin_commit_change",
          ("FileBasedPin", "abort_change"): "m_pin_abort_change"}
# methods kept abstract (a parameter of type pm pv): the bring-up, which has its own model and theorems
ABSTRACT_M = {("HSM2ProtocolLedger", "initialize_device"): "initialize_device_"}
# attributes of self that live in the world
STATE_ATTR = {("HSM2ProtocolLedger", "_comm_issue"): ("m_get_comm_issue", "m_set_comm_issue")}
# exception classes of the middleware: Python class name -> constructor of Model/Device.v's exn
XEXC = {"HSM2DongleError": "DongleError", "HSM2DongleTimeoutError": "DongleTimeout",
        "HSM2DongleCommError": "DongleComm", "HSM2ProtocolError": "ProtocolError",
        "HSM2ProtocolInterrupt": "ProtocolInterrupt"}
# classes outside the generated dongle hierarchy: the ids Model/Device.v's exn_class gives them
XCLS_ID = {"HSM2ProtocolError": 200, "HSM2ProtocolInterrupt": 201}
XCLS = {"HSM2DongleError", "HSM2DongleTimeoutError", "HSM2DongleCommError", "HSM2DongleErrorResult",
        "HSM2DongleBaseError"}

EXC = {"Exception": "OtherExc", "ValueError": "ValueError", "TypeError": "TypeError", "IndexError": "IndexError",
       "OverflowError": "OverflowError", "KeyError": "KeyError", "NotImplementedError": "NotImplementedErr",
       "AttributeError": "AttributeError"}
TYPES = {"dict": "TDict", "str": "TStr", "int": "TInt", "list": "TList", "bytes": "TBytes",
         "bool": "TBool", "float": "TFloat"}
LOGGER_NAMES = {"logger", "_logger", "LOGGER"}
# classes of exception objects the transport hands over, compared by exact type in the source
OBJ_CLASSES = {"CommException", "BaseException", "OSError"}
EXTRA_TYPES = {"op_": "pv -> pv -> pr pv", "int_oracle_": "str -> Z -> option Z", "fuel_": "nat",
               "call_method_": "string -> pv -> list pv -> pr pv", "initialize_device_": "pm pv"}
EXTRA_ORDER = ["fuel_", "int_oracle_", "call_method_", "initialize_device_", "op_"]


def coq_string(x):
    need(all(32 <= ord(c) < 127 and c != '"' for c in x), "string literal not plain ASCII: %r" % x)
    return '"%s"' % x


def coq_str_val(x):
    if all(32 <= ord(c) < 127 and c != '"' for c in x):
        return '(s "%s")' % x
    return "[" + "; ".join("%d" % ord(c) for c in x) + "]%N"


def const_val(v):
    """Gallina pv literal of a Python constant (None if not representable)."""
    if v is None:
        return "VNone"
    if v is True or v is False:
        return "(VBool %s)" % ("true" if v else "false")
    if isinstance(v, int):
        return "(VInt (%d)%%Z)" % v
    if isinstance(v, str):
        return "(VStr %s)" % coq_str_val(v)
    if isinstance(v, bytes):
        return "(VBytes [%s]%%N)" % "; ".join("%d" % b for b in v)
    return None


def ident(x):
    return "".join(c if (c.isalnum() or c == "_") else "_" for c in x)


class Module:
    def __init__(self, name):
        self.name = name
        self.mod = importlib.import_module(name)
        self.path = inspect.getsourcefile(self.mod)
        self.src = open(self.path).read()
        self.tree = ast.parse(self.src)
        self.funcs = {n.name: n for n in self.tree.body if isinstance(n, ast.FunctionDef)}
        self.classes = {n.name: n for n in self.tree.body if isinstance(n, ast.ClassDef)}
        # names assigned exactly once at module level to a literal of a simple type
        cnt, lit = {}, {}
        for n in self.tree.body:
            if isinstance(n, ast.Assign):
                for t in n.targets:
                    if isinstance(t, ast.Name):
                        cnt[t.id] = cnt.get(t.id, 0) + 1
                        if isinstance(n.value, ast.Constant) and isinstance(n.value.value, (bytes, str, int)) \
                                and not isinstance(n.value.value, bool):
                            lit[t.id] = n.value.value
        self.consts = {k_: v_ for k_, v_ in lit.items() if cnt[k_] == 1}
        # names imported from other modules of the repository: local name -> (module, name)
        self.imports = {}
        for n in self.tree.body:
            if isinstance(n, ast.ImportFrom) and n.module:
                base = n.module
                if n.level:
                    pkg = name.rsplit(".", n.level)[0]
                    base = pkg + "." + n.module
                for a in n.names:
                    self.imports[a.asname or a.name] = (base, a.name)


MODULES = {}


def module(name):
    if name not in MODULES:
        MODULES[name] = Module(name)
    return MODULES[name]


def find_method(cls):
    """name -> (defining class object, FunctionDef) following the MRO, from source text."""
    out = {}
    for c in reversed(cls.__mro__):
        if c is object or c.__module__ in ("builtins",):
            continue
        try:
            m = module(c.__module__)
        except Exception:
            continue
        cd = m.classes.get(c.__name__)
        if cd is None:
            continue
        for n in cd.body:
            if isinstance(n, ast.FunctionDef):
                out[n.name] = (c, n, m)
    return out


class Gen:
    def __init__(self, backend="P", pure=None):
        self.backend = backend  # "P": pure kit (Py/Val.v) ; "M": device monad (Model/ValM.v, module MV)
        self.pure = pure        # the pure generator, for calls from monadic code into pure translated code
        self.prefix = "src_" if backend == "P" else "srcm_"
        self.defs = []          # (coq name, text) in emission order
        self.done = {}          # key -> coq name
        self.in_progress = set()
        self.manifest = []

    # ----- entry points -----
    def function(self, modname, fname):
        key = (modname, None, fname)
        if key in self.done:
            return self.done[key]
        m = module(modname)
        need(fname in m.funcs, "no function %s in %s" % (fname, modname))
        coqname = "%s%s__%s" % (self.prefix, ident(modname), fname)
        self._translate(key, coqname, m, None, m.funcs[fname], has_self=False)
        return coqname

    def method(self, cls, mname):
        key = (cls.__module__, cls.__name__, mname)
        if key in self.done:
            return self.done[key]
        meths = find_method(cls)
        need(mname in meths, "no method %s in %s" % (mname, cls.__name__))
        _, fd, m = meths[mname]
        coqname = "%s%s__%s" % (self.prefix, cls.__name__, mname)
        self._translate(key, coqname, m, cls, fd, has_self=True)
        return coqname

    def method_st(self, cls, mname):
        """The variant of a method that assigns through a parameter which also RETURNS the final value of
        each such parameter: result = [returned value; parameter ...] (explicit state threading instead of
        Python's aliasing).  Only for methods already known to mutate."""
        fn = self.method(cls, mname)
        need(self.mutates.get(fn), "%s does not assign through a parameter" % fn)
        key = (cls.__module__, cls.__name__, mname, "st")
        if key in self.done:
            return self.done[key]
        _, fd, m = find_method(cls)[mname]
        self._translate(key, fn + "__st", m, cls, fd, has_self=True, st=sorted({i for i, _ in self.mutates[fn]}))
        return fn + "__st"

    def _translate(self, key, coqname, m, cls, fd, has_self, st=None):
        need(key not in self.in_progress, "recursion through %s" % (key,))
        self.in_progress.add(key)
        t = FuncTr(self, m, cls, fd, has_self)
        t.st = st
        body = t.run()
        params = " ".join("(%s : pv)" % p for p in t.coq_params)
        t.extra_params.sort(key=EXTRA_ORDER.index)
        extra = "".join(" (%s : %s)" % (p, EXTRA_TYPES[p]) for p in t.extra_params)
        text = "Definition %s%s %s : %s pv :=\n%s." % (coqname, extra, params, "pr" if self.backend == "P" else "pm",
                                                     textwrap.indent(body, "  "))
        self.in_progress.discard(key)
        self.done[key] = coqname
        self.defs.append((coqname, text))
        seg = ast.get_source_segment(m.src, fd) or ""
        self.manifest.append({"coq": coqname, "module": m.name, "class": cls.__name__ if cls else None,
                              "function": fd.name, "line": fd.lineno,
                              "sha256": hashlib.sha256(seg.encode()).hexdigest()[:16],
                              "extra_params": t.extra_params})
        self.extra = getattr(self, "extra", {})
        self.extra[coqname] = t.extra_params
        self.mutates = getattr(self, "mutates", {})
        self.mutates[coqname] = set(t.mut) | set(t.inherited_mut)

    def emit_raw(self, coqname, text):
        if coqname not in [d[0] for d in self.defs]:
            self.defs.append((coqname, text))


def always_returns(stmts):
    """True if every path through stmts ends in return / raise."""
    for st in stmts:
        if isinstance(st, (ast.Return, ast.Raise)):
            return True
        if isinstance(st, ast.If) and always_returns(st.body) and st.orelse and always_returns(st.orelse):
            return True
        if isinstance(st, ast.Try) and not st.finalbody and not st.orelse:
            if always_returns(st.body) and all(always_returns(h.body) for h in st.handlers):
                return True
    return False


def contains(stmts, kinds):
    for st in stmts:
        for n in ast.walk(st):
            if isinstance(n, kinds):
                return True
    return False


def contains_at_level(stmts, kinds):
    """like contains(), but does not look inside nested loops (their break / continue are their own)"""
    for st in stmts:
        if isinstance(st, kinds):
            return True
        if isinstance(st, (ast.While, ast.For)):
            continue
        for fld in ("body", "orelse", "handlers", "finalbody"):
            sub = getattr(st, fld, None)
            if sub:
                items = []
                for x in sub:
                    items.extend(x.body if isinstance(x, ast.ExceptHandler) else [x])
                if contains_at_level(items, kinds):
                    return True
    return False


def assigned_names(stmts):
    out = []
    for st in stmts:
        for n in ast.walk(st):
            tgt = []
            if isinstance(n, ast.Assign):
                tgt = list(n.targets)
                v = n.value
                if isinstance(v, ast.Call) and isinstance(v.func, ast.Attribute) and v.func.attr == "pop" \
                        and isinstance(v.func.value, ast.Name) and not v.args:
                    tgt.append(v.func.value)
            elif isinstance(n, ast.AugAssign):
                tgt = [n.target]
            elif isinstance(n, ast.For):
                tgt = [n.target]
            elif isinstance(n, ast.Expr) and isinstance(n.value, ast.Call) and isinstance(n.value.func, ast.Attribute) \
                    and n.value.func.attr == "append" and isinstance(n.value.func.value, ast.Name):
                tgt = [n.value.func.value]
            tgt = [x for t in tgt for x in (t.elts if isinstance(t, ast.Tuple) else [t])]
            for t in tgt:
                if isinstance(t, ast.Name) and t.id not in out:
                    out.append(t.id)
                elif isinstance(t, ast.Subscript) and isinstance(t.value, ast.Name) and t.value.id not in out:
                    out.append(t.value.id)
                elif isinstance(t, ast.Attribute) and isinstance(t.value, ast.Name) and t.value.id not in out:
                    out.append(t.value.id)
    return out


class FuncTr:
    def __init__(self, gen, m, cls, fd, has_self):
        self.gen, self.m, self.cls, self.fd, self.has_self = gen, m, cls, fd, has_self
        self.opaque = set()
        self.local_names = set(assigned_names(fd.body)) | {a.arg for a in fd.args.args}
        self.tainted = {}       # variable -> keys a callee replaced in place (aliasing is not modelled)
        self.inherited_mut = set()
        self.mut = set()        # (parameter index, key) this function assigns through a parameter
        self.tmp = 0
        self.extra_params = []
        a = fd.args
        need(not a.vararg and not a.kwarg and not a.kwonlyargs and not a.posonlyargs, "signature shape", fd)
        self.params = [x.arg for x in a.args]
        self.is_classmethod = any(isinstance(d, ast.Name) and d.id == "classmethod" for d in fd.decorator_list)
        need(all(isinstance(d, ast.Name) and d.id in ("classmethod", "staticmethod", "property")
                 for d in fd.decorator_list), "decorator", fd)
        if any(isinstance(d, ast.Name) and d.id == "staticmethod" for d in fd.decorator_list):
            has_self = self.has_self = False
        self.local_funcs = {}
        self.M = gen.backend == "M"
        self.excvars = set()     # names bound by `except ... as e` (monadic backend: Coq variables of type exn)
        self.ret_stack = []
        self.loop_tups = []
        self.selfname = self.params[0] if has_self else None
        self.coq_params = [self.v(p) for p in self.params]
        self.is_init = fd.name == "__init__"

    def v(self, name):
        return "v_" + ident(name)

    def fresh(self):
        self.tmp += 1
        return "t%d_" % self.tmp

    def run(self):
        body = list(self.fd.body)
        if body and isinstance(body[0], ast.Expr) and isinstance(body[0].value, ast.Constant) \
                and isinstance(body[0].value.value, str):
            body = body[1:]
        end = "POk %s" % self.v(self.selfname) if self.is_init else "POk VNone"
        if getattr(self, "st", None):
            outs = "; ".join(self.v(self.params[i]) for i in self.st)
            wrap = lambda e: "pbind (%s) (fun rv_ => POk (VList [rv_; %s]))" % (e, outs)
            return self.stmts(body, wrap(end), wrap)
        return self.stmts(body, end, lambda e: e)

    # ----- statements.  k: Gallina text of what follows; ret: wraps the text of a returned value -----
    def stmts(self, sts, k, ret):
        if not sts:
            return k
        st, rest = sts[0], sts[1:]
        if isinstance(st, ast.Return):
            if st.value is None:
                return ret("POk VNone")
            return ret(self.expr(st.value))
        if isinstance(st, ast.Pass):
            return self.stmts(rest, k, ret)
        if isinstance(st, ast.FunctionDef):
            need(not st.args.args and always_returns(st.body) and not contains(st.body, (ast.Return,)),
                 "nested function that is not a parameterless raising helper", st)
            self.local_funcs[st.name] = st
            return self.stmts(rest, k, ret)
        if isinstance(st, ast.Raise) and self.M and isinstance(st.exc, ast.Name) and st.exc.id in self.excvars:
            return "PRaiseX e_%s" % ident(st.exc.id)
        if isinstance(st, ast.Raise) and self.M and isinstance(st.exc, ast.Call) and isinstance(st.exc.func, ast.Name) \
                and st.exc.func.id == "HSM2DongleErrorResult" and len(st.exc.args) == 1 and not st.exc.keywords:
            return self.binds(list(st.exc.args), lambda a: "m_raise_error_result %s" % a[0])
        if isinstance(st, ast.Raise):
            if isinstance(st.exc, ast.Call) and any(self.fmt_raises(a) for a in st.exc.args):
                return "PRaise TypeError"
            x = self.exc_of(st)
            return ("PRaiseX %s" % x[2:]) if x.startswith("@X") else ("PRaise %s" % x)
        if isinstance(st, ast.Expr):
            lc = self.is_log_call(st.value)
            if lc:
                need(not any(self.fmt_raises(a) for a in st.value.args), "eagerly formatted log text with an arity mismatch", st)
            if lc == "unsafe":
                # a log call one of whose arguments is a computation that may raise: the arguments are
                # evaluated in order for that effect, their values are dropped
                uns = [a for a in st.value.args if not self.safe_arg(a)]
                return self.binds(uns, lambda n: self.stmts(rest, k, ret))
            if lc:
                return self.stmts(rest, k, ret)
            v_ = st.value
            if isinstance(v_, ast.Call) and isinstance(v_.func, ast.Attribute) and isinstance(v_.func.value, ast.Name) \
                    and v_.func.value.id == "time" and v_.func.attr == "sleep":
                need(all(self.safe_arg(a) for a in v_.args), "time.sleep argument", st)
                return self.stmts(rest, k, ret)          # waiting has no effect the model keeps
            if isinstance(st.value, ast.Constant):
                return self.stmts(rest, k, ret)
            c_ = st.value
            if isinstance(c_, ast.Call) and isinstance(c_.func, ast.Attribute) and c_.func.attr == "append" \
                    and isinstance(c_.func.value, ast.Name) and len(c_.args) == 1 and not c_.keywords:
                n = self.v(c_.func.value.id)
                t = self.fresh()
                return "pbind (%s) (fun %s => pbind (py_list_append %s %s) (fun %s =>\n%s))" % (
                    self.expr(c_.args[0]), t, n, t, n, self.stmts(rest, k, ret))
            if isinstance(st.value, ast.Call) and isinstance(st.value.func, ast.Name) \
                    and st.value.func.id in self.local_funcs and not st.value.args:
                return self.stmts(self.local_funcs[st.value.func.id].body, "PStuck", ret)
            # a call evaluated for its effect
            c2 = st.value
            if isinstance(c2, ast.Call) and isinstance(c2.func, ast.Attribute) and isinstance(c2.func.value, ast.Name) \
                    and c2.func.value.id == self.selfname and self.cls is not None:
                meths = find_method(self.cls)
                if c2.func.attr in meths and always_returns(meths[c2.func.attr][1].body) \
                        and not contains(meths[c2.func.attr][1].body, (ast.Return,)):
                    # a method that always raises (self._error(...)): nothing follows it
                    return "pbind (%s) (fun _ => PStuck)" % self.expr(st.value)
            return "pbind (%s) (fun _ => %s)" % (self.expr(st.value), self.stmts(rest, k, ret))
        if isinstance(st, ast.If):
            # translate in execution order (the alias checks depend on it): test, branches, then the rest
            test = self.expr(st.test)
            tok = "@K%d@" % id(st)
            then_ = self.stmts(st.body, tok, ret)
            else_ = self.stmts(st.orelse, tok, ret) if st.orelse else tok
            kk = self.stmts(rest, k, ret)
            return ("pif (%s)\n  (%s)\n  (%s)" % (test, then_, else_)).replace(tok, kk)
        if isinstance(st, ast.Assign):
            need(len(st.targets) == 1, "multiple assignment targets", st)
            return self.assign(st.targets[0], st.value, rest, k, ret, st)
        if isinstance(st, ast.AugAssign) and isinstance(st.target, ast.Subscript) and isinstance(st.target.value, ast.Name) \
                and isinstance(st.op, ast.Add) and not isinstance(st.target.slice, ast.Slice):
            # d[k] += x : the key is evaluated once, the item read, the sum stored back
            need(st.target.value.id not in self.params, "augmented assignment through a parameter", st)
            n = self.v(st.target.value.id)
            kt, ot, t, nt = self.fresh(), self.fresh(), self.fresh(), self.fresh()
            return ("pbind (%s) (fun %s => pbind (py_getitem %s %s) (fun %s => pbind (%s) (fun %s => pbind (py_add %s %s) (fun %s => "
                    "pbind (py_setitem %s %s %s) (fun %s =>\n%s)))))" % (
                        self.expr(st.target.slice), kt, n, kt, ot, self.expr(st.value), t, ot, t, nt, n, kt, nt, n,
                        self.stmts(rest, k, ret)))
        if isinstance(st, ast.AugAssign):
            need(isinstance(st.target, ast.Name) and isinstance(st.op, (ast.Add, ast.Sub)), "augmented assignment", st)
            op = "py_add" if isinstance(st.op, ast.Add) else "py_sub"
            t = self.fresh()
            n = self.v(st.target.id)
            return "pbind (%s) (fun %s => pbind (%s %s %s) (fun %s =>\n%s))" % (
                self.expr(st.value), t, op, n, t, n, self.stmts(rest, k, ret))
        if isinstance(st, ast.While):
            return self.while_(st, rest, k, ret)
        if isinstance(st, ast.Break):
            need(self.loop_tups and self.loop_tups[-1] != "@none", "break outside a translated loop", st)
            if self.loop_tups[-1].startswith("@M"):
                return "POk (VList [VInt 1%%Z; %s])" % self.loop_tups[-1][2:]
            return "POk (VList [VBool false; %s])" % self.loop_tups[-1]
        if isinstance(st, ast.Try):
            return self.try_(st, rest, k, ret)
        if isinstance(st, ast.For):
            return self.for_(st, rest, k, ret)
        need(False, "statement %s not in the translated subset" % type(st).__name__, st)

    def assign(self, tgt, value, rest, k, ret, st):
        if isinstance(tgt, ast.Name) and isinstance(value, ast.Call) and isinstance(value.func, ast.Attribute) \
                and value.func.attr == "pop" and isinstance(value.func.value, ast.Name) and not value.args:
            lst = self.v(value.func.value.id)
            return ("pbind (py_list_pop %s) (fun p_ => match p_ with VList [%s; %s] =>\n%s\n | _ => PStuck end)"
                    % (lst, self.v(tgt.id), lst, self.stmts(rest, k, ret)))
        if isinstance(tgt, ast.Name) and getattr(self, "st", None) and isinstance(value, ast.Call) \
                and isinstance(value.func, ast.Attribute) and isinstance(value.func.value, ast.Name) \
                and value.func.value.id == self.selfname and self.cls is not None \
                and value.func.attr in find_method(self.cls) and not self.M:
            fn0 = self.gen.method(self.cls, value.func.attr)
            mut = sorted({i for i, _ in self.gen.mutates.get(fn0, ())})
            if mut:
                fd2 = find_method(self.cls)[value.func.attr][1]
                args = self.resolve_callee_args(fd2, value, True)
                need(all(isinstance(args[i - 1], ast.Name) for i in mut), "argument mutated by %s is not a plain variable" % fn0, st)
                fn = self.gen.method_st(self.cls, value.func.attr)
                outs = "; ".join(self.v(args[i - 1].id) for i in mut)
                return self.binds(args, lambda a: "pbind (%s %s %s) (fun p_ => match p_ with VList [%s; %s] =>\n%s\n | _ => PStuck end)" % (
                    fn, self.v(self.selfname), " ".join(a), self.v(tgt.id), outs, self.stmts(rest, k, ret)))
        if isinstance(tgt, ast.Name) and self.M and isinstance(value, ast.Call) and isinstance(value.func, ast.Subscript) \
                and isinstance(value.func.value, ast.Attribute) and isinstance(value.func.value.value, ast.Name) \
                and value.func.value.value.id == self.selfname and value.func.value.attr == "_validation_mappings" \
                and len(value.args) == 1 and isinstance(value.args[0], ast.Name):
            # the validators replace items of the request in place: the handler that follows must see them
            mp = self.pure_mappings()
            rq = self.v(value.args[0].id)
            return self.binds([value.func.slice], lambda a: "pbind (lift (%s %s %s %s)) (fun p_ => match p_ with VList [%s; %s] =>\n%s\n | _ => PStuck end)" % (
                mp["dispatch_st"], self.v(self.selfname), a[0], rq, self.v(tgt.id), rq, self.stmts(rest, k, ret)))
        is_opaque = self.is_opaque_expr(value)
        if isinstance(tgt, ast.Name):
            if is_opaque and self.fmt_raises(value):
                return "PRaise TypeError"
            if is_opaque:
                self.opaque.add(tgt.id)
                return self.stmts(rest, k, ret)
            self.opaque.discard(tgt.id)
            return "pbind (%s) (fun %s =>\n%s)" % (self.expr(value), self.v(tgt.id), self.stmts(rest, k, ret))
        need(not is_opaque, "formatted text stored outside a local variable", st)
        if isinstance(tgt, ast.Subscript) and isinstance(tgt.value, ast.Name):
            t = self.fresh()
            n = self.v(tgt.value.id)
            key = self.expr(tgt.slice)
            kt = self.fresh()
            if tgt.value.id in self.params:
                kc = tgt.slice.value if isinstance(tgt.slice, ast.Constant) else None
                self.mut.add((self.params.index(tgt.value.id), kc))
            return "pbind (%s) (fun %s => pbind (%s) (fun %s => pbind (py_setitem %s %s %s) (fun %s =>\n%s)))" % (
                self.expr(value), t, key, kt, n, kt, t, n, self.stmts(rest, k, ret))
        if self.M and isinstance(tgt, ast.Attribute) and isinstance(tgt.value, ast.Name) \
                and tgt.value.id == self.selfname and self.cls is not None \
                and (self.cls.__name__, tgt.attr) in STATE_ATTR:
            t = self.fresh()
            return "pbind (%s) (fun %s => pbind (%s %s) (fun _ =>\n%s))" % (
                self.expr(value), t, STATE_ATTR[(self.cls.__name__, tgt.attr)][1], t, self.stmts(rest, k, ret))
        if isinstance(tgt, ast.Attribute) and isinstance(tgt.value, ast.Name) and tgt.value.id == self.selfname:
            t = self.fresh()
            n = self.v(self.selfname)
            return "pbind (%s) (fun %s => pbind (py_setattr %s %s %s) (fun %s =>\n%s))" % (
                self.expr(value), t, n, coq_string(tgt.attr), t, n, self.stmts(rest, k, ret))
        need(False, "assignment target", st)

    def is_exchange_call(self, e):
        return isinstance(e, ast.Call) and isinstance(e.func, ast.Attribute) and e.func.attr == "exchange" \
            and isinstance(e.func.value, ast.Attribute) and e.func.value.attr == "dongle" \
            and isinstance(e.func.value.value, ast.Name) and e.func.value.value.id == self.selfname

    def transport_try(self, st, rest, k, ret):
        """try: ...; result = self.dongle.exchange(apdu, timeout=...); ...  except (..., BaseException) as e: <body>
        The transport is a primitive (m_exchange) that yields the data or the exception OBJECT it raises; the
        handler's body is translated like any other code, with `e` an ordinary variable holding that object.
        The other statements of the try body may not raise (struct.pack is a primitive that leaves the subset
        instead; log arguments are evaluated)."""
        need(len(st.handlers) == 1 and not st.orelse and not st.finalbody, "transport try shape", st)
        h = st.handlers[0]
        types = [h.type] if not isinstance(h.type, ast.Tuple) else list(h.type.elts)
        need(h.name and any(isinstance(t, ast.Name) and t.id == "BaseException" for t in types),
             "transport try must catch BaseException by name", st)
        idx = [i for i, b in enumerate(st.body) if isinstance(b, ast.Assign) and self.is_exchange_call(b.value)]
        need(len(idx) == 1 and len(st.body[idx[0]].targets) == 1 and isinstance(st.body[idx[0]].targets[0], ast.Name),
             "exactly one `x = self.dongle.exchange(...)` in the try body", st)
        i = idx[0]
        call = st.body[i].value
        need(len(call.args) == 1 and all(k_.arg == "timeout" for k_ in call.keywords), "exchange arguments", call)
        for b in st.body[:i] + st.body[i + 1:]:
            need(isinstance(b, ast.Expr) and self.is_log_call(b.value) or
                 (isinstance(b, ast.Assign) and isinstance(b.value, ast.Call) and isinstance(b.value.func, ast.Attribute)
                  and isinstance(b.value.func.value, ast.Name) and b.value.func.value.id == "struct"
                  and b.value.func.attr == "pack"), "statement that may raise inside the transport try", b)
        res = self.v(st.body[i].targets[0].id)
        ev = self.v(h.name)
        self.local_names.add(h.name)
        after = self.stmts(st.body[i + 1:] + rest, k, ret)
        hb = self.stmts(h.body, "PStuck", ret)
        need(always_returns(h.body), "transport handler that falls through", h)
        mid = self.binds([call.args[0]], lambda a: (
            "pbind (m_exchange %s) (fun x_ => match x_ with\n   | VList [VInt 0%%Z; %s] =>\n%s\n   | VList [VInt 1%%Z; %s] =>\n%s\n"
            "   | _ => PStuck end)" % (a[0], res, after, ev, hb)))
        return self.stmts(st.body[:i], mid, ret)

    def try_(self, st, rest, k, ret):
        if self.M and any(isinstance(b, ast.Assign) and self.is_exchange_call(b.value) for b in st.body):
            return self.transport_try(st, rest, k, ret)
        need((self.M or not st.finalbody) and not st.orelse and (st.handlers or st.finalbody), "try shape", st)
        kk = "@T%d@" % id(st)
        try:
            return self.try_inner(st, kk, ret).replace(kk, self.stmts(rest, k, ret))
        finally:
            pass

    def try_m(self, st, kk, ret):
        """monadic backend: any mix of returning / falling-through bodies and handlers; results are tagged
        [VInt 2; value] = return from the function, [VInt 1; state] = fell through"""
        if st.finalbody:
            need(len(st.finalbody) == 1 and isinstance(st.finalbody[0], ast.Raise) and not st.orelse,
                 "finally block that is not a single raise", st)
            x = self.exc_of(st.finalbody[0])
            need(x.startswith("@X"), "finally raises a built-in exception", st)
            inner = ast.Try(body=st.body, handlers=st.handlers, orelse=[], finalbody=[])
            ast.copy_location(inner, st)
            body = self.try_m(inner, "POk VNone", lambda e: "pbind (%s) (fun _ => POk VNone)" % e) if st.handlers \
                else self.stmts(st.body, "POk VNone", lambda e: "pbind (%s) (fun _ => POk VNone)" % e)
            return "pfinally_raise (%s) %s" % (body, x[2:])
        def pats_of(h):
            catch_all, pats = False, []
            tys = [] if h.type is None else (h.type.elts if isinstance(h.type, ast.Tuple) else [h.type])
            if h.type is None:
                catch_all = True
            for t in tys:
                if isinstance(t, ast.Attribute):
                    o_ = self.chain_const(t)
                    need(o_ is not NOTCONST and isinstance(o_, type), "handler type", h)
                    t = ast.Name(id=o_.__name__)
                need(isinstance(t, ast.Name), "handler type", h)
                if t.id in ("Exception", "BaseException"):
                    catch_all = True
                elif t.id in EXC:
                    pats.append("XPy %s" % EXC[t.id])
                elif t.id in XCLS:
                    pats.append("XCls EXC_%s" % t.id)
                elif t.id in XCLS_ID:
                    pats.append("XCls %d" % XCLS_ID[t.id])
                else:
                    need(False, "exception class %s" % t.id, h)
            return catch_all, pats
        names = assigned_names(st.body)
        for h in st.handlers:
            names += [n for n in assigned_names(h.body) if n not in names]
        tup = "VList [%s]" % "; ".join(self.v(n) for n in names)
        init_missing = [n for n in names if n not in self.bound_before(st)]

        def tag_ret(e):
            return "pbind (%s) (fun rv_ => POk (VList [VInt 2%%Z; rv_]))" % e
        fall = "POk (VList [VInt 1%%Z; %s])" % tup
        pre = "".join("pbind (POk VNone) (fun %s =>\n" % self.v(n) for n in init_missing)
        post = ")" * len(init_missing)
        body = self.stmts(st.body, fall, tag_ret)
        # handlers are tried in order; an exception none of them matches propagates
        chain = "PRaiseX e_"
        arms = []
        for h in st.handlers:
            ca, pats = pats_of(h)
            if h.name:
                self.excvars.add(h.name)
            hb = self.stmts(h.body, fall, tag_ret)
            if h.name:
                hb = hb.replace("e_%s" % ident(h.name), "e_")
                self.excvars.discard(h.name)
            arms.append((ca, pats, hb))
        if len(arms) == 1:
            ca, pats, hb = arms[0]
            return ("%sptry_k (%s) %s [%s]\n  (fun e_ => %s)\n  (fun r_ => match r_ with\n"
                    "   | VList [VInt 2%%Z; rv_] => %s\n   | VList [VInt 1%%Z; %s] => %s\n   | _ => PStuck end)%s"
                    % (pre, body, "true" if ca else "false", "; ".join(pats), hb, ret("POk rv_"), tup, kk, post))
        for ca, pats, hb in reversed(arms):
            cond = "true" if ca else "existsb (xpat_matches e_) [%s]" % "; ".join(pats)
            chain = "if %s then (%s)\n    else %s" % (cond, hb, chain)
        return ("%sptry_k (%s) true []\n  (fun e_ => %s)\n  (fun r_ => match r_ with\n"
                "   | VList [VInt 2%%Z; rv_] => %s\n   | VList [VInt 1%%Z; %s] => %s\n   | _ => PStuck end)%s"
                % (pre, body, chain, ret("POk rv_"), tup, kk, post))

    def try_inner(self, st, kk, ret):
        if self.M:
            return self.try_m(st, kk, ret)
        # handlers: class lists
        hs = []
        for h in st.handlers:
            if h.type is None:
                catch_all, classes = True, []
            elif isinstance(h.type, ast.Name) and h.type.id in ("Exception", "BaseException"):
                catch_all, classes = True, []
            elif isinstance(h.type, ast.Name):
                need(h.type.id in EXC, "exception class %s" % h.type.id, h)
                catch_all, classes = False, [EXC[h.type.id]]
            elif isinstance(h.type, ast.Tuple):
                need(all(isinstance(e, ast.Name) and e.id in EXC for e in h.type.elts), "exception tuple", h)
                catch_all, classes = False, [EXC[e.id] for e in h.type.elts]
            else:
                need(False, "handler type", h)
            if h.name:
                self.opaque.add(h.name)       # the exception object: only for messages
            hs.append((catch_all, classes, h))
        need(len(hs) == 1, "more than one handler", st)
        catch_all, classes, h = hs[0]
        cl = "[" + "; ".join(classes) + "]"
        ca = "true" if catch_all else "false"
        if always_returns(st.body):
            need(not contains(st.body, (ast.Try,)), "nested try", st)
            body = self.stmts(st.body, "PStuck", ret)
            hand = self.stmts(h.body, kk, ret)
            # a return inside the body leaves the function: but `ret` of an enclosing try would wrap; we only
            # admit this shape at function level (ret = identity)
            need(ret("X") == "X", "returning try inside a try", st)
            return "ptry (%s) %s %s\n  (%s)" % (body, ca, cl, hand)
        need(not contains(st.body, (ast.Return,)), "try body that both returns and falls through", st)
        names = assigned_names(st.body)
        tup = "VList [%s]" % "; ".join(self.v(n) for n in names)
        body = self.stmts(st.body, "POk (%s)" % tup, lambda e: "PStuck")
        need(always_returns(h.body), "handler that falls through", h)
        hand = self.stmts(h.body, "PStuck", ret)
        return ("match (%s) with\n  | POk (%s) => %s\n  | POk _ => PStuck\n"
                "  | PRaise e_ => if %s || existsb (pyexc_eqb e_) %s then (%s) else PRaise e_\n  | PStuck => PStuck\n  end"
                % (body, tup, kk, ca, cl, hand))

    def bound_before(self, st):
        """names certainly bound when st starts: parameters and targets of earlier (by line) assignments"""
        out = set(self.params)
        for n in ast.walk(self.fd):
            if getattr(n, "lineno", 10 ** 9) < st.lineno:
                if isinstance(n, (ast.Assign, ast.AugAssign, ast.For)):
                    out.update(assigned_names([n]))
        return out

    def init_tuple(self, names, st):
        b = self.bound_before(st)
        return "VList [%s]" % "; ".join(self.v(n) if n in b else "VNone" for n in names)

    def while_m(self, st, rest, k, ret):
        need(not st.orelse and not contains_at_level(st.body, (ast.Continue,)), "while-else / continue", st)
        names = assigned_names(st.body)
        tup = "VList [%s]" % "; ".join(self.v(n) for n in names)
        init = self.init_tuple(names, st)
        if "fuel_" not in self.extra_params:
            self.extra_params.append("fuel_")
        self.loop_tups.append("@M" + tup)
        body = self.stmts(st.body, "POk (VList [VInt 0%%Z; %s])" % tup,
                          lambda e: "pbind (%s) (fun rv_ => POk (VList [VInt 2%%Z; rv_]))" % e)
        self.loop_tups.pop()
        if not (isinstance(st.test, ast.Constant) and st.test.value is True):
            body = "pif (%s)\n  (%s)\n  (POk (VList [VInt 1%%Z; %s]))" % (self.expr(st.test), body, tup)
        kk = self.stmts(rest, k, ret)
        return ("pbind (py_while fuel_ (%s) (fun st_ => match st_ with %s =>\n%s\n | _ => PStuck end))\n"
                "  (fun r_ => match r_ with\n   | VList [VInt 2%%Z; rv_] => %s\n   | VList [VInt 1%%Z; %s] =>\n%s\n"
                "   | _ => PStuck end)" % (init, tup, body, ret("POk rv_"), tup, kk))

    def while_(self, st, rest, k, ret):
        if self.M:
            return self.while_m(st, rest, k, ret)
        need(isinstance(st.test, ast.Constant) and st.test.value is True and not st.orelse,
             "while loop that is not `while True:`", st)
        need(not contains(st.body, (ast.Return, ast.Continue)), "return / continue inside a while loop", st)
        names = assigned_names(st.body)
        tup = "VList [%s]" % "; ".join(self.v(n) for n in names)
        init = self.init_tuple(names, st)
        if "fuel_" not in self.extra_params:
            self.extra_params.append("fuel_")
        self.loop_tups.append(tup)
        body = self.stmts(st.body, "POk (VList [VBool true; %s])" % tup, lambda e: "PStuck")
        self.loop_tups.pop()
        kk = self.stmts(rest, k, ret)
        return ("pbind (py_loop fuel_ (%s) (fun st_ => match st_ with %s =>\n%s\n | _ => PStuck end))\n"
                "  (fun st_ => match st_ with %s =>\n%s\n | _ => PStuck end)" % (init, tup, body, tup, kk))

    def for_(self, st, rest, k, ret):
        need(not st.orelse, "for-else", st)
        need(not contains_at_level(st.body, (ast.Continue,)), "continue in a for loop", st)
        breaking = contains_at_level(st.body, (ast.Break,))
        need(self.M or not breaking, "break in a for loop", st)
        returning = contains(st.body, (ast.Return,)) or breaking
        need(self.M or not returning, "for body returns", st)
        if isinstance(st.target, ast.Name):
            tnames = [st.target.id]
            tpat = self.v(st.target.id)
        else:
            need(isinstance(st.target, ast.Tuple) and all(isinstance(x, ast.Name) for x in st.target.elts), "for target", st)
            tnames = [x.id for x in st.target.elts]
            tpat = None
        names = [n for n in assigned_names(st.body) if n not in tnames]
        tup = "VList [%s]" % "; ".join(self.v(n) for n in names)
        init_tup = self.init_tuple(names, st)
        it = self.fresh()
        itx = self.expr(st.iter)
        if returning:
            self.loop_tups.append("@M" + tup if breaking else "@none")
            body = self.stmts(st.body, "POk (VList [VInt 0%%Z; %s])" % tup,
                              lambda e: "pbind (%s) (fun rv_ => POk (VList [VInt 2%%Z; rv_]))" % e)
            self.loop_tups.pop()
        else:
            self.loop_tups.append("@none")
            body = self.stmts(st.body, "POk (%s)" % tup, lambda e: "PStuck")
            self.loop_tups.pop()
        if tpat is None:
            body = "match x_ with VList [%s] => %s | _ => PStuck end" % ("; ".join(self.v(n) for n in tnames), body)
            tpat = "x_"
        kk = self.stmts(rest, k, ret)
        if returning:
            return ("pbind (%s) (fun %s => pbind (%s %s (%s) (fun st_ %s => match st_ with %s => %s | _ => PStuck end))\n"
                    "  (fun r_ => match r_ with\n   | VList [VInt 2%%Z; rv_] => %s\n   | VList [VInt 1%%Z; %s] => %s\n"
                    "   | _ => PStuck end))" % (itx, it, "py_for_tb" if breaking else "py_for_t", it, init_tup, tpat, tup,
                                                 body, ret("POk rv_"), tup, kk))
        return ("pbind (%s) (fun %s => pbind (py_for %s (%s) (fun st_ %s => match st_ with %s => %s | _ => PStuck end))\n"
                "  (fun st_ => match st_ with %s => %s | _ => PStuck end))"
                % (itx, it, it, init_tup, tpat, tup, body, tup, kk))

    # ----- helpers -----
    def exc_of(self, st):
        e = st.exc
        need(e is not None, "bare raise", st)
        if isinstance(e, ast.Call):
            need(all(self.safe_arg(a) for a in e.args) and not e.keywords, "exception arguments", st)
            e = e.func
        if self.M and isinstance(e, ast.Name) and e.id in XEXC:
            return "@X" + XEXC[e.id]
        need(isinstance(e, ast.Name) and e.id in EXC, "raised class", st)
        return EXC[e.id]

    def is_log_call(self, e):
        if not isinstance(e, ast.Call) or not isinstance(e.func, ast.Attribute):
            return False
        f = e.func.value
        ok = (isinstance(f, ast.Name) and f.id in LOGGER_NAMES) or \
             (isinstance(f, ast.Attribute) and f.attr in LOGGER_NAMES and isinstance(f.value, ast.Name))
        if ok:
            need(e.func.attr in ("debug", "info", "warning", "error", "critical", "fatal"), "logger method", e)
            need(not e.keywords, "logging keywords", e)
            if not all(self.safe_arg(a) for a in e.args):
                return "unsafe"      # some argument has to be evaluated (it may raise); see stmts
        return ok

    def safe_arg(self, a):
        if isinstance(a, (ast.Constant, ast.Name)):
            return True
        if isinstance(a, ast.Attribute):
            return self.safe_arg(a.value)
        if isinstance(a, ast.Tuple):
            return all(self.safe_arg(x) for x in a.elts)
        if isinstance(a, ast.BinOp) and isinstance(a.op, ast.Mod):
            return self.safe_arg(a.left) and self.safe_arg(a.right)
        if isinstance(a, ast.JoinedStr):
            return all(isinstance(v, ast.Constant) or (isinstance(v, ast.FormattedValue) and self.safe_arg(v.value))
                       for v in a.values)
        if isinstance(a, ast.Call) and isinstance(a.func, ast.Name) and \
                a.func.id in ("str", "len", "format", "repr", "hex", "list", "map", "type"):
            return all(self.safe_arg(x) for x in a.args)
        if isinstance(a, ast.IfExp):
            return self.safe_arg(a.test) and self.safe_arg(a.body) and self.safe_arg(a.orelse)
        if isinstance(a, ast.Call) and isinstance(a.func, ast.Attribute) and isinstance(a.func.value, ast.Name) \
                and a.func.value.id == "Platform" and a.func.attr == "message":
            return all(isinstance(x, ast.Constant) for x in a.args)     # assumed: the platform has been set
        if isinstance(a, ast.BinOp) and isinstance(a.op, ast.Add):
            return self.safe_arg(a.left) and self.safe_arg(a.right)
        if isinstance(a, ast.Subscript):
            return self.safe_arg(a.value)
        if isinstance(a, ast.Call) and isinstance(a.func, ast.Attribute) and \
                a.func.attr in ("hex", "capitalize", "lower", "upper") and not a.args:
            return self.safe_arg(a.func.value)
        return False

    def fmt_raises(self, e):
        """`"text" % args` whose number of conversion specifiers differs from the number of arguments raises
        TypeError when evaluated - the one way the construction of a message does have an effect.  True = it
        certainly raises; undecidable mismatches are rejected."""
        if not (isinstance(e, ast.BinOp) and isinstance(e.op, ast.Mod) and isinstance(e.left, ast.Constant)
                and isinstance(e.left.value, str)):
            return False
        import re as _re
        specs = [m_ for m_ in _re.finditer(r"%(\([^)]*\))?[#0\- +]*(\*|\d+)?(\.(\*|\d+))?[hlL]?(.)", e.left.value)]
        need(all(m_.group(5) in "diouxXeEfFgGcrsa%" for m_ in specs), "format string %r" % e.left.value, e)
        need(not any(m_.group(1) for m_ in specs), "mapping format string", e)
        n = len([m_ for m_ in specs if m_.group(5) != "%"]) + sum(m_.group(0).count("*") for m_ in specs)
        if isinstance(e.right, ast.Tuple):
            return len(e.right.elts) != n
        if n == 1:
            return False
        # a single non-tuple argument for a format with no (or several) specifiers: raises unless the
        # argument is itself a tuple of the right length or (no specifiers) a mapping - decide for constants only
        val = self.chain_const(e.right) if isinstance(e.right, ast.Attribute) else (
            e.right.value if isinstance(e.right, ast.Constant) else NOTCONST)
        need(val is not NOTCONST and isinstance(val, (int, str, bytes, float)) and not isinstance(val, bool) or
             isinstance(val, bool), "format arity cannot be decided", e)
        return True

    def is_opaque_expr(self, e):
        if isinstance(e, ast.JoinedStr):
            return True
        if isinstance(e, ast.BinOp) and isinstance(e.op, ast.Mod) and \
                (isinstance(e.left, ast.Constant) and isinstance(e.left.value, str)):
            return True
        if isinstance(e, ast.Constant) and isinstance(e.value, str) and False:
            return False
        return False


    def note_call(self, fn, arg_exprs, offset=0):
        """A callee that assigns through a parameter: the caller's variable is an alias the model does not
        update, so it may not be read at those keys afterwards (checked in expr)."""
        for (idx, key) in getattr(self.gen, "mutates", {}).get(fn, ()):
            j = idx - offset
            if 0 <= j < len(arg_exprs):
                a = arg_exprs[j]
                need(isinstance(a, ast.Name), "argument mutated by %s is not a plain variable" % fn, a)
                self.tainted.setdefault(a.id, set()).add(key)
                if a.id in self.params:
                    self.inherited_mut.add((self.params.index(a.id), key))

    def check_taint(self, e):
        if isinstance(e.value, ast.Name) and e.value.id in self.tainted:
            keys = self.tainted[e.value.id]
            kc = e.slice.value if isinstance(e.slice, ast.Constant) else None
            if kc is None and isinstance(e.slice, ast.Attribute) and isinstance(e.slice.value, ast.Name) \
                    and e.slice.value.id == self.selfname and self.cls is not None:
                v = inspect.getattr_static(self.cls, e.slice.attr, None)
                kc = v if isinstance(v, str) else None
            need(kc is not None and None not in keys and kc not in keys,
                 "%s[...] is read after a callee replaced that item in place (aliasing not modelled)" % e.value.id, e)

    def binds(self, exprs, k):
        """Evaluate exprs left to right, then k(list of value texts)."""
        names, wraps = [], []
        for e in exprs:
            lit = self.value_of(e)
            if lit is not None:
                names.append(lit)
            else:
                t = self.fresh()
                names.append(t)
                wraps.append((self.expr(e), t))
        out = k(names)
        for txt, t in reversed(wraps):
            out = "pbind (%s) (fun %s => %s)" % (txt, t, out)
        return out

    def class_const(self, attr):
        """value text of self.ATTR when ATTR is a simple class-level constant of the concrete class."""
        if self.cls is None or not hasattr(self.cls, attr):
            return None
        val = inspect.getattr_static(self.cls, attr)
        if isinstance(val, (staticmethod, classmethod, property)) or callable(val):
            return None
        return const_val(val)

    def chain_const(self, e):
        """self.A.B... (attributes only) evaluated on the concrete class; returns the Python object or a marker"""
        names = []
        cur = e
        while isinstance(cur, ast.Attribute):
            names.append(cur.attr)
            cur = cur.value
        if not (isinstance(cur, ast.Name) and cur.id == self.selfname and self.cls is not None and len(names) >= 1):
            return NOTCONST
        obj = self.cls
        first = names[-1]
        if (self.cls.__name__, first) in INSTANCE_ALIAS:
            mod2, cname2, attr2 = INSTANCE_ALIAS[(self.cls.__name__, first)]
            obj = getattr(getattr(module(mod2).mod, cname2), attr2)
            names = names[:-1]
        elif (self.cls.__name__, first) in ATTR_CLASS and len(names) >= 2:
            mod2, cname2 = ATTR_CLASS[(self.cls.__name__, first)]
            obj = getattr(module(mod2).mod, cname2)
            names = names[:-1]
        for n in reversed(names):
            try:
                obj = inspect.getattr_static(obj, n) if obj is self.cls else getattr(obj, n)
            except AttributeError:
                return NOTCONST
            if isinstance(obj, (staticmethod, classmethod, property)) or inspect.isfunction(obj):
                return NOTCONST
        return obj

    def name_chain_const(self, e):
        """ClassName.A.B... for a class of the module / imported from the repository"""
        names = []
        cur = e
        while isinstance(cur, ast.Attribute):
            names.append(cur.attr)
            cur = cur.value
        if not (isinstance(cur, ast.Name) and cur.id != self.selfname and names):
            return NOTCONST
        obj = getattr(self.m.mod, cur.id, NOTCONST)
        if not isinstance(obj, type):
            return NOTCONST
        for n in reversed(names):
            obj = getattr(obj, n, NOTCONST)
            if obj is NOTCONST or inspect.isfunction(obj) or inspect.ismethod(obj):
                return NOTCONST
        return obj

    def instance_obj(self, obj):
        """an instance of a class whose constructor the pure backend translates, held in a class attribute
        (e.g. APP_VERSION = HSM2FirmwareVersion(5, 4, 1)): the object that constructor builds"""
        if type(obj).__module__.split(".")[0] not in ("ledger", "comm", "admin", "sgx"):
            return None
        fields = list(vars(obj).items())
        parts = []
        for k_, v_ in reversed(fields):
            c = const_val(v_)
            if c is None:
                return None
            parts.append("(%s, %s)" % (coq_string(k_), c))
        return "(VObj %s [%s])" % (coq_string(type(obj).__name__), "; ".join(parts))

    def enum_obj(self, m_):
        fields = [("value", m_.value)] + [(k_, v_) for k_, v_ in sorted(vars(m_).items()) if not k_.startswith("_")]
        parts = []
        for k_, v_ in fields:
            c = const_val(v_)
            need(c is not None, "enum member field %s" % k_)
            parts.append("(%s, %s)" % (coq_string(k_), c))
        return '(VObj %s [%s])' % (coq_string(type(m_).__name__), "; ".join(parts))

    def value_of(self, e):
        """Text of type pv if e is a value needing no evaluation (constant, variable, type name)."""
        if isinstance(e, ast.Attribute):
            import enum
            obj = self.chain_const(e)
            if obj is NOTCONST:
                obj = self.name_chain_const(e)
                if obj is not NOTCONST and isinstance(obj, enum.Enum) and not isinstance(obj.value, int):
                    return self.enum_obj(obj)
            if obj is not NOTCONST and isinstance(obj, type) and issubclass(obj, enum.Enum) \
                    and all(isinstance(m_.value, int) for m_ in obj):
                # an IntEnum class handed around as an object (ops / errors / responses): its members as fields
                return "(VObj %s [%s])" % (coq_string(obj.__name__), "; ".join(
                    "(%s, %s)" % (coq_string(m_.name), const_val(int(m_.value))) for m_ in obj))
            if obj is not NOTCONST and not isinstance(obj, (bool, int, str, bytes, type, enum.Enum)) and obj is not None \
                    and not isinstance(obj, (dict, list, tuple, set)) and not callable(obj):
                io = self.instance_obj(obj)
                if io is not None:
                    return io
            if obj is not NOTCONST:
                if isinstance(obj, enum.Enum) and isinstance(obj.value, int):
                    return const_val(int(obj.value))
                if isinstance(obj, (bool, int, str, bytes)) or obj is None:
                    c = const_val(int(obj) if isinstance(obj, int) and not isinstance(obj, bool) else obj)
                    if c is not None:
                        return c
        if isinstance(e, ast.Constant):
            c = const_val(e.value)
            need(c is not None, "constant %r" % (e.value,), e)
            return c
        if isinstance(e, ast.UnaryOp) and isinstance(e.op, ast.USub) and isinstance(e.operand, ast.Constant) \
                and isinstance(e.operand.value, int):
            return const_val(-e.operand.value)
        if isinstance(e, ast.BinOp) and isinstance(e.left, ast.Constant) and isinstance(e.right, ast.Constant) \
                and isinstance(e.left.value, int) and isinstance(e.right.value, int) \
                and isinstance(e.op, (ast.LShift, ast.Add, ast.Sub, ast.Mult, ast.Pow)) \
                and abs(e.right.value) < 4096:
            return const_val(eval(compile(ast.Expression(e), "<const>", "eval")))
        if isinstance(e, ast.Name):
            if e.id in TYPES:
                return "(VType %s)" % TYPES[e.id]
            need(e.id not in self.opaque, "formatted text %s used as a value" % e.id, e)
            need(e.id not in self.excvars, "exception object %s used as a value" % e.id, e)
            if e.id not in self.params and e.id not in self.local_names and e.id in self.m.consts:
                # a module-level constant (assigned once at module level to a literal)
                c = const_val(self.m.consts[e.id])
                need(c is not None, "module constant %s" % e.id, e)
                return c
            if e.id in self.params or True:
                return self.v(e.id)
        if isinstance(e, ast.Attribute) and isinstance(e.value, ast.Name) and e.value.id == self.selfname:
            c = self.class_const(e.attr)
            if c is not None:
                return c
        return None

    # ----- expressions: text of type pr pv -----
    def expr(self, e):
        lit = self.value_of(e)
        if lit is not None:
            return "POk %s" % lit
        if isinstance(e, ast.BoolOp):
            parts = [self.expr(x) for x in e.values]
            op = "py_and" if isinstance(e.op, ast.And) else "py_or"
            out = parts[-1]
            for p in reversed(parts[:-1]):
                out = "%s (%s)\n  (%s)" % (op, p, out)
            return out
        if isinstance(e, ast.UnaryOp) and isinstance(e.op, ast.Not):
            return "py_not (%s)" % self.expr(e.operand)
        if isinstance(e, ast.Compare):
            need(len(e.ops) == 1, "chained comparison", e)
            op, a, b = e.ops[0], e.left, e.comparators[0]
            if isinstance(op, (ast.Is, ast.IsNot)):
                need(isinstance(b, ast.Constant) and b.value is None, "`is` with something other than None", e)
                t = "true" if isinstance(op, ast.Is) else "false"
                f = "false" if isinstance(op, ast.Is) else "true"
                return self.binds([a], lambda n: "POk (VBool (match %s with VNone => %s | _ => %s end))" % (n[0], t, f))
            if isinstance(op, (ast.Eq, ast.NotEq)) and isinstance(a, ast.Call) and isinstance(a.func, ast.Name) \
                    and a.func.id == "type" and len(a.args) == 1 and isinstance(b, ast.Name) and b.id in OBJ_CLASSES:
                neg = "negb " if isinstance(op, ast.NotEq) else ""
                return self.binds([a.args[0]], lambda n: "POk (VBool (%s(obj_class_is %s %s)))" % (neg, n[0], coq_string(b.id)))
            fn = {ast.In: "py_in", ast.NotIn: "py_not_in", ast.Eq: "py_eq", ast.NotEq: "py_ne",
                  ast.Lt: "py_cmp CLt", ast.LtE: "py_cmp CLe", ast.Gt: "py_cmp CGt", ast.GtE: "py_cmp CGe"}.get(type(op))
            need(fn, "comparison operator", e)
            if isinstance(op, (ast.Eq, ast.NotEq)) and any((self.value_of(x) or "").startswith("(VObj ") for x in (a, b)):
                if isinstance(op, ast.Eq):
                    return self.binds([a, b], lambda n: "vbool (py_eq_obj %s %s)" % (n[0], n[1]))
                return self.binds([a, b], lambda n: "vbool (pmap negb (py_eq_obj %s %s))" % (n[0], n[1]))
            return self.binds([a, b], lambda n: "vbool (%s %s %s)" % (fn, n[0], n[1]))
        if isinstance(e, ast.IfExp):
            return "pif (%s) (%s) (%s)" % (self.expr(e.test), self.expr(e.body), self.expr(e.orelse))
        if isinstance(e, ast.Subscript):
            if isinstance(e.slice, ast.Slice):
                need(e.slice.step is None, "slice step", e)

                def cbound(b):
                    if b is None:
                        return "None"
                    v = self.value_of(b)
                    if v is not None and v.startswith("(VInt "):
                        return "(Some %s)" % v[len("(VInt "):-1]
                    return None
                lo, hi = cbound(e.slice.lower), cbound(e.slice.upper)
                if lo is not None and hi is not None:
                    return self.binds([e.value], lambda n: "py_slice %s %s %s" % (n[0], lo, hi))
                # bounds computed at run time
                parts = [e.value] + [b for b in (e.slice.lower, e.slice.upper) if b is not None]

                def mk(n):
                    it = iter(n[1:])
                    lo_ = "None" if e.slice.lower is None else "(Some %s)" % next(it)
                    hi_ = "None" if e.slice.upper is None else "(Some %s)" % next(it)
                    return "py_slice_v %s %s %s" % (n[0], lo_, hi_)
                return self.binds(parts, mk)
            self.check_taint(e)
            return self.binds([e.value, e.slice], lambda n: "py_getitem %s %s" % (n[0], n[1]))
        if isinstance(e, ast.List) or isinstance(e, ast.Tuple):
            return self.binds(list(e.elts), lambda n: "POk (VList [%s])" % "; ".join(n))
        if isinstance(e, ast.Dict) and e.keys and not all(
                kx is not None and (self.value_of(kx) or "").startswith("(VStr ") for kx in e.keys):
            need(all(kx is not None for kx in e.keys), "dict unpacking", e)
            items = []
            for kx, vx in zip(e.keys, e.values):
                items.extend([kx, vx])

            def mk(n):
                pairs = ['("", VList [%s; %s])' % (n[i], n[i + 1]) for i in range(0, len(n), 2)]
                return 'POk (VObj "intdict" [%s])' % "; ".join(pairs)
            return self.binds(items, mk)
        if isinstance(e, ast.Dict):
            keys = []
            for kx in e.keys:
                kv = self.value_of(kx) if kx is not None else None
                need(kv is not None and kv.startswith("(VStr "), "dictionary key not a constant string", e)
                keys.append(kv[len("(VStr "):-1])
            return self.binds(list(e.values), lambda n: "POk (VDict [%s])" % "; ".join(
                "(%s, %s)" % (k_, v_) for k_, v_ in zip(keys, n)))
        if isinstance(e, ast.BinOp):
            fn = {ast.Add: "py_add", ast.Sub: "py_sub", ast.LShift: "py_lshift"}.get(type(e.op))
            need(fn and not self.is_opaque_expr(e), "binary operator", e)
            return self.binds([e.left, e.right], lambda n: "%s %s %s" % (fn, n[0], n[1]))
        if isinstance(e, ast.Attribute):
            if self.M and isinstance(e.value, ast.Name) and e.value.id in self.excvars:
                need(e.attr == "error_code", "attribute %s of an exception object" % e.attr, e)
                return "m_error_code e_%s" % ident(e.value.id)
            if self.M and isinstance(e.value, ast.Name) and e.value.id == self.selfname and self.cls is not None \
                    and (self.cls.__name__, e.attr) in STATE_ATTR:
                return STATE_ATTR[(self.cls.__name__, e.attr)][0]
            if isinstance(e.value, ast.Name) and e.value.id == self.selfname and self.cls is not None:
                special = self.special_attr(e.attr)
                if special:
                    return special
                if isinstance(inspect.getattr_static(self.cls, e.attr, None), property):
                    fn = self.gen.method(self.cls, e.attr)
                    extra = "".join(" " + x for x in self.pass_extra(fn))
                    return "%s%s %s" % (fn, extra, self.v(self.selfname))
            if e.attr == "name" and isinstance(e.value, ast.Attribute) and e.value.attr in ENUM_FIELD:
                # <object>.<field>.name where the field is known to hold a member of an IntEnum of the repository
                import enum
                mod2, cname2 = ENUM_FIELD[e.value.attr]
                en = getattr(module(mod2).mod, cname2)
                need(isinstance(en, type) and issubclass(en, enum.IntEnum), "%s is not an IntEnum" % cname2, e)
                tbl = "; ".join("((%d)%%Z, %s)" % (int(m_.value), const_val(m_.name)[len("(VStr "):-1]) for m_ in en)
                return self.binds([e.value], lambda n: "py_enum_name [%s] %s" % (tbl, n[0]))
            if e.attr in PROP_CLASS and not (isinstance(e.value, ast.Name) and e.value.id == self.selfname):
                mod2, cname2 = PROP_CLASS[e.attr]
                cls2 = getattr(module(mod2).mod, cname2)
                need(isinstance(inspect.getattr_static(cls2, e.attr, None), property), "%s is not a property" % e.attr, e)
                fn = self.G().method(cls2, e.attr)
                return self.binds([e.value], lambda n: self.L("%s %s" % (fn, n[0])))
            return self.binds([e.value], lambda n: "py_getattr %s %s" % (n[0], coq_string(e.attr)))
        if isinstance(e, ast.Call):
            return self.call(e)
        if isinstance(e, ast.JoinedStr):
            # an f-string whose text matters (returned / passed on): constant pieces and {value} fields
            pieces = []
            for v in e.values:
                if isinstance(v, ast.Constant):
                    pieces.append(("c", coq_str_val(v.value)))
                else:
                    need(isinstance(v, ast.FormattedValue) and v.conversion == -1 and v.format_spec is None,
                         "f-string field with conversion / format spec", e)
                    pieces.append(("v", v.value))
            fields = [x for kind_, x in pieces if kind_ == "v"]

            def mk(n):
                it = iter(n)
                out = "POk (VStr ((%s)%%list))" % " ++ ".join(
                    x if kind_ == "c" else "@F%d@" % i for i, (kind_, x) in enumerate(pieces))
                # bind each field's text
                for i in reversed(range(len(pieces))):
                    if pieces[i][0] == "v":
                        pass
                names = list(n)
                txt = out
                wrappers = []
                j = 0
                for i, (kind_, x) in enumerate(pieces):
                    if kind_ == "v":
                        t = self.fresh()
                        txt = txt.replace("@F%d@" % i, t)
                        wrappers.append((names[j], t))
                        j += 1
                for val, t in reversed(wrappers):
                    txt = "pbind (py_fmt_field %s) (fun %s => %s)" % (val, t, txt)
                return txt
            return self.binds(fields, mk)
        need(False, "expression %s not in the translated subset" % type(e).__name__, e)

    def special_attr(self, attr):
        if attr == "_known_commands":
            if self.M:
                return "POk %s" % self.pure_mappings()["known"]
            return "POk %s" % self.mappings()["known"]
        return None

    def mappings(self):
        """_init_mappings of the concrete class: the two dict literals, keys resolved to strings."""
        cache = self.gen.__dict__.setdefault("mapcache", {})
        if self.cls in cache:
            return cache[self.cls]
        meths = find_method(self.cls)
        need("_init_mappings" in meths, "no _init_mappings", None)
        _, fd, m = meths["_init_mappings"]
        found = {}
        for st in fd.body:
            if isinstance(st, ast.Assign) and isinstance(st.targets[0], ast.Attribute):
                found[st.targets[0].attr] = st.value
        need(set(found) == {"_mappings", "_validation_mappings", "_known_commands"}, "_init_mappings assigns %s" % sorted(found), fd)
        kc = found["_known_commands"]
        need(isinstance(kc, ast.Call) and isinstance(kc.func, ast.Attribute) and kc.func.attr == "keys"
             and isinstance(kc.func.value, ast.Attribute) and kc.func.value.attr == "_mappings", "_known_commands shape", fd)

        def keys_vals(d):
            need(isinstance(d, ast.Dict), "mapping not a dict literal", fd)
            out = []
            for kx, vx in zip(d.keys, d.values):
                need(isinstance(kx, ast.Attribute) and isinstance(kx.value, ast.Name) and kx.value.id == "self", "mapping key", kx)
                kval = inspect.getattr_static(self.cls, kx.attr)
                need(isinstance(kval, str), "mapping key value", kx)
                out.append((kval, vx))
            return out
        ops = keys_vals(found["_mappings"])
        vals = keys_vals(found["_validation_mappings"])
        cname = self.cls.__name__
        known = "known_commands_%s" % cname
        self.gen.emit_raw(known, "Definition %s : pv := VDict [%s]." % (
            known, "; ".join("(%s, VNone)" % coq_str_val(k_) for k_, _ in ops)))
        # validation dispatch
        arms = []
        vfns = []
        for kval, vx in vals:
            if isinstance(vx, ast.Lambda):
                need(len(vx.args.args) == 1, "validation lambda", vx)
                sub = FuncTr(self.gen, self.m, self.cls, self.fd, self.has_self)
                sub.params = [vx.args.args[0].arg]
                body = sub.expr(vx.body).replace(sub.v(vx.args.args[0].arg), "request_")
                arms.append((kval, body))
            else:
                need(isinstance(vx, ast.Attribute) and isinstance(vx.value, ast.Name) and vx.value.id == "self", "validator", vx)
                fn = self.gen.method(self.cls, vx.attr)
                vfns.append(fn)
                arms.append((kval, "%s self_ request_" % fn))
        disp = "validation_dispatch_%s" % cname
        body = "PRaise KeyError"
        for kval, call in reversed(arms):
            body = "if str_eqb c_ %s then %s else\n    %s" % (coq_str_val(kval), call, body)
        self.gen.emit_raw(disp, (
            "Definition %s (self_ command_ request_ : pv) : pr pv :=\n  match command_ with\n"
            "  | VStr c_ => %s\n  | VList _ | VDict _ => PRaise TypeError\n  | VObj _ _ => PStuck\n  | _ => PRaise KeyError\n  end." % (disp, body)))
        res = {"known": known, "dispatch": disp, "ops": [k_ for k_, _ in ops], "validators": vfns,
               "op_methods": [(k_, vx.attr) for k_, vx in ops
                              if isinstance(vx, ast.Attribute) and isinstance(vx.value, ast.Name) and vx.value.id == "self"],
               "arms": arms, "val_attrs": [(kval, vx.attr if isinstance(vx, ast.Attribute) else None) for kval, vx in vals]}
        need(len(res["op_methods"]) == len(ops), "operation that is not a method of self", fd)
        cache[self.cls] = res
        return res

    def mappings_st(self):
        """the validation dispatch in its state-threading variant: [result; request as the validator left it]"""
        mp = self.mappings()
        if "dispatch_st" in mp:
            return mp
        cname = self.cls.__name__
        arms = []
        for (kval, call), (_, attr) in zip(mp["arms"], mp["val_attrs"]):
            fn0 = self.gen.method(self.cls, attr) if attr else None
            if fn0 and self.gen.mutates.get(fn0):
                need({i for i, _ in self.gen.mutates[fn0]} == {1}, "validator %s assigns through something other than the request" % attr)
                arms.append((kval, "%s self_ request_" % self.gen.method_st(self.cls, attr)))
            else:
                arms.append((kval, "pbind (%s) (fun r_ => POk (VList [r_; request_]))" % call))
        disp = "validation_dispatch_st_%s" % cname
        body = "PRaise KeyError"
        for kval, call in reversed(arms):
            body = "if str_eqb c_ %s then %s else\n    %s" % (coq_str_val(kval), call, body)
        self.gen.emit_raw(disp, (
            "Definition %s (self_ command_ request_ : pv) : pr pv :=\n  match command_ with\n"
            "  | VStr c_ => %s\n  | VList _ | VDict _ => PRaise TypeError\n  | VObj _ _ => PStuck\n  | _ => PRaise KeyError\n  end." % (disp, body)))
        mp["dispatch_st"] = disp
        return mp

    def base_mappings_cls(self):
        """the class that defines _init_mappings, after checking that the concrete class changes neither the
        constants its methods read nor the validators"""
        meths = find_method(self.cls)
        need("_init_mappings" in meths, "no _init_mappings", None)
        dcls = meths["_init_mappings"][0]
        dm = find_method(dcls)
        for name, (c_, fd2, _m) in dm.items():
            if name.startswith("_validate_") or name == "_init_mappings":
                need(meths[name][0] is c_, "%s overridden in %s" % (name, self.cls.__name__), fd2)
                for n_ in ast.walk(fd2):
                    if isinstance(n_, ast.Attribute) and isinstance(n_.value, ast.Name) and n_.value.id == "self" \
                            and n_.attr not in dm:
                        a1 = inspect.getattr_static(self.cls, n_.attr, NOTCONST)
                        a2 = inspect.getattr_static(dcls, n_.attr, NOTCONST)
                        need(a1 is a2 or a1 == a2, "constant %s differs between %s and %s" % (
                            n_.attr, self.cls.__name__, dcls.__name__), fd2)
        return dcls, meths["_init_mappings"][2]

    def pure_mappings(self):
        dcls, dm = self.base_mappings_cls()
        sub = FuncTr(self.gen.pure, dm, dcls, find_method(dcls)["_init_mappings"][1], True)
        return sub.mappings_st()

    def ops_dispatch(self):
        """self._mappings[command](request) for the concrete class: the handlers as translated by this backend"""
        mp = self.pure_mappings()
        cname = self.cls.__name__
        name = "operation_dispatch_%s" % cname
        cache = self.gen.__dict__.setdefault("opscache", {})
        if name in cache:
            for p_ in cache[name]:
                if p_ not in self.extra_params:
                    self.extra_params.append(p_)
            return name
        extras, arms = [], []
        for kval, attr in mp["op_methods"]:
            fn = self.gen.method(self.cls, attr)
            ex = self.gen.extra.get(fn, [])
            for p_ in ex:
                if p_ not in extras:
                    extras.append(p_)
            arms.append((kval, "%s%s self_ request_" % (fn, "".join(" " + x for x in ex))))
        extras.sort(key=EXTRA_ORDER.index)
        body = "PRaise KeyError"
        for kval, call in reversed(arms):
            body = "if str_eqb c_ %s then %s else\n    %s" % (coq_str_val(kval), call, body)
        self.gen.emit_raw(name, (
            "Definition %s%s (self_ command_ request_ : pv) : pm pv :=\n  match command_ with\n"
            "  | VStr c_ => %s\n  | VList _ | VDict _ => PRaise TypeError\n  | VObj _ _ => PStuck\n  | _ => PRaise KeyError\n  end." % (
                name, "".join(" (%s : %s)" % (p_, EXTRA_TYPES[p_]) for p_ in extras), body)))
        cache[name] = extras
        for p_ in extras:
            if p_ not in self.extra_params:
                self.extra_params.append(p_)
        return name

    def log_only_param(self, fd, pname):
        """True if parameter pname of fd is used only inside log calls and raise statements"""
        allowed = set()
        for n in ast.walk(fd):
            if isinstance(n, ast.Raise) or (isinstance(n, ast.Expr) and self.is_log_call(n.value)):
                for x in ast.walk(n):
                    allowed.add(id(x))
        for n in ast.walk(fd):
            if isinstance(n, ast.Name) and n.id == pname and isinstance(n.ctx, ast.Load) and id(n) not in allowed:
                return False
        return True

    def resolve_callee_args(self, fd, call, skip_self):
        """positional argument expressions of a call, defaults filled in from the callee's signature."""
        params = [a.arg for a in fd.args.args][1 if skip_self else 0:]
        defaults = fd.args.defaults
        dmap = dict(zip(params[len(params) - len(defaults):], defaults)) if defaults else {}
        given = list(call.args)
        need(len(given) <= len(params), "too many arguments", call)
        out = dict(zip(params, given))
        for kw in call.keywords:
            need(kw.arg in params and kw.arg not in out, "keyword argument", call)
            out[kw.arg] = kw.value
        res = []
        for p in params:
            if p in out:
                if self.is_opaque_expr(out[p]):
                    # a formatted text handed to a parameter the callee only logs / puts into an exception message
                    need(self.log_only_param(fd, p) and self.safe_arg(out[p]),
                         "formatted text passed to a parameter that is not log-only", call)
                    res.append(ast.Constant(value=""))
                else:
                    res.append(out[p])
            else:
                need(p in dmap, "missing argument %s" % p, call)
                res.append(dmap[p])
        return res

    def call_m(self, e):
        """calls that only the monadic backend knows; None = not one of them"""
        f = e.func
        if isinstance(f, ast.Attribute) and isinstance(f.value, ast.Name) and f.value.id == self.selfname \
                and self.cls is not None and (self.cls.__name__, f.attr) in ABSTRACT_M:
            p_ = ABSTRACT_M[(self.cls.__name__, f.attr)]
            need(not e.args and not e.keywords, "abstract method with arguments", e)
            if p_ not in self.extra_params:
                self.extra_params.append(p_)
            return p_
        # self.<attr>.<method>(...) where <attr> holds another translated object
        if isinstance(f, ast.Attribute) and isinstance(f.value, ast.Attribute) and isinstance(f.value.value, ast.Name) \
                and f.value.value.id == self.selfname and self.cls is not None \
                and (self.cls.__name__, f.value.attr) in ATTR_CLASS:
            mod2, cname2 = ATTR_CLASS[(self.cls.__name__, f.value.attr)]
            if (cname2, f.attr) in PRIM_M:
                need(not e.args and not e.keywords, "primitive with arguments", e)
                return PRIM_M[(cname2, f.attr)]
            cls2 = getattr(module(mod2).mod, cname2)
            meths2 = find_method(cls2)
            need(f.attr in meths2, "no method %s in %s" % (f.attr, cname2), e)
            fn = self.gen.method(cls2, f.attr)
            args = self.resolve_callee_args(meths2[f.attr][1], e, True)
            ex = "".join(" " + x for x in self.pass_extra(fn))
            return self.binds(args, lambda a: "%s%s (VObj \"%s\" []) %s" % (fn, ex, cname2, " ".join(a)))
        # a method of a base class that is pure code already translated by the first backend (validators)
        if isinstance(f, ast.Attribute) and isinstance(f.value, ast.Name) and f.value.id == self.selfname \
                and self.cls is not None and f.attr.startswith("_validate_"):
            meths = find_method(self.cls)
            need(f.attr in meths, "no method %s" % f.attr, e)
            dcls, fd2, _m2 = meths[f.attr]
            for n_ in ast.walk(fd2):
                if isinstance(n_, ast.Attribute) and isinstance(n_.value, ast.Name) and n_.value.id == "self":
                    a1 = inspect.getattr_static(self.cls, n_.attr, NOTCONST)
                    a2 = inspect.getattr_static(dcls, n_.attr, NOTCONST)
                    need(a1 is a2 or a1 == a2, "constant %s differs between %s and %s" % (
                        n_.attr, self.cls.__name__, dcls.__name__), e)
            fn = self.gen.pure.method(dcls, f.attr)
            args = self.resolve_callee_args(fd2, e, True)
            return self.binds(args, lambda a: "lift (%s %s %s)" % (fn, self.v(self.selfname), " ".join(a)))
        if isinstance(f, ast.Attribute) and isinstance(f.value, ast.Name) and f.value.id == self.selfname:
            if f.attr == "_send_command":
                need(1 <= len(e.args) <= 3 and all(k_.arg == "timeout" for k_ in e.keywords), "_send_command call", e)
                args = list(e.args[:2])
                if len(args) == 1:
                    return self.binds(args, lambda a: "m_send_command %s (VBytes [])" % a[0])
                return self.binds(args, lambda a: "m_send_command %s %s" % (a[0], a[1]))
        if isinstance(f, ast.Attribute):
            import enum
            obj = self.chain_const(f)
            if obj is not NOTCONST and isinstance(obj, type) and issubclass(obj, enum.Enum) and len(e.args) == 1:
                vals = [int(m_.value) for m_ in obj]
                return self.binds(e.args, lambda a: "py_enum_of [%s] %s" % ("; ".join("(%d)%%Z" % v for v in vals), a[0]))
            # ClassName.staticmethod(...) of a class of the repository: pure code
            if isinstance(f.value, ast.Name):
                cls = None
                if f.value.id in self.m.classes:
                    cls = getattr(self.m.mod, f.value.id)
                elif f.value.id in self.m.imports and \
                        self.m.imports[f.value.id][1] in module(self.m.imports[f.value.id][0]).classes:
                    cls = getattr(module(self.m.imports[f.value.id][0]).mod, self.m.imports[f.value.id][1])
                if cls is not None and isinstance(inspect.getattr_static(cls, f.attr, None), staticmethod):
                    fn = self.G().method(cls, f.attr)
                    meths = find_method(cls)
                    args = self.resolve_callee_args(meths[f.attr][1], e, False)
                    ex = "".join(" " + x for x in self.pass_extra(fn, self.G()))
                    return self.binds(args, lambda a: self.L("%s%s %s" % (fn, ex, " ".join(a))))
        if isinstance(f, ast.Attribute) and isinstance(f.value, ast.Call) and isinstance(f.value.func, ast.Name) \
                and f.value.func.id in self.m.imports and len(f.value.args) == 1 \
                and isinstance(f.value.args[0], ast.Name) and f.value.args[0].id == self.selfname:
            mod2, name2 = self.m.imports[f.value.func.id]
            m2 = module(mod2)
            # the name may be re-exported by a package __init__: find the defining module
            cls2 = getattr(m2.mod, name2, None)
            if isinstance(cls2, type) and (cls2.__name__, "dongle") in ATTR_CLASS:
                meths2 = find_method(cls2)
                need(f.attr in meths2, "no method %s in %s" % (f.attr, cls2.__name__), e)
                fn = self.gen.method(cls2, f.attr)
                args = self.resolve_callee_args(meths2[f.attr][1], e, True)
                ex = "".join(" " + x for x in self.pass_extra(fn))
                return self.binds(args, lambda a: "%s%s (VObj \"%s\" []) %s" % (fn, ex, cls2.__name__, " ".join(a)))
        if isinstance(f, ast.Name) and f.id == "bytes" and len(e.args) == 1 and not e.keywords:
            return self.binds(e.args, lambda a: "py_bytes %s" % a[0])
        return None

    def call(self, e):
        f = e.func
        if self.M:
            r = self.call_m(e)
            if r is not None:
                return r
        # builtins
        if isinstance(f, ast.Name):
            n = f.id
            if n == "len" and len(e.args) == 1:
                return self.binds(e.args, lambda a: "py_len %s" % a[0])
            if n == "type" and len(e.args) == 1:
                return self.binds(e.args, lambda a: "POk (VType (py_type %s))" % a[0])
            if n == "chr" and len(e.args) == 1:
                return self.binds(e.args, lambda a: "py_chr %s" % a[0])
            if n == "int" and len(e.args) == 1 and not e.keywords:
                return self.binds(e.args, lambda a: "py_int %s" % a[0])
            if n == "int" and len(e.args) == 2 and not e.keywords:
                if "int_oracle_" not in self.extra_params:
                    self.extra_params.append("int_oracle_")
                return self.binds(e.args, lambda a: "py_int_base int_oracle_ %s %s" % (a[0], a[1]))
            if n == "sorted" and len(e.args) == 1 and len(e.keywords) == 1 and e.keywords[0].arg == "key" and self.M:
                fn = self.callable_text(e.keywords[0].value, e)
                return self.binds(e.args, lambda a: "py_sorted_by (%s) %s" % (fn, a[0]))
            if n == "isinstance" and len(e.args) == 2 and not e.keywords and isinstance(e.args[1], ast.Name):
                cn = e.args[1].id
                obj = getattr(self.m.mod, cn, None)
                need(isinstance(obj, type) and not obj.__subclasses__(), "isinstance against a class with subclasses", e)
                return self.binds([e.args[0]], lambda a: "POk (VBool (obj_class_is %s %s))" % (a[0], coq_string(cn)))
            if n == "bool" and len(e.args) == 1 and not e.keywords:
                return self.binds(e.args, lambda a: "POk (VBool (py_truth %s))" % a[0])
            if n == "range" and len(e.args) == 1 and not e.keywords:
                return self.binds(e.args, lambda a: "py_range %s" % a[0])
            if n == "enumerate" and len(e.args) in (1, 2) and not e.keywords:
                if len(e.args) == 1:
                    return self.binds(e.args, lambda a: "py_enumerate %s (VInt 0%%Z)" % a[0])
                return self.binds(e.args, lambda a: "py_enumerate %s %s" % (a[0], a[1]))
            if n == "str" and len(e.args) == 1 and not e.keywords:
                return self.binds(e.args, lambda a: "py_str %s" % a[0])
            eo = getattr(self.m.mod, n, None)
            import enum as _enum
            if isinstance(eo, type) and issubclass(eo, _enum.Enum) and not all(isinstance(m_.value, int) for m_ in eo) \
                    and len(e.args) == 1 and not e.keywords:
                objs = "; ".join(self.enum_obj(m_) for m_ in eo)
                return self.binds(e.args, lambda a: "py_enum_member [%s] %s" % (objs, a[0]))
            enum_vals = self.enum_values(n)
            if enum_vals is not None and len(e.args) == 1 and not e.keywords:
                return self.binds(e.args, lambda a: "py_enum_of [%s] %s" % (
                    "; ".join("(%d)%%Z" % v for v in enum_vals), a[0]))
            if n in ("all", "any") and len(e.args) == 1:
                return self.quantifier(n, e.args[0], e)
            if n == "list" and len(e.args) == 1 and isinstance(e.args[0], ast.Call) \
                    and isinstance(e.args[0].func, ast.Name) and e.args[0].func.id == "map":
                mp = e.args[0]
                need(len(mp.args) == 2, "map arity", e)
                fn = self.callable_text(mp.args[0], e)
                return self.binds([mp.args[1]], lambda a: "py_list_map (%s) %s" % (fn, a[0]))
            # functions of the same module / imported from the repository
            if n in self.m.funcs:
                fn = self.G().function(self.m.name, n)
                args = self.resolve_callee_args(self.m.funcs[n], e, False)
                self.note_call(fn, args)
                ex = "".join(" " + x for x in self.pass_extra(fn, self.G()))
                return self.binds(args, lambda a: self.L("%s%s %s" % (fn, ex, " ".join(a))))
            if n in self.m.imports:
                mod2, name2 = self.m.imports[n]
                m2 = module(mod2)
                if name2 in m2.funcs and (mod2, name2) in ORACLE_FUNCS:
                    if "call_method_" not in self.extra_params:
                        self.extra_params.append("call_method_")
                    return self.binds(list(e.args), lambda a: self.L("call_method_ %s VNone [%s]" % (
                        coq_string(name2), "; ".join(a))))
                if name2 in m2.funcs:
                    fn = self.G().function(mod2, name2)
                    args = self.resolve_callee_args(m2.funcs[name2], e, False)
                    self.note_call(fn, args)
                    ex = "".join(" " + x for x in self.pass_extra(fn, self.G()))
                    return self.binds(args, lambda a: self.L("%s%s %s" % (fn, ex, " ".join(a))))
                if name2 in m2.classes:
                    return self.construct(getattr(m2.mod, name2), e)
            if n in self.m.classes:
                return self.construct(getattr(self.m.mod, n), e)
            need(False, "call of %s" % n, e)
        if isinstance(f, ast.Attribute) and isinstance(f.value, ast.Name) and f.value.id == "struct" and f.attr == "pack" \
                and self.M and len(e.args) == 4 and not e.keywords:
            fm = e.args[0]
            need(isinstance(fm, ast.BinOp) and isinstance(fm.op, ast.Mod) and isinstance(fm.left, ast.Constant)
                 and fm.left.value == "BB%ds" and isinstance(fm.right, ast.Call) and isinstance(fm.right.func, ast.Name)
                 and fm.right.func.id == "len" and len(fm.right.args) == 1
                 and ast.dump(fm.right.args[0]) == ast.dump(e.args[3]), "struct.pack format", e)
            return self.binds(e.args[1:], lambda a: "py_struct_pack_BBs %s %s %s" % (a[0], a[1], a[2]))
        if isinstance(f, ast.Attribute):
            # self.method(...)
            if isinstance(f.value, ast.Name) and f.value.id == self.selfname and self.cls is not None:
                meths = find_method(self.cls)
                if f.attr in meths:
                    fn = self.gen.method(self.cls, f.attr)
                    args = self.resolve_callee_args(meths[f.attr][1], e, True)
                    self.note_call(fn, args, offset=1)
                    extra = "".join(" " + x for x in self.pass_extra(fn))
                    return self.binds(args, lambda a: "%s%s %s %s" % (fn, extra, self.v(self.selfname), " ".join(a)))
            # self._validation_mappings[command](request) / self._mappings[command](request)
            if False:
                pass
            # str / bytes class methods
            if isinstance(f.value, ast.Name) and f.value.id == "bytes" and f.attr == "fromhex" and len(e.args) == 1:
                return self.binds(e.args, lambda a: "py_fromhex %s" % a[0])
            if isinstance(f.value, ast.Name) and f.value.id == "str" and f.attr == "isdecimal" and len(e.args) == 1:
                return self.binds(e.args, lambda a: "py_isdecimal %s" % a[0])
            # methods on values
            if f.attr == "to_bytes" and len(e.args) == 1:
                kw = {k_.arg: k_.value for k_ in e.keywords}
                need(set(kw) <= {"byteorder", "signed"} and isinstance(kw.get("byteorder"), ast.Constant)
                     and kw["byteorder"].value in ("little", "big")
                     and ("signed" not in kw or (isinstance(kw["signed"], ast.Constant) and kw["signed"].value is False)),
                     "to_bytes options", e)
                opn = "py_to_bytes_le" if kw["byteorder"].value == "little" else "py_to_bytes_be"
                return self.binds([f.value, e.args[0]], lambda a: "%s %s %s" % (opn, a[0], a[1]))
            if f.attr == "hex" and not e.args and not e.keywords:
                return self.binds([f.value], lambda a: "py_hex %s" % a[0])
            if f.attr == "lower" and not e.args and not e.keywords:
                return self.binds([f.value], lambda a: "py_lower %s" % a[0])
            if f.attr == "encode" and len(e.args) == 1 and isinstance(e.args[0], ast.Constant) \
                    and e.args[0].value == "ascii":
                return self.binds([f.value], lambda a: "py_encode_ascii %s" % a[0])
            if isinstance(f.value, ast.Name) and f.value.id == "int" and f.attr == "from_bytes" and len(e.args) == 1:
                kw = {k_.arg: k_.value for k_ in e.keywords}
                need(set(kw) <= {"byteorder", "signed"} and isinstance(kw.get("byteorder"), ast.Constant)
                     and kw["byteorder"].value == "big"
                     and ("signed" not in kw or (isinstance(kw["signed"], ast.Constant) and kw["signed"].value is False)),
                     "int.from_bytes options", e)
                return self.binds(e.args, lambda a: "py_from_bytes_be %s" % a[0])
            if f.attr == "startswith" and len(e.args) == 1:
                return self.binds([f.value, e.args[0]], lambda a: "py_startswith %s %s" % (a[0], a[1]))
            if f.attr == "split" and len(e.args) == 1:
                return self.binds([f.value, e.args[0]], lambda a: "py_split %s %s" % (a[0], a[1]))
            # method of another translated object whose class is known from a classmethod `cls`
            if f.attr in METHOD_CLASS and not (isinstance(f.value, ast.Name) and f.value.id == self.selfname):
                mod2, cname2 = METHOD_CLASS[f.attr]
                cls2 = getattr(module(mod2).mod, cname2)
                fn = self.G().method(cls2, f.attr)
                args = self.resolve_callee_args(find_method(cls2)[f.attr][1], e, True)
                return self.binds([f.value] + args, lambda a: self.L("%s %s" % (fn, " ".join(a))))
            if f.attr == "items" and not e.args and not e.keywords:
                obj = self.chain_const(f.value)
                if obj is NOTCONST:
                    obj = self.name_chain_const(f.value)
                need(isinstance(obj, dict) and all(const_val(k_) and const_val(int(v_) if isinstance(v_, int) else v_)
                                                   for k_, v_ in obj.items()), "items() of something that is not a constant dict", e)
                return "POk (VList [%s])" % "; ".join(
                    "VList [%s; %s]" % (const_val(k_), const_val(int(v_) if isinstance(v_, int) else v_)) for k_, v_ in obj.items())
            if f.attr == "get" and len(e.args) == 2 and not e.keywords:
                return self.binds([f.value] + list(e.args), lambda a: "py_get_default %s %s %s" % (a[0], a[1], a[2]))
            if f.attr == "get" and len(e.args) == 1 and not e.keywords:
                return self.binds([f.value, e.args[0]], lambda a: "py_dict_get %s %s" % (a[0], a[1]))
            # a method of an object the translation knows nothing about (certificate elements ...): an oracle
            need(not e.keywords and f.attr not in ("append", "pop", "extend", "insert", "remove", "clear", "update",
                                                   "sort", "reverse", "setdefault", "popitem"),
                 "mutating / keyword method call .%s" % f.attr, e)
            if "call_method_" not in self.extra_params:
                self.extra_params.append("call_method_")
            return self.binds([f.value] + list(e.args), lambda a: self.L("call_method_ %s %s [%s]" % (
                coq_string(f.attr), a[0], "; ".join(a[1:]))))
        if isinstance(f, ast.Subscript) and isinstance(f.value, ast.Attribute) and isinstance(f.value.value, ast.Name) \
                and f.value.value.id == self.selfname and self.cls is not None and len(e.args) == 1:
            if f.value.attr == "_validation_mappings":
                mp = self.mappings()
                for vfn in mp["validators"]:
                    self.note_call(vfn, [e.args[0]], offset=1)
                return self.binds([f.slice, e.args[0]], lambda a: "%s %s %s %s" % (
                    mp["dispatch"], self.v(self.selfname), a[0], a[1]))
            if f.value.attr == "_mappings" and self.M:
                name = self.ops_dispatch()
                ex = "".join(" " + x for x in sorted(self.gen.opscache[name], key=EXTRA_ORDER.index))
                return self.binds([f.slice, e.args[0]], lambda a: "%s%s %s %s %s" % (
                    name, ex, self.v(self.selfname), a[0], a[1]))
            if f.value.attr == "_mappings":
                self.mappings()
                if "op_" not in self.extra_params:
                    self.extra_params.append("op_")
                # the operations themselves (device interaction) are a parameter of the translated gate
                return self.binds([f.slice, e.args[0]], lambda a: "op_ %s %s" % (a[0], a[1]))
        need(False, "call shape", e)

    def enum_values(self, name):
        import enum
        obj = getattr(self.m.mod, name, None)
        if isinstance(obj, type) and issubclass(obj, enum.Enum):
            vals = [m_.value for m_ in obj]
            need(all(isinstance(v, int) for v in vals), "enum %s with non-int values" % name)
            return vals
        return None

    def G(self):
        """generator for code that is pure even when called from monadic code"""
        return self.gen.pure if self.M else self.gen

    def L(self, text):
        return ("lift (%s)" % text) if self.M else text

    def pass_extra(self, fn, g=None):
        ex = getattr(g or self.gen, "extra", {}).get(fn, [])
        for p in ex:
            if p not in self.extra_params:
                self.extra_params.append(p)
        return ex

    def construct(self, cls, e):
        meths = find_method(cls)
        need("__init__" in meths, "constructor of %s" % cls.__name__, e)
        fn = self.G().method(cls, "__init__")
        args = self.resolve_callee_args(meths["__init__"][1], e, True)
        ex = "".join(" " + x for x in self.pass_extra(fn, self.G()))
        return self.binds(args, lambda a: self.L('%s%s (VObj "%s" []) %s' % (fn, ex, cls.__name__, " ".join(a))))

    def callable_text(self, fx, e):
        """A one-argument callable used with map(): a class of the repository or a lambda."""
        if isinstance(fx, ast.Lambda):
            need(len(fx.args.args) == 1, "lambda arity", e)
            return "fun %s => %s" % (self.v(fx.args.args[0].arg), self.expr(fx.body))
        if isinstance(fx, ast.Name) and fx.id in self.m.imports and self.m.imports[fx.id] in ORACLE_FUNCS:
            if "call_method_" not in self.extra_params:
                self.extra_params.append("call_method_")
            return "fun x_ => %s" % self.L("call_method_ %s VNone [x_]" % coq_string(self.m.imports[fx.id][1]))
        if isinstance(fx, ast.Name):
            cls = None
            if fx.id in self.m.classes:
                cls = getattr(self.m.mod, fx.id)
            elif fx.id in self.m.imports and self.m.imports[fx.id][1] in module(self.m.imports[fx.id][0]).classes:
                cls = getattr(module(self.m.imports[fx.id][0]).mod, self.m.imports[fx.id][1])
            if cls is not None:
                meths = find_method(cls)
                need(len(meths["__init__"][1].args.args) == 2, "constructor arity for map", e)
                fn = self.gen.method(cls, "__init__")
                return 'fun x_ => %s (VObj "%s" []) x_' % (fn, cls.__name__)
        need(False, "callable in map()", e)

    def quantifier(self, which, arg, e):
        fn = "py_all_in" if which == "all" else "py_any_in"
        if isinstance(arg, ast.GeneratorExp):
            gens = arg.generators
            need(all(not g.ifs and not g.is_async and isinstance(g.target, ast.Name) for g in gens), "generator shape", e)
            # all(elt for a in A for b in B) == all over A of all over B (same evaluation order)
            def build(i):
                g = gens[i]
                inner = self.expr(arg.elt) if i == len(gens) - 1 else build(i + 1)
                return self.binds([g.iter], lambda a: "%s %s (fun %s => %s)" % (fn, a[0], self.v(g.target.id), inner))
            need(which == "all" or len(gens) == 1, "nested any()", e)
            return build(0)
        if isinstance(arg, ast.Call) and isinstance(arg.func, ast.Name) and arg.func.id == "map" and len(arg.args) == 2:
            f = self.callable_text(arg.args[0], e)
            return self.binds([arg.args[1]], lambda a: "%s %s (%s)" % (fn, a[0], f))
        need(False, "argument of %s()" % which, e)


HEADER = """(* GENERATED by tools/gen_src.py from the Python source text of /repo on every run. Do not edit.
   One Gallina definition per translated Python function / method (per concrete class). *)
From PowHsm Require Export Py.ValGen.
Open Scope string_scope.
Open Scope list_scope.
Open Scope N_scope.
"""


HEADER_M = """(* GENERATED by tools/gen_src.py (device-monad backend) from the Python source text of /repo on every run.
   Do not edit.  Same translation scheme as Gen/Src.v, but every operation is the monadic namesake of
   Model/ValM.v (module MV): device exchanges, manager state and the middleware's own exception classes. *)
From PowHsm Require Export Gen.Src Model.ValM.
Import MV.
Open Scope string_scope.
Open Scope list_scope.
Open Scope N_scope.
"""


def write_if_changed(path, content):
    try:
        if open(path).read() == content:
            return False
    except FileNotFoundError:
        pass
    tmp = path + ".tmp"
    open(tmp, "w").write(content)
    os.replace(tmp, path)
    return True


def main():
    g = Gen()
    failures = []
    for modname, clsname, names in SPEC:
        for n in names:
            # fail-closed per function: one that is outside the subset is simply absent from Src.v, so exactly
            # the proofs that mention it (and the properties built on them) stop compiling
            try:
                m = module(modname)
                if clsname is None:
                    g.function(modname, n)
                else:
                    g.method(getattr(m.mod, clsname), n)
            except GenError as ex:
                g.in_progress.clear()
                failures.append({"module": modname, "class": clsname, "function": n, "error": str(ex)})
            except Exception as ex:          # import errors, missing classes ...
                g.in_progress.clear()
                failures.append({"module": modname, "class": clsname, "function": n,
                                 "error": "%s: %s" % (type(ex).__name__, ex)})
    # second backend: device-monad code (may request further pure definitions, so it runs before Src.v is written)
    gm = Gen(backend="M", pure=g)
    for modname, clsname, names in SPEC_M:
        for n in names:
            try:
                m = module(modname)
                gm.method(getattr(m.mod, clsname), n)
            except GenError as ex:
                gm.in_progress.clear()
                g.in_progress.clear()
                failures.append({"module": modname, "class": clsname, "function": n, "error": str(ex), "backend": "M"})
            except Exception as ex:
                gm.in_progress.clear()
                g.in_progress.clear()
                failures.append({"module": modname, "class": clsname, "function": n,
                                 "error": "%s: %s" % (type(ex).__name__, ex), "backend": "M"})
    text = HEADER + "\n" + "\n\n".join(t for _, t in g.defs) + "\n"
    os.makedirs(OUT, exist_ok=True)
    changed = write_if_changed(os.path.join(OUT, "Src.v"), text)
    textm = HEADER_M + "\n" + "\n\n".join(t for _, t in gm.defs) + "\n"
    changed = write_if_changed(os.path.join(OUT, "SrcM.v"), textm) or changed
    for m_ in gm.manifest:
        m_["backend"] = "M"
    write_if_changed(os.path.join(OUT, "Src.manifest.json"),
                     json.dumps({"translated": g.manifest + gm.manifest, "failed": failures}, indent=1))
    for f in failures:
        print("GEN-ERROR (source translator): %s.%s%s: %s" % (
            f["module"], (f["class"] + ".") if f["class"] else "", f["function"], f["error"]))
    print("gen_src: %d + %d definitions from %d + %d source functions, %d not translatable (%s)" % (
        len(g.defs), len(gm.defs), len(g.manifest), len(gm.manifest), len(failures),
        "rewritten" if changed else "unchanged"))


if __name__ == "__main__":
    main()
